#!/usr/bin/env python3
"""Regenerate MANIFEST.json from registry.py (single source of truth)."""
import json, os, sys
HERE = os.path.dirname(os.path.abspath(__file__))
sys.path.insert(0, HERE)
import registry

props = [json.loads(l)["id"] for l in open(os.path.join(HERE, "properties.jsonl"))]
checks = []
for pid in props:
    if pid not in registry.CHECKS:
        continue
    c = registry.CHECKS[pid]
    checks.append({
        "property_id": pid,
        "quick_cmd": "./check %s --tier quick" % pid,
        "thorough_cmd": "./check %s --tier thorough" % pid,
        "evidence_file": "evidence/%s.json" % pid,
        "replay_cmd_template": "./check %s --replay {path}" % pid,
        "engine": "egfacts+mirq",
        "level_claimed": {"category": c["level"], "text": c["claim"], "design_ref": "DESIGN.md section 5, " + pid},
        "level_note": c["note"],
        "technique": c["technique"],
    })
na = [{"property_id": pid, "reason": registry.NOT_APPLICABLE.get(pid, "check not built yet (framework under construction)")}
      for pid in props if pid not in registry.CHECKS]
m = {
    "version": 1,
    "setup_cmd": "cd /verif/engine/egfacts && CARGO_NET_OFFLINE=true cargo +nightly build --release --offline && cd /verif && python3 engine/extract.py default fixed_point",
    "hooks": {"guard": "embedded_graphics_verif",
              "enable": "none needed: the fact extractor (rustc driver) sees private items; no hooks are compiled into /repo",
              "baseline_off_cmd": "cd /repo && cargo test --workspace --no-fail-fast --offline",
              "source_commits": registry.SOURCE_COMMITS, "add_only": True},
    "engines": [
        {"name": "egfacts", "path": "engine/egfacts", "serves_properties": sorted(registry.CHECKS), "kind_free_text": "rustc_private driver (RUSTC_WORKSPACE_WRAPPER) dumping resolved MIR, impl tables and evaluated constants of /repo's current tree as JSON facts"},
        {"name": "mirq", "path": "engine/mirq", "serves_properties": sorted(registry.CHECKS), "kind_free_text": "Python static-analysis library over the facts: CFG, dominators, carrier/taint propagation, origin trees, decision extraction, abstract interpretation"},
    ],
    "checks": checks,
    "notes": "Static analysis only: nothing from embedded-graphics is executed. See DESIGN.md.",
    "not_applicable": na,
}
json.dump(m, open(os.path.join(HERE, "MANIFEST.json"), "w"), indent=1)
print("checks:", [c["property_id"] for c in checks], "n/a:", [n["property_id"] for n in na])
