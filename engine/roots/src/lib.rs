//! Never executed.  `root_*` functions instantiate library entry points at finite type-level
//! configurations so that rustc resolves every trait call; egfacts dumps their monomorphic
//! instance closure (DESIGN.md E5).
#![no_std]
#![allow(unused)]

use embedded_graphics::{
    image::{Image, ImageRaw},
    mono_font::{ascii::FONT_6X10, MonoTextStyle, MonoTextStyleBuilder},
    pixelcolor::{BinaryColor, Rgb565},
    prelude::*,
    primitives::Rectangle,
    text::{renderer::TextRenderer, Baseline, Text},
};

/// A target that overrides nothing but the required method and one that implements all four.
pub struct DummyIter;
impl OriginDimensions for DummyIter {
    fn size(&self) -> Size {
        Size::new(64, 64)
    }
}
impl DrawTarget for DummyIter {
    type Color = Rgb565;
    type Error = ();
    fn draw_iter<I: IntoIterator<Item = Pixel<Rgb565>>>(&mut self, pixels: I) -> Result<(), ()> {
        for _ in pixels {}
        Err(())
    }
}

pub struct DummyFull;
impl OriginDimensions for DummyFull {
    fn size(&self) -> Size {
        Size::new(64, 64)
    }
}
impl DrawTarget for DummyFull {
    type Color = Rgb565;
    type Error = ();
    fn draw_iter<I: IntoIterator<Item = Pixel<Rgb565>>>(&mut self, pixels: I) -> Result<(), ()> {
        for _ in pixels {}
        Err(())
    }
    fn fill_contiguous<I: IntoIterator<Item = Rgb565>>(&mut self, _a: &Rectangle, colors: I) -> Result<(), ()> {
        for _ in colors {}
        Err(())
    }
    fn fill_solid(&mut self, _a: &Rectangle, _c: Rgb565) -> Result<(), ()> {
        Err(())
    }
    fn clear(&mut self, _c: Rgb565) -> Result<(), ()> {
        Err(())
    }
}

pub fn root_text_iter(style: &MonoTextStyle<'static, Rgb565>, s: &str, t: &mut DummyIter) -> Result<Point, ()> {
    style.draw_string(s, Point::zero(), Baseline::Top, t)
}

pub fn root_text_full(style: &MonoTextStyle<'static, Rgb565>, s: &str, t: &mut DummyFull) -> Result<Point, ()> {
    style.draw_string(s, Point::zero(), Baseline::Top, t)
}

pub fn root_text_whitespace(style: &MonoTextStyle<'static, Rgb565>, t: &mut DummyFull) -> Result<Point, ()> {
    style.draw_whitespace(7, Point::zero(), Baseline::Top, t)
}

pub fn root_text_drawable(text: &Text<'static, MonoTextStyle<'static, Rgb565>>, t: &mut DummyIter) -> Result<Point, ()> {
    text.draw(t)
}

pub fn root_text_drawable_full(text: &Text<'static, MonoTextStyle<'static, Rgb565>>, t: &mut DummyFull) -> Result<Point, ()> {
    text.draw(t)
}
