"""E1 front end: (re)build the JSON facts for /repo's current working tree.

Facts are cached under /verif/.work/facts/<config>/<sha>/ where <sha> hashes every file the
build can read, so a check always analyses the tree as it is now and never trusts cargo's
fingerprint cache (fresh CARGO_TARGET_DIR per extraction, removed afterwards).
"""
import fcntl, hashlib, json, os, re, shutil, subprocess, sys, tempfile, time

VERIF = os.path.dirname(os.path.dirname(os.path.abspath(__file__)))
REPO = os.environ.get("EG_REPO", "/repo")
WORK = os.path.join(VERIF, ".work")
DRIVER_DIR = os.path.join(VERIF, "engine", "egfacts")
DRIVER = os.path.join(DRIVER_DIR, "target", "release", "egfacts")

CONFIGS = {
    "default": [],
    "fixed_point": ["--features", "fixed_point"],
    "nalgebra_support": ["--features", "nalgebra_support"],
    "defmt": ["--features", "defmt"],
}
HASH_EXT = (".rs", ".toml", ".lock", ".raw")


def repo_hash():
    h = hashlib.sha256()
    files = []
    for root, dirs, fs in os.walk(REPO):
        dirs[:] = sorted(d for d in dirs if d not in (".git", "target"))
        for f in sorted(fs):
            if f.endswith(HASH_EXT):
                files.append(os.path.join(root, f))
    for p in files:
        h.update(os.path.relpath(p, REPO).encode())
        h.update(b"\0")
        with open(p, "rb") as fh:
            h.update(hashlib.sha256(fh.read()).digest())
    # the driver itself is part of the key
    for f in sorted(os.listdir(os.path.join(DRIVER_DIR, "src"))):
        with open(os.path.join(DRIVER_DIR, "src", f), "rb") as fh:
            h.update(hashlib.sha256(fh.read()).digest())
    return h.hexdigest()[:20]


def sysroot():
    return subprocess.check_output(["rustc", "+nightly", "--print", "sysroot"], text=True).strip()


def ensure_driver():
    srcs = [os.path.join(DRIVER_DIR, "src", f) for f in os.listdir(os.path.join(DRIVER_DIR, "src"))]
    if os.path.exists(DRIVER) and all(os.path.getmtime(DRIVER) >= os.path.getmtime(s) for s in srcs):
        return
    env = dict(os.environ, CARGO_NET_OFFLINE="true")
    r = subprocess.run(["cargo", "+nightly", "build", "--release", "--offline"], cwd=DRIVER_DIR, env=env,
                       stdout=subprocess.PIPE, stderr=subprocess.STDOUT, text=True)
    if r.returncode != 0:
        sys.stderr.write(r.stdout)
        raise SystemExit("egfacts driver failed to build")


def base_env(out):
    env = dict(os.environ)
    env["CARGO_NET_OFFLINE"] = "true"
    env["LD_LIBRARY_PATH"] = sysroot() + "/lib" + (":" + env["LD_LIBRARY_PATH"] if env.get("LD_LIBRARY_PATH") else "")
    env["RUSTFLAGS"] = "-Zmir-opt-level=0 -Zalways-encode-mir -Awarnings -Coverflow-checks=on -Cdebug-assertions=on"
    env["RUSTC_WORKSPACE_WRAPPER"] = DRIVER
    env["EGFACTS_OUT"] = out
    env["CARGO_INCREMENTAL"] = "0"  # the incremental cache grows by one session per analysed tree (10 GB seen)
    env.pop("RUSTC_WRAPPER", None)
    return env


def _prune(cfgdir, keep):
    """Remove cached fact directories older than two hours (never the newest `keep`): several trees may be
    analysed concurrently, so recent entries must survive."""
    try:
        ents = sorted((os.path.getmtime(os.path.join(cfgdir, e)), e) for e in os.listdir(cfgdir))
    except FileNotFoundError:
        return
    now = time.time()
    for mt, e in ents[:-max(keep, 1)]:
        if now - mt > 7200:
            shutil.rmtree(os.path.join(cfgdir, e), ignore_errors=True)


def trim_target(tgt, cap=2 << 30):
    """Keep a persistent target directory bounded: every analysed tree (scratch worktrees have their own path, hence
    their own crate hashes) leaves its own artifacts behind. Above `cap` bytes the workspace members' artifacts and
    the incremental cache are dropped; the registry dependencies stay."""
    dbg = os.path.join(tgt, "debug")
    shutil.rmtree(os.path.join(dbg, "incremental"), ignore_errors=True)
    deps = os.path.join(dbg, "deps")
    try:
        names = os.listdir(deps)
    except FileNotFoundError:
        return
    size = 0
    for n in names:
        try:
            size += os.path.getsize(os.path.join(deps, n))
        except OSError:
            pass
    if size > cap:
        for n in names:
            if re.match(r"(lib)?(embedded_graphics|roots|witness|rust_out)", n):
                try:
                    os.remove(os.path.join(deps, n))
                except OSError:
                    pass


def facts_dir(config, sha=None):
    """Return the directory holding <crate>.json for `config`, extracting if needed."""
    sha = sha or repo_hash()
    os.makedirs(WORK, exist_ok=True)
    d = os.path.join(WORK, "facts", config, sha)
    want = ["embedded_graphics.json", "embedded_graphics_core.json"]
    if all(os.path.exists(os.path.join(d, w)) for w in want):
        try:
            os.utime(d)  # least-recently-used pruning
        except OSError:
            pass
        return d
    with open(os.path.join(WORK, "facts.lock"), "w") as lk:
        fcntl.flock(lk, fcntl.LOCK_EX)
        if all(os.path.exists(os.path.join(d, w)) for w in want):
            return d
        ensure_driver()
        tmp_out = tempfile.mkdtemp(prefix="egfacts-out-")
        # Dependencies (registry crates, compiled by plain rustc) are kept in a persistent
        # target dir; the workspace members' fingerprints are deleted so that cargo always
        # re-runs the wrapper on them, and the fact files are asserted to exist afterwards.
        tgt = os.path.join(WORK, "target", config)
        os.makedirs(tgt, exist_ok=True)
        fp = os.path.join(tgt, "debug", ".fingerprint")
        if os.path.isdir(fp):
            for e in os.listdir(fp):
                if e.startswith("embedded-graphics"):
                    shutil.rmtree(os.path.join(fp, e), ignore_errors=True)
        try:
            cmd = ["cargo", "+nightly", "check", "--offline", "--workspace", "--lib"] + CONFIGS[config]
            r = subprocess.run(cmd, cwd=REPO, env=dict(base_env(tmp_out), CARGO_TARGET_DIR=tgt),
                               stdout=subprocess.PIPE, stderr=subprocess.STDOUT, text=True)
            if r.returncode != 0 or not all(os.path.exists(os.path.join(tmp_out, w)) for w in want):
                sys.stderr.write(r.stdout[-6000:])
                raise SystemExit("fact extraction failed for config %s (does /repo compile?)" % config)
            os.makedirs(os.path.dirname(d), exist_ok=True)
            if os.path.exists(d):
                shutil.rmtree(d)
            shutil.move(tmp_out, d)
            _prune(os.path.dirname(d), 3)
        finally:
            shutil.rmtree(tmp_out, ignore_errors=True)
    return d


def roots_facts(sha=None):
    """Monomorphic instance closure of the harness crate engine/roots (path-depends on /repo)."""
    sha = sha or repo_hash()
    os.makedirs(WORK, exist_ok=True)
    d = os.path.join(WORK, "facts", "roots", sha)
    out = os.path.join(d, "roots.json")
    if os.path.exists(out):
        return out
    with open(os.path.join(WORK, "facts.lock"), "w") as lk:
        fcntl.flock(lk, fcntl.LOCK_EX)
        if os.path.exists(out):
            return out
        ensure_driver()
        # build a copy of the harness whose path dependencies point at the tree being analysed
        src = os.path.join(VERIF, "engine", "roots")
        rdir = os.path.join(WORK, "roots_build", hashlib.sha1(REPO.encode()).hexdigest()[:10])
        os.makedirs(os.path.join(rdir, "src"), exist_ok=True)
        shutil.copy(os.path.join(src, "src", "lib.rs"), os.path.join(rdir, "src", "lib.rs"))
        with open(os.path.join(src, "Cargo.toml")) as fh:
            toml = fh.read().replace('"/repo/core"', '"%s/core"' % REPO).replace('"/repo"', '"%s"' % REPO)
        with open(os.path.join(rdir, "Cargo.toml"), "w") as fh:
            fh.write(toml)
        lock = os.path.join(REPO, "Cargo.lock")
        if not os.path.exists(lock):
            lock = "/repo/Cargo.lock"
        if os.path.exists(lock):
            shutil.copy(lock, os.path.join(rdir, "Cargo.lock"))
        tmp_out = tempfile.mkdtemp(prefix="egfacts-out-")
        tgt = os.path.join(WORK, "target", "roots")
        os.makedirs(tgt, exist_ok=True)
        trim_target(tgt)
        fp = os.path.join(tgt, "debug", ".fingerprint")
        if os.path.isdir(fp):
            for e in os.listdir(fp):
                if e.startswith("embedded-graphics") or e.startswith("roots"):
                    shutil.rmtree(os.path.join(fp, e), ignore_errors=True)
        try:
            r = subprocess.run(["cargo", "+nightly", "check", "--offline", "--lib"], cwd=rdir, env=dict(base_env(tmp_out), CARGO_TARGET_DIR=tgt),
                               stdout=subprocess.PIPE, stderr=subprocess.STDOUT, text=True)
            if r.returncode != 0 or not os.path.exists(os.path.join(tmp_out, "roots.json")):
                sys.stderr.write(r.stdout[-6000:])
                raise SystemExit("mono extraction (roots harness) failed")
            os.makedirs(d, exist_ok=True)
            shutil.move(os.path.join(tmp_out, "roots.json"), out)
            _prune(os.path.dirname(d), 3)
        finally:
            shutil.rmtree(tmp_out, ignore_errors=True)
    return out


_CRATE_RE = re.compile(r"(?<![A-Za-z0-9_])crate::")


def load_crate(path, crate_name):
    with open(path) as fh:
        txt = fh.read()
    txt = _CRATE_RE.sub(crate_name + "::", txt)
    return json.loads(txt)


if __name__ == "__main__":
    t = time.time()
    for c in sys.argv[1:] or ["default"]:
        print(c, facts_dir(c), "%.1fs" % (time.time() - t))
