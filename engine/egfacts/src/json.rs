//! Minimal JSON value and serializer (no dependencies).

#[derive(Clone, Debug)]
pub enum J {
    Null,
    Bool(bool),
    Int(i128),
    Str(String),
    Arr(Vec<J>),
    Obj(Vec<(String, J)>),
}

impl J {
    pub fn s(x: impl Into<String>) -> J {
        J::Str(x.into())
    }
    pub fn obj() -> J {
        J::Obj(Vec::new())
    }
    pub fn set(mut self, k: &str, v: J) -> J {
        if let J::Obj(ref mut o) = self {
            o.push((k.to_string(), v));
        }
        self
    }
    pub fn put(&mut self, k: &str, v: J) {
        if let J::Obj(ref mut o) = self {
            o.push((k.to_string(), v));
        }
    }
    pub fn opt(v: Option<J>) -> J {
        v.unwrap_or(J::Null)
    }
    pub fn write(&self, out: &mut String) {
        match self {
            J::Null => out.push_str("null"),
            J::Bool(b) => out.push_str(if *b { "true" } else { "false" }),
            J::Int(i) => {
                // JSON numbers beyond 2^63 are kept as strings prefixed by '#'.
                if *i > i64::MAX as i128 || *i < i64::MIN as i128 {
                    out.push('"');
                    out.push('#');
                    out.push_str(&i.to_string());
                    out.push('"');
                } else {
                    out.push_str(&i.to_string())
                }
            }
            J::Str(s) => write_str(s, out),
            J::Arr(a) => {
                out.push('[');
                for (i, x) in a.iter().enumerate() {
                    if i > 0 {
                        out.push(',');
                    }
                    x.write(out);
                }
                out.push(']');
            }
            J::Obj(o) => {
                out.push('{');
                for (i, (k, v)) in o.iter().enumerate() {
                    if i > 0 {
                        out.push(',');
                    }
                    write_str(k, out);
                    out.push(':');
                    v.write(out);
                }
                out.push('}');
            }
        }
    }
}

fn write_str(s: &str, out: &mut String) {
    out.push('"');
    for c in s.chars() {
        match c {
            '"' => out.push_str("\\\""),
            '\\' => out.push_str("\\\\"),
            '\n' => out.push_str("\\n"),
            '\r' => out.push_str("\\r"),
            '\t' => out.push_str("\\t"),
            c if (c as u32) < 0x20 || (c as u32) == 0x7f => {
                out.push_str(&format!("\\u{:04x}", c as u32))
            }
            c if (c as u32) > 0xffff => {
                let v = c as u32 - 0x10000;
                out.push_str(&format!("\\u{:04x}\\u{:04x}", 0xd800 + (v >> 10), 0xdc00 + (v & 0x3ff)));
            }
            c if (c as u32) > 0x7e => out.push_str(&format!("\\u{:04x}", c as u32)),
            c => out.push(c),
        }
    }
    out.push('"');
}
