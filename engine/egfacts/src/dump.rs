use crate::constval;
use crate::json::J;
use rustc_hir::def::DefKind;
use rustc_hir::def_id::{DefId, LOCAL_CRATE};
use rustc_middle::mir::{self, *};
use rustc_middle::ty::{self, GenericArgKind, GenericArgsRef, Instance, Ty, TyCtxt, TypingEnv};
use rustc_span::Span;

pub struct Cx<'tcx> {
    pub tcx: TyCtxt<'tcx>,
    pub env: TypingEnv<'tcx>,
    /// in mono mode all constants are evaluated and calls resolved with `env`
    pub mono: bool,
    /// calls discovered while dumping a body (mono mode): resolved instances
    pub callees: Vec<Instance<'tcx>>,
}

pub fn def_id_str(tcx: TyCtxt<'_>, d: DefId) -> String {
    format!("{}{}", tcx.crate_name(d.krate), tcx.def_path(d).to_string_no_crate_verbose())
}

pub fn span_str(tcx: TyCtxt<'_>, sp: Span) -> String {
    if sp.is_dummy() {
        return String::new();
    }
    let sm = tcx.sess.source_map();
    let (f, l, _, _, _) = sm.span_to_location_info(sp);
    match f {
        Some(f) => format!("{}:{}", f.name.prefer_local_unconditionally(), l),
        None => String::new(),
    }
}

impl<'tcx> Cx<'tcx> {
    pub fn path(&self, d: DefId) -> String {
        self.tcx.def_path_str(d)
    }

    pub fn ty(&self, t: Ty<'tcx>) -> J {
        let tcx = self.tcx;
        match t.kind() {
            ty::Bool | ty::Char | ty::Int(_) | ty::Uint(_) | ty::Float(_) | ty::Str | ty::Never => {
                J::s(format!("{}", t))
            }
            ty::Adt(def, args) => J::obj().set("adt", J::s(self.path(def.did()))).set("args", self.args(args)),
            ty::Ref(_, inner, m) => J::obj().set("ref", self.ty(*inner)).set("mut", J::Bool(m.is_mut())),
            ty::RawPtr(inner, m) => J::obj().set("ptr", self.ty(*inner)).set("mut", J::Bool(m.is_mut())),
            ty::Tuple(ts) => J::obj().set("tuple", J::Arr(ts.iter().map(|x| self.ty(x)).collect())),
            ty::Array(e, n) => J::obj().set("array", self.ty(*e)).set("len", self.tyconst(*n)),
            ty::Slice(e) => J::obj().set("slice", self.ty(*e)),
            ty::Param(p) => J::obj().set("param", J::s(p.name.to_string())).set("idx", J::Int(p.index as i128)),
            ty::Alias(a) => {
                let did = a.kind.def_id();
                let mut o = J::obj().set("alias", J::s(self.path(did))).set("args", self.args(a.args));
                if let ty::AliasTyKind::Projection { .. } = a.kind {
                    let tr = tcx.parent(did);
                    o.put("trait", J::s(self.path(tr)));
                    o.put("name", J::s(tcx.item_name(did).to_string()));
                    o.put("self", self.ty(a.args.type_at(0)));
                }
                o
            }
            ty::Closure(d, args) => {
                let pa = args.as_closure().parent_args();
                J::obj().set("closure", J::s(def_id_str(tcx, *d))).set(
                    "args",
                    J::Arr(pa.iter().map(|a| self.garg(*a)).collect()),
                )
            }
            ty::FnDef(d, args) => J::obj().set("fndef", J::s(self.path(*d))).set("id", J::s(def_id_str(tcx, *d))).set("args", self.args(args)),
            ty::FnPtr(..) => J::obj().set("fnptr", J::s(format!("{}", t))),
            ty::Dynamic(..) => J::obj().set("dyn", J::s(format!("{}", t))),
            _ => J::obj().set("other", J::s(format!("{:?}", t))),
        }
    }

    pub fn garg(&self, a: ty::GenericArg<'tcx>) -> J {
        match a.kind() {
            GenericArgKind::Type(t) => self.ty(t),
            GenericArgKind::Const(c) => J::obj().set("const", self.tyconst(c)),
            GenericArgKind::Lifetime(_) => J::s("'_"),
        }
    }

    pub fn args(&self, args: GenericArgsRef<'tcx>) -> J {
        J::Arr(args.iter().map(|a| self.garg(a)).collect())
    }

    pub fn tyconst(&self, c: ty::Const<'tcx>) -> J {
        match c.kind() {
            ty::ConstKind::Param(p) => J::obj().set("cparam", J::s(p.name.to_string())).set("idx", J::Int(p.index as i128)),
            ty::ConstKind::Value(v) => {
                if let Some(s) = v.try_to_leaf() {
                    scalar_int_j(s, v.ty)
                } else {
                    J::obj().set("valtree", J::s(format!("{}", c)))
                }
            }
            ty::ConstKind::Unevaluated(u) => {
                // try to evaluate
                let mc = mir::Const::Unevaluated(
                    mir::UnevaluatedConst { def: u.def, args: u.args, promoted: None },
                    self.tcx.type_of(u.def).instantiate(self.tcx, u.args).skip_norm_wip(),
                );
                let mut o = J::obj().set("uneval", J::s(self.path(u.def))).set("args", self.args(u.args));
                if let Some(s) = mc.try_eval_scalar_int(self.tcx, self.env) {
                    o.put("value", scalar_int_j(s, mc.ty()));
                }
                o
            }
            _ => J::obj().set("cother", J::s(format!("{:?}", c))),
        }
    }

    pub fn mirconst(&self, c: &mir::Const<'tcx>, owner: DefId) -> J {
        let tcx = self.tcx;
        let ty = c.ty();
        let mut o = J::obj().set("ty", self.ty(ty));
        match c {
            mir::Const::Ty(_, tc) => {
                o.put("c", self.tyconst(*tc));
                if let Some(s) = tc.try_to_leaf() {
                    o.put("v", scalar_int_j(s, ty));
                }
                return o;
            }
            mir::Const::Unevaluated(u, _) => {
                if let Some(p) = u.promoted {
                    o.put("promoted", J::Int(p.as_u32() as i128));
                    o.put("of", J::s(def_id_str(tcx, u.def)));
                    let _ = owner;
                } else {
                    o.put("uneval", J::s(self.path(u.def)));
                    o.put("uneval_id", J::s(def_id_str(tcx, u.def)));
                    o.put("args", self.args(u.args));
                    if let Some(tr) = tcx.trait_of_assoc(u.def) {
                        o.put("trait", J::s(self.path(tr)));
                    }
                }
            }
            mir::Const::Val(..) => {}
        }
        // value
        match c.eval(tcx, self.env, rustc_span::DUMMY_SP) {
            Ok(val) => {
                if let Some(v) = constval::const_value_j(self, val, ty) {
                    o.put("v", v);
                }
            }
            Err(_) => {}
        }
        o
    }

    pub fn place(&self, p: &Place<'tcx>) -> J {
        let mut proj = Vec::new();
        for e in p.projection.iter() {
            proj.push(match e {
                ProjectionElem::Deref => J::s("*"),
                ProjectionElem::Field(f, _) => J::obj().set("f", J::Int(f.as_u32() as i128)),
                ProjectionElem::Index(l) => J::obj().set("idx", J::Int(l.as_u32() as i128)),
                ProjectionElem::ConstantIndex { offset, min_length, from_end } => J::obj()
                    .set("cidx", J::Int(offset as i128))
                    .set("min", J::Int(min_length as i128))
                    .set("from_end", J::Bool(from_end)),
                ProjectionElem::Subslice { from, to, from_end } => J::obj()
                    .set("sub", J::Int(from as i128))
                    .set("to", J::Int(to as i128))
                    .set("from_end", J::Bool(from_end)),
                ProjectionElem::Downcast(name, v) => J::obj()
                    .set("down", J::Int(v.as_u32() as i128))
                    .set("name", match name { Some(n) => J::s(n.to_string()), None => J::Null }),
                ProjectionElem::OpaqueCast(_) => J::s("opaque"),
                ProjectionElem::UnwrapUnsafeBinder(_) => J::s("unwrap_binder"),
            });
        }
        J::obj().set("l", J::Int(p.local.as_u32() as i128)).set("p", J::Arr(proj))
    }

    pub fn operand(&self, op: &Operand<'tcx>, owner: DefId) -> J {
        match op {
            Operand::Copy(p) => J::obj().set("copy", self.place(p)),
            Operand::Move(p) => J::obj().set("move", self.place(p)),
            Operand::Constant(box c) => J::obj().set("const", self.mirconst(&c.const_, owner)),
            Operand::RuntimeChecks(r) => J::obj().set("rtcheck", J::s(format!("{:?}", r))),
        }
    }

    fn rvalue(&self, rv: &Rvalue<'tcx>, owner: DefId) -> J {
        match rv {
            Rvalue::Use(op, _) => J::obj().set("k", J::s("use")).set("a", self.operand(op, owner)),
            Rvalue::Repeat(op, n) => J::obj().set("k", J::s("repeat")).set("a", self.operand(op, owner)).set("n", self.tyconst(*n)),
            Rvalue::Ref(_, bk, p) => J::obj()
                .set("k", J::s("ref"))
                .set("mut", J::Bool(matches!(bk, BorrowKind::Mut { .. })))
                .set("place", self.place(p)),
            Rvalue::RawPtr(_, p) => J::obj().set("k", J::s("rawptr")).set("place", self.place(p)),
            Rvalue::Cast(kind, op, ty) => J::obj()
                .set("k", J::s("cast"))
                .set("cast", J::s(format!("{:?}", kind)))
                .set("a", self.operand(op, owner))
                .set("ty", self.ty(*ty)),
            Rvalue::BinaryOp(op, box (a, b)) => J::obj()
                .set("k", J::s("bin"))
                .set("op", J::s(format!("{:?}", op)))
                .set("a", self.operand(a, owner))
                .set("b", self.operand(b, owner)),
            Rvalue::UnaryOp(op, a) => J::obj().set("k", J::s("un")).set("op", J::s(format!("{:?}", op))).set("a", self.operand(a, owner)),
            Rvalue::Discriminant(p) => J::obj().set("k", J::s("discr")).set("place", self.place(p)),
            Rvalue::Aggregate(box kind, ops) => {
                let mut o = J::obj().set("k", J::s("agg"));
                match kind {
                    AggregateKind::Array(t) => {
                        o.put("agg", J::s("array"));
                        o.put("ty", self.ty(*t));
                    }
                    AggregateKind::Tuple => o.put("agg", J::s("tuple")),
                    AggregateKind::Adt(d, v, args, _, _) => {
                        o.put("agg", J::s("adt"));
                        o.put("adt", J::s(self.path(*d)));
                        let adt = self.tcx.adt_def(*d);
                        o.put("variant", J::s(adt.variant(*v).name.to_string()));
                        o.put("vidx", J::Int(v.as_u32() as i128));
                        o.put("args", self.args(args));
                    }
                    AggregateKind::Closure(d, args) => {
                        o.put("agg", J::s("closure"));
                        o.put("closure", J::s(def_id_str(self.tcx, *d)));
                        let pa = args.as_closure().parent_args();
                        o.put("args", J::Arr(pa.iter().map(|a| self.garg(*a)).collect()));
                    }
                    AggregateKind::RawPtr(..) => o.put("agg", J::s("rawptr")),
                    _ => o.put("agg", J::s("other")),
                }
                o.put("ops", J::Arr(ops.iter().map(|x| self.operand(x, owner)).collect()));
                o
            }
            Rvalue::CopyForDeref(p) => J::obj().set("k", J::s("use")).set("a", J::obj().set("copy", self.place(p))),
            Rvalue::ThreadLocalRef(_) => J::obj().set("k", J::s("tls")),
            Rvalue::WrapUnsafeBinder(..) => J::obj().set("k", J::s("wrapbinder")),
        }
    }

    fn callee(&mut self, func: &Operand<'tcx>, owner: DefId) -> J {
        let tcx = self.tcx;
        let fty = match func {
            Operand::Constant(box c) => c.const_.ty(),
            _ => return J::obj().set("indirect", self.operand(func, owner)),
        };
        match fty.kind() {
            ty::FnDef(d, args) => {
                let d = *d;
                let mut o = J::obj()
                    .set("path", J::s(self.path(d)))
                    .set("id", J::s(def_id_str(tcx, d)))
                    .set("name", J::s(tcx.item_name(d).to_string()))
                    .set("args", self.args(args))
                    .set("krate", J::s(tcx.crate_name(d.krate).to_string()));
                if let Some(tr) = tcx.trait_of_assoc(d) {
                    o.put("trait", J::s(self.path(tr)));
                }
                if let Some(im) = tcx.impl_of_assoc(d) {
                    o.put("impl", J::s(def_id_str(tcx, im)));
                }
                // resolution
                let args_n = if self.mono {
                    tcx.normalize_erasing_regions(self.env, ty::Unnormalized::new_wip(*args))
                } else {
                    args
                };
                if let Ok(Some(inst)) = Instance::try_resolve(tcx, self.env, d, args_n) {
                    let rd = inst.def_id();
                    let mut r = J::obj()
                        .set("path", J::s(self.path(rd)))
                        .set("id", J::s(def_id_str(tcx, rd)))
                        .set("args", self.args(inst.args))
                        .set("kind", J::s(instance_kind_str(&inst)));
                    if let Some(im) = tcx.impl_of_assoc(rd) {
                        r.put("impl", J::s(def_id_str(tcx, im)));
                    }
                    if self.mono {
                        r.put("inst", J::s(inst_key(tcx, &inst)));
                        self.callees.push(inst);
                    }
                    o.put("resolved", r);
                }
                o
            }
            _ => J::obj().set("indirect", self.operand(func, owner)),
        }
    }

    fn terminator(&mut self, t: &Terminator<'tcx>, owner: DefId) -> J {
        let bb = |b: BasicBlock| J::Int(b.as_u32() as i128);
        let sp = span_str(self.tcx, t.source_info.span);
        let mut o = match &t.kind {
            TerminatorKind::Goto { target } => J::obj().set("k", J::s("goto")).set("t", bb(*target)),
            TerminatorKind::SwitchInt { discr, targets } => {
                let mut ts = Vec::new();
                for (v, b) in targets.iter() {
                    ts.push(J::Arr(vec![J::Int(v as i128), bb(b)]));
                }
                J::obj()
                    .set("k", J::s("switch"))
                    .set("d", self.operand(discr, owner))
                    .set("targets", J::Arr(ts))
                    .set("otherwise", bb(targets.otherwise()))
            }
            TerminatorKind::Return => J::obj().set("k", J::s("return")),
            TerminatorKind::Unreachable => J::obj().set("k", J::s("unreachable")),
            TerminatorKind::UnwindResume => J::obj().set("k", J::s("resume")),
            TerminatorKind::UnwindTerminate(_) => J::obj().set("k", J::s("abort")),
            TerminatorKind::Drop { place, target, .. } => {
                J::obj().set("k", J::s("drop")).set("place", self.place(place)).set("t", bb(*target))
            }
            TerminatorKind::Call { func, args, destination, target, fn_span, .. } => {
                let c = self.callee(func, owner);
                J::obj()
                    .set("k", J::s("call"))
                    .set("f", c)
                    .set("args", J::Arr(args.iter().map(|a| self.operand(&a.node, owner)).collect()))
                    .set("dest", self.place(destination))
                    .set("t", match target { Some(b) => bb(*b), None => J::Null })
                    .set("exp", J::Bool(fn_span.from_expansion()))
            }
            TerminatorKind::TailCall { .. } => J::obj().set("k", J::s("tailcall")),
            TerminatorKind::Assert { cond, expected, msg, target, .. } => {
                let mut m = J::obj();
                match &**msg {
                    AssertKind::BoundsCheck { len, index } => {
                        m.put("kind", J::s("bounds"));
                        m.put("len", self.operand(len, owner));
                        m.put("index", self.operand(index, owner));
                    }
                    AssertKind::Overflow(op, a, b) => {
                        m.put("kind", J::s("overflow"));
                        m.put("op", J::s(format!("{:?}", op)));
                        m.put("a", self.operand(a, owner));
                        m.put("b", self.operand(b, owner));
                    }
                    AssertKind::OverflowNeg(a) => {
                        m.put("kind", J::s("overflow_neg"));
                        m.put("a", self.operand(a, owner));
                    }
                    AssertKind::DivisionByZero(a) => {
                        m.put("kind", J::s("div_zero"));
                        m.put("a", self.operand(a, owner));
                    }
                    AssertKind::RemainderByZero(a) => {
                        m.put("kind", J::s("rem_zero"));
                        m.put("a", self.operand(a, owner));
                    }
                    other => {
                        m.put("kind", J::s("other"));
                        m.put("text", J::s(format!("{:?}", other)));
                    }
                }
                J::obj()
                    .set("k", J::s("assert"))
                    .set("cond", self.operand(cond, owner))
                    .set("expected", J::Bool(*expected))
                    .set("msg", m)
                    .set("t", bb(*target))
            }
            TerminatorKind::FalseEdge { real_target, .. } => J::obj().set("k", J::s("goto")).set("t", bb(*real_target)),
            TerminatorKind::FalseUnwind { real_target, .. } => J::obj().set("k", J::s("goto")).set("t", bb(*real_target)),
            _ => J::obj().set("k", J::s("other")).set("text", J::s(format!("{:?}", t.kind))),
        };
        o.put("sp", J::s(sp));
        o
    }

    pub fn body(&mut self, body: &Body<'tcx>, owner: DefId) -> J {
        let mut locals = Vec::new();
        // user variable names
        let mut names: Vec<Option<String>> = vec![None; body.local_decls.len()];
        for vdi in &body.var_debug_info {
            if let VarDebugInfoContents::Place(p) = &vdi.value {
                if p.projection.is_empty() {
                    names[p.local.as_usize()] = Some(vdi.name.to_string());
                }
            }
        }
        for (l, d) in body.local_decls.iter_enumerated() {
            let mut o = J::obj().set("ty", self.ty(d.ty));
            if let Some(n) = &names[l.as_usize()] {
                o.put("name", J::s(n.clone()));
            }
            locals.push(o);
        }
        // closure captures / upvar debug info (names of captured variables)
        let mut upvars = Vec::new();
        for vdi in &body.var_debug_info {
            if let VarDebugInfoContents::Place(p) = &vdi.value {
                if !p.projection.is_empty() {
                    upvars.push(J::obj().set("name", J::s(vdi.name.to_string())).set("place", self.place(p)));
                }
            }
        }
        let mut blocks = Vec::new();
        for (_bb, data) in body.basic_blocks.iter_enumerated() {
            let mut stmts = Vec::new();
            for s in &data.statements {
                match &s.kind {
                    StatementKind::Assign(box (p, rv)) => {
                        let mut o = J::obj().set("k", J::s("assign")).set("place", self.place(p)).set("rv", self.rvalue(rv, owner));
                        o.put("sp", J::s(span_str(self.tcx, s.source_info.span)));
                        if s.source_info.span.from_expansion() {
                            o.put("exp", J::Bool(true));
                        }
                        stmts.push(o);
                    }
                    StatementKind::SetDiscriminant { place, variant_index } => {
                        stmts.push(
                            J::obj()
                                .set("k", J::s("setdiscr"))
                                .set("place", self.place(place))
                                .set("v", J::Int(variant_index.as_u32() as i128)),
                        );
                    }
                    StatementKind::Intrinsic(box i) => {
                        stmts.push(J::obj().set("k", J::s("intrinsic")).set("text", J::s(format!("{:?}", i))));
                    }
                    _ => {}
                }
            }
            let term = match &data.terminator {
                Some(t) => self.terminator(t, owner),
                None => J::Null,
            };
            blocks.push(J::obj().set("s", J::Arr(stmts)).set("t", term).set("cleanup", J::Bool(data.is_cleanup)));
        }
        J::obj()
            .set("argc", J::Int(body.arg_count as i128))
            .set("locals", J::Arr(locals))
            .set("upvars", J::Arr(upvars))
            .set("blocks", J::Arr(blocks))
    }
}

pub fn instance_kind_str(inst: &Instance<'_>) -> &'static str {
    match inst.def {
        ty::InstanceKind::Item(_) => "item",
        ty::InstanceKind::Intrinsic(_) => "intrinsic",
        ty::InstanceKind::Virtual(..) => "virtual",
        ty::InstanceKind::ClosureOnceShim { .. } => "closure_once_shim",
        ty::InstanceKind::FnPtrShim(..) => "fnptr_shim",
        ty::InstanceKind::DropGlue(..) => "drop_glue",
        ty::InstanceKind::CloneShim(..) => "clone_shim",
        ty::InstanceKind::ReifyShim(..) => "reify_shim",
        ty::InstanceKind::VTableShim(..) => "vtable_shim",
        _ => "other_shim",
    }
}

pub fn inst_key<'tcx>(tcx: TyCtxt<'tcx>, inst: &Instance<'tcx>) -> String {
    format!("{}|{}|{}", instance_kind_str(inst), def_id_str(tcx, inst.def_id()), tcx.def_path_str_with_args(inst.def_id(), inst.args))
}

pub fn scalar_int_j<'tcx>(s: ty::ScalarInt, ty: Ty<'tcx>) -> J {
    let size = s.size();
    let bits = s.to_bits(size);
    match ty.kind() {
        ty::Int(_) => {
            let n = size.bits();
            let v = if n == 128 { bits as i128 } else {
                let sign = 1u128 << (n - 1);
                if bits & sign != 0 { (bits as i128) - (1i128 << n) } else { bits as i128 }
            };
            J::Int(v)
        }
        ty::Bool => J::Bool(bits != 0),
        ty::Char => J::obj().set("char", J::Int(bits as i128)),
        ty::Float(_) => J::obj().set("fbits", J::Int(bits as i128)),
        _ => {
            if bits > i128::MAX as u128 { J::s(format!("#{}", bits)) } else { J::Int(bits as i128) }
        }
    }
}

fn generics_j<'tcx>(cx: &Cx<'tcx>, d: DefId) -> J {
    let tcx = cx.tcx;
    let mut out = Vec::new();
    let mut chain = Vec::new();
    let mut cur = Some(d);
    while let Some(c) = cur {
        let g = tcx.generics_of(c);
        chain.push(g);
        cur = g.parent;
    }
    for g in chain.iter().rev() {
        for p in &g.own_params {
            let kind = match p.kind {
                ty::GenericParamDefKind::Lifetime => "lifetime",
                ty::GenericParamDefKind::Type { .. } => "type",
                ty::GenericParamDefKind::Const { .. } => "const",
            };
            out.push(J::obj().set("name", J::s(p.name.to_string())).set("idx", J::Int(p.index as i128)).set("kind", J::s(kind)));
        }
    }
    J::Arr(out)
}

fn bounds_j<'tcx>(cx: &Cx<'tcx>, d: DefId) -> J {
    // trait predicates of the item (including parents): [{self: ty, trait: path, args}]
    let tcx = cx.tcx;
    let mut out = Vec::new();
    let preds = tcx.predicates_of(d).instantiate_identity(tcx);
    for (p, _) in preds.into_iter() {
        let p = p.skip_norm_wip();
        if let Some(tp) = p.as_trait_clause() {
            let tp = tp.skip_binder();
            out.push(
                J::obj()
                    .set("self", cx.ty(tp.self_ty()))
                    .set("trait", J::s(cx.path(tp.def_id())))
                    .set("args", cx.args(tp.trait_ref.args)),
            );
        }
    }
    J::Arr(out)
}

pub fn dump_crate<'tcx>(tcx: TyCtxt<'tcx>) -> J {
    let mut root = J::obj();
    let krate = tcx.crate_name(LOCAL_CRATE).to_string();
    root.put("crate", J::s(krate.clone()));
    // crate graph
    let mut crates = Vec::new();
    for c in tcx.crates(()) {
        crates.push(J::s(tcx.crate_name(*c).to_string()));
    }
    root.put("extern_crates", J::Arr(crates));
    // cfg
    let mut cfgs = Vec::new();
    for (k, v) in tcx.sess.config.iter() {
        if k.as_str() == "feature" {
            if let Some(v) = v {
                cfgs.push(J::s(v.to_string()));
            }
        }
    }
    root.put("features", J::Arr(cfgs));
    let mut cfg_all = Vec::new();
    for (k, v) in tcx.sess.config.iter() {
        let ks = k.as_str();
        if ks == "test" || ks == "debug_assertions" || ks == "overflow_checks" || ks == "target_pointer_width" {
            cfg_all.push(J::s(match v { Some(v) => format!("{}={}", ks, v), None => ks.to_string() }));
        }
    }
    root.put("cfg", J::Arr(cfg_all));

    let items = tcx.hir_crate_items(());
    let mut adts = Vec::new();
    let mut impls = Vec::new();
    let mut traits = Vec::new();
    for ld in items.definitions() {
        let d = ld.to_def_id();
        if !matches!(tcx.def_kind(d), DefKind::Struct | DefKind::Enum | DefKind::Union | DefKind::Impl { .. } | DefKind::Trait) {
            continue;
        }
        let cx = Cx { tcx, env: TypingEnv::post_analysis(tcx, d_env_owner(tcx, d)), mono: false, callees: Vec::new() };
        match tcx.def_kind(d) {
            DefKind::Struct | DefKind::Enum | DefKind::Union => {
                let adt = tcx.adt_def(d);
                let mut vs = Vec::new();
                for (vi, v) in adt.variants().iter_enumerated() {
                    let mut fs = Vec::new();
                    for f in v.fields.iter() {
                        fs.push(
                            J::obj()
                                .set("name", J::s(f.name.to_string()))
                                .set("ty", cx.ty(tcx.type_of(f.did).instantiate_identity().skip_norm_wip()))
                                .set("pub", J::Bool(f.vis.is_public())),
                        );
                    }
                    let discr = if adt.is_enum() { J::Int(adt.discriminant_for_variant(tcx, vi).val as i128) } else { J::Null };
                    vs.push(J::obj().set("name", J::s(v.name.to_string())).set("discr", discr).set("fields", J::Arr(fs)));
                }
                adts.push(
                    J::obj()
                        .set("path", J::s(cx.path(d)))
                        .set("id", J::s(def_id_str(tcx, d)))
                        .set("kind", J::s(if adt.is_enum() { "enum" } else if adt.is_union() { "union" } else { "struct" }))
                        .set("generics", generics_j(&cx, d))
                        .set("variants", J::Arr(vs))
                        .set("span", J::s(span_str(tcx, tcx.def_span(d)))),
                );
            }
            DefKind::Impl { .. } => {
                let mut o = J::obj().set("id", J::s(def_id_str(tcx, d)));
                if let Some(tr) = tcx.impl_opt_trait_ref(d) {
                    let tr = tr.instantiate_identity().skip_norm_wip();
                    o.put("trait", J::s(cx.path(tr.def_id)));
                    o.put("trait_args", cx.args(tr.args));
                } else {
                    o.put("trait", J::Null);
                }
                o.put("self_ty", cx.ty(tcx.type_of(d).instantiate_identity().skip_norm_wip()));
                o.put("generics", generics_j(&cx, d));
                o.put("bounds", bounds_j(&cx, d));
                let mut fns = Vec::new();
                let mut consts = Vec::new();
                let mut types = Vec::new();
                for it in tcx.associated_items(d).in_definition_order() {
                    match it.kind {
                        ty::AssocKind::Fn { .. } => {
                            fns.push((it.name().to_string(), J::s(def_id_str(tcx, it.def_id))));
                        }
                        ty::AssocKind::Const { .. } => {
                            let mut c = J::obj().set("id", J::s(def_id_str(tcx, it.def_id)));
                            c.put("ty", cx.ty(tcx.type_of(it.def_id).instantiate_identity().skip_norm_wip()));
                            if let Ok(val) = tcx.const_eval_poly(it.def_id) {
                                let ty = tcx.type_of(it.def_id).instantiate_identity().skip_norm_wip();
                                if let Some(v) = constval::const_value_j(&cx, val, ty) {
                                    c.put("v", v);
                                }
                            }
                            consts.push((it.name().to_string(), c));
                        }
                        ty::AssocKind::Type { .. } => {
                            types.push((it.name().to_string(), cx.ty(tcx.type_of(it.def_id).instantiate_identity().skip_norm_wip())));
                        }
                    }
                }
                o.put("fns", J::Obj(fns));
                o.put("consts", J::Obj(consts));
                o.put("types", J::Obj(types));
                o.put("span", J::s(span_str(tcx, tcx.def_span(d))));
                impls.push(o);
            }
            DefKind::Trait => {
                let mut o = J::obj().set("path", J::s(cx.path(d))).set("id", J::s(def_id_str(tcx, d)));
                let mut fns = Vec::new();
                for it in tcx.associated_items(d).in_definition_order() {
                    if let ty::AssocKind::Fn { .. } = it.kind {
                        fns.push((it.name().to_string(), J::obj().set("id", J::s(def_id_str(tcx, it.def_id))).set("has_default", J::Bool(it.defaultness(tcx).has_value()))));
                    }
                }
                o.put("fns", J::Obj(fns));
                traits.push(o);
            }
            _ => {}
        }
    }
    root.put("adts", J::Arr(adts));
    root.put("impls", J::Arr(impls));
    root.put("traits", J::Arr(traits));

    // bodies
    let mut fns = Vec::new();
    for ld in tcx.hir_body_owners() {
        let d = ld.to_def_id();
        let kind = tcx.def_kind(d);
        let mut cx = Cx { tcx, env: TypingEnv::post_analysis(tcx, d), mono: false, callees: Vec::new() };
        let (kstr, ctfe) = match kind {
            DefKind::Fn => ("fn", false),
            DefKind::AssocFn => ("assoc_fn", false),
            DefKind::Closure => ("closure", false),
            DefKind::Const { .. } => ("const", true),
            DefKind::AssocConst { .. } => ("assoc_const", true),
            DefKind::Static { .. } => ("static", true),
            DefKind::AnonConst => ("anon_const", true),
            DefKind::InlineConst => ("inline_const", true),
            _ => continue,
        };
        if matches!(kind, DefKind::AnonConst | DefKind::InlineConst) {
            // bodies of array lengths / const generic args; skipped (their values are
            // visible evaluated wherever they are used)
            continue;
        }
        let mut o = J::obj()
            .set("id", J::s(def_id_str(tcx, d)))
            .set("path", J::s(cx.path(d)))
            .set("name", J::s(if matches!(kind, DefKind::Closure) { "{closure}".to_string() } else { tcx.item_name(d).to_string() }))
            .set("kind", J::s(kstr))
            .set("span", J::s(span_str(tcx, tcx.def_span(d))));
        if let Some(p) = tcx.opt_parent(d) {
            match tcx.def_kind(p) {
                DefKind::Impl { .. } => o.put("impl", J::s(def_id_str(tcx, p))),
                DefKind::Trait => o.put("trait_def", J::s(cx.path(p))),
                _ => {}
            }
            if matches!(kind, DefKind::Closure) {
                o.put("parent_fn", J::s(def_id_str(tcx, p)));
            }
        }
        o.put("generics", generics_j(&cx, if matches!(kind, DefKind::Closure) { tcx.typeck_root_def_id(d) } else { d }));
        if matches!(kind, DefKind::Fn | DefKind::AssocFn) {
            o.put("bounds", bounds_j(&cx, d));
            let sig = tcx.fn_sig(d).instantiate_identity().skip_norm_wip().skip_binder();
            o.put("inputs", J::Arr(sig.inputs().iter().map(|t| cx.ty(*t)).collect()));
            o.put("output", cx.ty(sig.output()));
            o.put("vis", J::s(if tcx.visibility(d).is_public() { "pub" } else { "restricted" }));
            o.put("is_const", J::Bool(tcx.is_const_fn(d)));
        } else if ctfe {
            let ty = tcx.type_of(d).instantiate_identity().skip_norm_wip();
            o.put("ty", cx.ty(ty));
            // evaluated value where closed
            if !matches!(kind, DefKind::Static { .. }) && (tcx.generics_of(d).is_empty() || !matches!(kind, DefKind::AssocConst { .. })) {
                if let Ok(val) = tcx.const_eval_poly(d) {
                    if let Some(v) = constval::const_value_j(&cx, val, ty) {
                        o.put("v", v);
                    }
                }
            }
        }
        let body: &Body<'tcx> = if ctfe { tcx.mir_for_ctfe(ld) } else { tcx.optimized_mir(ld) };
        o.put("body", cx.body(body, d));
        // promoteds
        let proms = tcx.promoted_mir(d);
        let mut ps = Vec::new();
        for p in proms.iter() {
            ps.push(cx.body(p, d));
        }
        o.put("promoted", J::Arr(ps));
        fns.push(o);
    }
    root.put("fns", J::Arr(fns));
    root
}

fn d_env_owner(tcx: TyCtxt<'_>, d: DefId) -> DefId {
    // typing env owner for non-body items: the item itself
    let _ = tcx;
    d
}
