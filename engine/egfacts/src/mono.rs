//! Monomorphic instance closure of the `root_*` functions of the harness crate.

use crate::dump::{def_id_str, inst_key, instance_kind_str, Cx};
use crate::json::J;
use rustc_hir::def::DefKind;
use rustc_middle::ty::{self, EarlyBinder, Instance, TyCtxt, TypingEnv};
use std::collections::HashMap;

fn stop_descend<'tcx>(tcx: TyCtxt<'tcx>, inst: &Instance<'tcx>) -> Option<&'static str> {
    let d = inst.def_id();
    match inst.def {
        ty::InstanceKind::Intrinsic(_) => return Some("intrinsic"),
        ty::InstanceKind::Virtual(..) => return Some("virtual"),
        _ => {}
    }
    let p = tcx.def_path_str(d);
    if p.starts_with("core::fmt") || p.starts_with("std::fmt") || p.starts_with("core::panicking") || p.starts_with("std::panicking") {
        return Some("panic_or_fmt");
    }
    if let ty::InstanceKind::Item(_) = inst.def {
        if matches!(tcx.def_kind(d), DefKind::Fn | DefKind::AssocFn) {
            let sig = tcx.fn_sig(d).instantiate_identity().skip_norm_wip().skip_binder();
            if sig.output().is_never() {
                return Some("diverges");
            }
        }
        if tcx.is_foreign_item(d) {
            return Some("foreign");
        }
        if !tcx.is_mir_available(d) {
            return Some("no_mir");
        }
    }
    None
}

pub fn dump_mono<'tcx>(tcx: TyCtxt<'tcx>) -> J {
    let env = TypingEnv::fully_monomorphized();
    let mut roots = Vec::new();
    let mut work: Vec<Instance<'tcx>> = Vec::new();
    let mut seen: HashMap<String, usize> = HashMap::new();
    for ld in tcx.hir_body_owners() {
        let d = ld.to_def_id();
        if tcx.def_kind(d) != DefKind::Fn {
            continue;
        }
        let name = tcx.item_name(d).to_string();
        if !name.starts_with("root_") {
            continue;
        }
        if !tcx.generics_of(d).is_empty() {
            continue;
        }
        let inst = Instance::mono(tcx, d);
        let key = inst_key(tcx, &inst);
        roots.push(J::obj().set("name", J::s(name)).set("inst", J::s(key.clone())));
        if !seen.contains_key(&key) {
            seen.insert(key, 0);
            work.push(inst);
        }
    }
    let mut out = Vec::new();
    let limit = 60000usize;
    while let Some(inst) = work.pop() {
        if out.len() > limit {
            break;
        }
        let key = inst_key(tcx, &inst);
        let d = inst.def_id();
        let mut cx = Cx { tcx, env, mono: true, callees: Vec::new() };
        let mut o = J::obj()
            .set("inst", J::s(key))
            .set("path", J::s(tcx.def_path_str(d)))
            .set("id", J::s(def_id_str(tcx, d)))
            .set("kind", J::s(instance_kind_str(&inst)))
            .set("args", cx.args(inst.args))
            .set("full", J::s(tcx.def_path_str_with_args(d, inst.args)));
        if let Some(im) = tcx.impl_of_assoc(d) {
            o.put("impl", J::s(def_id_str(tcx, im)));
        }
        if let Some(reason) = stop_descend(tcx, &inst) {
            o.put("opaque", J::s(reason));
            out.push(o);
            continue;
        }
        let body = tcx.instance_mir(inst.def);
        let body = match inst.try_instantiate_mir_and_normalize_erasing_regions(tcx, env, EarlyBinder::bind(body.clone())) {
            Ok(b) => b,
            Err(_) => {
                o.put("opaque", J::s("normalization_failed"));
                out.push(o);
                continue;
            }
        };
        o.put("body", cx.body(&body, d));
        out.push(o);
        for c in cx.callees.drain(..) {
            let k = inst_key(tcx, &c);
            if !seen.contains_key(&k) {
                seen.insert(k, 0);
                work.push(c);
            }
        }
    }
    J::obj().set("roots", J::Arr(roots)).set("instances", J::Arr(out))
}
