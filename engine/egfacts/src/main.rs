//! egfacts — fact extractor for the embedded-graphics verification framework.
//!
//! Used as `RUSTC_WORKSPACE_WRAPPER`: invoked as `egfacts <rustc> <args…>`. For every
//! workspace crate compiled it writes `$EGFACTS_OUT/<crate>.json` with the resolved
//! program (items, impls, ADTs, MIR bodies with resolved callees and decoded constants),
//! and for the `roots` harness crate the monomorphic instance closure of its `root_*` fns.
#![feature(rustc_private)]
#![feature(box_patterns)]
#![allow(rustc::internal)]

extern crate rustc_abi;
extern crate rustc_const_eval;
extern crate rustc_data_structures;
extern crate rustc_driver;
extern crate rustc_hir;
extern crate rustc_interface;
extern crate rustc_middle;
extern crate rustc_session;
extern crate rustc_span;

mod json;
mod dump;
mod mono;
mod constval;

use json::J;
use rustc_driver::Compilation;
use rustc_middle::ty::TyCtxt;

struct Cb;

impl rustc_driver::Callbacks for Cb {
    fn after_analysis<'tcx>(
        &mut self,
        _compiler: &rustc_interface::interface::Compiler,
        tcx: TyCtxt<'tcx>,
    ) -> Compilation {
        let out_dir = match std::env::var("EGFACTS_OUT") {
            Ok(d) => d,
            Err(_) => return Compilation::Continue,
        };
        let krate = tcx.crate_name(rustc_hir::def_id::LOCAL_CRATE).to_string();
        // build scripts and proc macros never go through the workspace wrapper with a
        // lib crate name we care about, but be defensive.
        if krate == "build_script_build" {
            return Compilation::Continue;
        }
        let root = rustc_middle::ty::print::with_crate_prefix!(rustc_middle::ty::print::with_no_visible_paths!(
            rustc_middle::ty::print::with_no_trimmed_paths!({
                let mut root = dump::dump_crate(tcx);
                if krate.starts_with("roots") || std::env::var("EGFACTS_MONO").is_ok() {
                    let m = mono::dump_mono(tcx);
                    root.put("mono", m);
                }
                root
            })
        ));
        let mut s = String::new();
        root.write(&mut s);
        let path = format!("{}/{}.json", out_dir, krate);
        let tmp = format!("{}.tmp{}", path, std::process::id());
        std::fs::write(&tmp, s).expect("write facts");
        std::fs::rename(&tmp, &path).expect("rename facts");
        Compilation::Continue
    }
}

fn main() {
    let mut args: Vec<String> = std::env::args().collect();
    // wrapper protocol: argv[1] is the real rustc path
    if args.len() > 1 && (args[1].ends_with("rustc") || args[1].contains("rustc")) && !args[1].starts_with('-') {
        args.remove(1);
    }
    let _ = J::Null;
    rustc_driver::run_compiler(&args, &mut Cb);
}
