//! Decode rustc's evaluated constants (ConstValue + type) into JSON using the
//! compile-time interpreter's own projection API (read-only).

use crate::dump::{def_id_str, scalar_int_j, Cx};
use crate::json::J;
use rustc_abi::{FieldIdx, VariantIdx};
use rustc_const_eval::const_eval::{mk_eval_cx_for_const_val, CompileTimeInterpCx};
use rustc_const_eval::interpret::{MPlaceTy, OpTy, Projectable};
use rustc_middle::mir::ConstValue;
use rustc_middle::ty::{self, Ty};

pub fn const_value_j<'tcx>(cx: &Cx<'tcx>, val: ConstValue, ty: Ty<'tcx>) -> Option<J> {
    // fast paths
    match val {
        ConstValue::Scalar(s) => {
            if let Ok(si) = s.try_to_scalar_int() {
                if ty.is_integral() || ty.is_bool() || ty.is_char() || ty.is_floating_point() {
                    return Some(scalar_int_j(si, ty));
                }
            }
        }
        ConstValue::ZeroSized => {
            if let ty::FnDef(..) = ty.kind() {
                return Some(J::obj().set("zst", J::s("fn")));
            }
        }
        _ => {}
    }
    let tcx = cx.tcx;
    let (ecx, op) = mk_eval_cx_for_const_val(tcx.at(rustc_span::DUMMY_SP), cx.env, val, ty)?;
    let mut budget = 20000usize;
    decode(cx, &ecx, &op, 0, &mut budget)
}

fn fnv(bytes: &[u8]) -> u64 {
    let mut h: u64 = 0xcbf29ce484222325;
    for b in bytes {
        h ^= *b as u64;
        h = h.wrapping_mul(0x100000001b3);
    }
    h
}

fn bytes_j(bytes: &[u8]) -> J {
    let mut o = J::obj().set("bytes_len", J::Int(bytes.len() as i128)).set("hash", J::s(format!("{:016x}", fnv(bytes))));
    if bytes.len() <= 64 {
        o.put("bytes", J::Arr(bytes.iter().map(|b| J::Int(*b as i128)).collect()));
    }
    o
}

fn decode<'tcx>(
    cx: &Cx<'tcx>,
    ecx: &CompileTimeInterpCx<'tcx>,
    op: &OpTy<'tcx>,
    depth: usize,
    budget: &mut usize,
) -> Option<J> {
    if depth > 12 || *budget == 0 {
        return Some(J::obj().set("truncated", J::Bool(true)));
    }
    *budget -= 1;
    let tcx = cx.tcx;
    let ty = op.layout.ty;
    match ty.kind() {
        ty::Bool | ty::Char | ty::Int(_) | ty::Uint(_) | ty::Float(_) => {
            let s = ecx.read_scalar(op).discard_err()?;
            let si = s.try_to_scalar_int().ok()?;
            Some(scalar_int_j(si, ty))
        }
        ty::Tuple(ts) => {
            let mut v = Vec::new();
            for i in 0..ts.len() {
                let f = ecx.project_field(op, FieldIdx::from_usize(i)).discard_err()?;
                v.push(decode(cx, ecx, &f, depth + 1, budget)?);
            }
            Some(J::obj().set("tuple", J::Arr(v)))
        }
        ty::Adt(def, _) if def.is_struct() => {
            let mut fields = Vec::new();
            let variant = def.non_enum_variant();
            for (i, f) in variant.fields.iter().enumerate() {
                let p = ecx.project_field(op, FieldIdx::from_usize(i)).discard_err()?;
                let v = decode(cx, ecx, &p, depth + 1, budget).unwrap_or(J::Null);
                fields.push((f.name.to_string(), v));
            }
            Some(J::obj().set("struct", J::s(tcx.def_path_str(def.did()))).set("fields", J::Obj(fields)))
        }
        ty::Adt(def, _) if def.is_enum() => {
            let vi: VariantIdx = ecx.read_discriminant(op).discard_err()?;
            let variant = def.variant(vi);
            let down = ecx.project_downcast(op, vi).discard_err()?;
            let mut fields = Vec::new();
            for (i, f) in variant.fields.iter().enumerate() {
                let p = ecx.project_field(&down, FieldIdx::from_usize(i)).discard_err()?;
                let v = decode(cx, ecx, &p, depth + 1, budget).unwrap_or(J::Null);
                fields.push((f.name.to_string(), v));
            }
            Some(
                J::obj()
                    .set("enum", J::s(tcx.def_path_str(def.did())))
                    .set("variant", J::s(variant.name.to_string()))
                    .set("fields", J::Obj(fields)),
            )
        }
        ty::Array(elem, _) => {
            let len = op.len(ecx).discard_err()?;
            if *elem == tcx.types.u8 {
                // read as bytes
                if let Some(mp) = op.as_mplace_or_imm().left() {
                    let size = op.layout.size;
                    let bytes = ecx.read_bytes_ptr_strip_provenance(mp.ptr(), size).discard_err()?;
                    return Some(bytes_j(bytes));
                }
            }
            if len > 512 {
                return Some(J::obj().set("array_len", J::Int(len as i128)));
            }
            let mut v = Vec::new();
            for i in 0..len {
                let p = ecx.project_index(op, i).discard_err()?;
                v.push(decode(cx, ecx, &p, depth + 1, budget)?);
            }
            Some(J::obj().set("array", J::Arr(v)))
        }
        ty::Ref(_, inner, _) | ty::RawPtr(inner, _) => {
            let mp: MPlaceTy<'tcx> = ecx.deref_pointer(op).discard_err()?;
            match inner.kind() {
                ty::Str => {
                    let s = ecx.read_str(&mp).discard_err()?;
                    Some(J::obj().set("str", J::s(s.to_string())))
                }
                ty::Slice(e) => {
                    let len = mp.len(ecx).discard_err()?;
                    if *e == tcx.types.u8 {
                        let size = rustc_abi::Size::from_bytes(len);
                        let bytes = ecx.read_bytes_ptr_strip_provenance(mp.ptr(), size).discard_err()?;
                        return Some(J::obj().set("ref", bytes_j(bytes)));
                    }
                    if len > 512 {
                        return Some(J::obj().set("ref", J::obj().set("slice_len", J::Int(len as i128))));
                    }
                    let mut v = Vec::new();
                    let mop: OpTy<'tcx> = mp.clone().into();
                    for i in 0..len {
                        let p = ecx.project_index(&mop, i).discard_err()?;
                        v.push(decode(cx, ecx, &p, depth + 1, budget)?);
                    }
                    Some(J::obj().set("ref", J::obj().set("slice", J::Arr(v))))
                }
                ty::Dynamic(data, _) => {
                    let _ = data;
                    let vtable = mp.meta().unwrap_meta().to_pointer(ecx).discard_err()?;
                    let cty = ecx.get_ptr_vtable_ty(vtable, None).discard_err()?;
                    let layout = tcx.layout_of(cx.env.as_query_input(cty)).ok()?;
                    let concrete = ecx.ptr_to_mplace(mp.ptr(), layout);
                    let cop: OpTy<'tcx> = concrete.into();
                    let inner = decode(cx, ecx, &cop, depth + 1, budget).unwrap_or(J::Null);
                    Some(J::obj().set("dyn_of", cx.ty(cty)).set("ref", inner))
                }
                _ => {
                    let mop: OpTy<'tcx> = mp.into();
                    let inner = decode(cx, ecx, &mop, depth + 1, budget)?;
                    Some(J::obj().set("ref", inner))
                }
            }
        }
        ty::FnDef(d, _) => Some(J::obj().set("fn", J::s(def_id_str(tcx, *d)))),
        ty::Closure(d, _) => Some(J::obj().set("closure", J::s(def_id_str(tcx, *d)))),
        ty::FnPtr(..) => Some(J::obj().set("fnptr", J::Null)),
        _ => None,
    }
}
