#!/usr/bin/env python3
"""debug helper: show MIR of functions whose path contains all given substrings"""
import sys, os
sys.path.insert(0, os.path.dirname(os.path.abspath(__file__)))
from mirq import Program
from mirq.pp import body_s
cfg = os.environ.get("CFG", "default")
p = Program(cfg)
pats = sys.argv[1:]
for f in p.fns.values():
    if all(x in f.id or x in f.path for x in pats):
        print(body_s(f)); print()
