"""D1 — interval abstract interpretation of MIR bodies (DESIGN.md A.5/A.8).

Forward worklist analysis per function; integer-typed places are tracked by (local, projection) keys,
references by their target place, comparisons feeding `switchInt` refine their operands, `Assert`
terminators (overflow / division by zero / bounds) that cannot be proved dead are reported.
Values entering a function (parameters and memory reachable from them) start at the *contract* range of
their type and role; calls are handled by models of core functions, by summaries of crate-local callees
(analysed under the same contracts) or by the range of their result type."""
from .cfg import CFG
from . import ty_str

INF = float("inf")
TYPE_RANGE = {
    "u8": (0, 2**8 - 1), "u16": (0, 2**16 - 1), "u32": (0, 2**32 - 1), "u64": (0, 2**64 - 1), "usize": (0, 2**64 - 1), "u128": (0, 2**128 - 1),
    "i8": (-2**7, 2**7 - 1), "i16": (-2**15, 2**15 - 1), "i32": (-2**31, 2**31 - 1), "i64": (-2**63, 2**63 - 1), "isize": (-2**63, 2**63 - 1), "i128": (-2**127, 2**127 - 1),
    "bool": (0, 1), "char": (0, 0x10FFFF),
}
POINT = "embedded_graphics_core::geometry::point::Point"
SIZE = "embedded_graphics_core::geometry::size::Size"


def is_int(ty):
    return isinstance(ty, str) and ty in TYPE_RANGE


def join(a, b):
    return (min(a[0], b[0]), max(a[1], b[1]))


def meet(a, b):
    lo, hi = max(a[0], b[0]), min(a[1], b[1])
    return (lo, hi) if lo <= hi else None


def clamp(v, rng):
    return (max(v[0], rng[0]), min(v[1], rng[1])) if v[1] >= rng[0] and v[0] <= rng[1] else rng


def arith(op, a, b):
    if op in ("Add", "AddWithOverflow", "AddUnchecked"):
        return (a[0] + b[0], a[1] + b[1])
    if op in ("Sub", "SubWithOverflow", "SubUnchecked"):
        return (a[0] - b[1], a[1] - b[0])
    if op in ("Mul", "MulWithOverflow", "MulUnchecked"):
        c = [a[0] * b[0], a[0] * b[1], a[1] * b[0], a[1] * b[1]]
        return (min(c), max(c))
    if op == "Div":
        if b[0] <= 0 <= b[1]:
            # divisor may be 0 (reported by its own assert): use the non-zero part
            cands = []
            for lo, hi in ((b[0], -1), (1, b[1])):
                if lo <= hi:
                    cands += [_tdiv(x, y) for x in a for y in (lo, hi)]
            return (min(cands), max(cands)) if cands else (0, 0)
        c = [_tdiv(x, y) for x in a for y in b]
        return (min(c + [0] if a[0] <= 0 <= a[1] else c), max(c + [0] if a[0] <= 0 <= a[1] else c))
    if op == "Rem":
        m = max(abs(b[0]), abs(b[1]))
        if m == 0:
            return (0, 0)
        lo = 0 if a[0] >= 0 else -(m - 1)
        hi = 0 if a[1] <= 0 else (m - 1)
        return (max(lo, a[0]) if a[0] >= 0 else lo, min(hi, a[1]) if a[1] >= 0 else hi)
    if op == "BitAnd":
        if a[0] >= 0 and b[0] >= 0:
            return (0, min(a[1], b[1]))
        if b[0] >= 0:
            return (0, b[1])
        if a[0] >= 0:
            return (0, a[1])
        return None
    if op in ("BitOr", "BitXor"):
        if a[0] >= 0 and b[0] >= 0:
            n = max(a[1], b[1]).bit_length()
            return (0, (1 << n) - 1)
        return None
    if op in ("Shr", "ShrUnchecked"):
        if a[0] >= 0 and b[0] >= 0:
            return (a[0] >> min(b[1], 200), a[1] >> b[0])
        return None
    if op in ("Shl", "ShlUnchecked"):
        if a[0] >= 0 and b[0] >= 0 and b[1] < 200:
            return (a[0] << b[0], a[1] << b[1])
        return None
    return None


def _tdiv(x, y):
    q = abs(x) // abs(y)
    return q if (x >= 0) == (y >= 0) else -q


def cmp_itv(op, a, b):
    """interval of the boolean result"""
    if op == "Lt":
        return (1, 1) if a[1] < b[0] else ((0, 0) if a[0] >= b[1] else (0, 1))
    if op == "Le":
        return (1, 1) if a[1] <= b[0] else ((0, 0) if a[0] > b[1] else (0, 1))
    if op == "Gt":
        return cmp_itv("Lt", b, a)
    if op == "Ge":
        return cmp_itv("Le", b, a)
    if op == "Eq":
        return (1, 1) if a[0] == a[1] == b[0] == b[1] else ((0, 0) if meet(a, b) is None else (0, 1))
    if op == "Ne":
        r = cmp_itv("Eq", a, b)
        return (1 - r[1], 1 - r[0])
    return (0, 1)


def refine(op, truth, a, b):
    """refined (a, b) assuming `a op b` == truth; None if infeasible"""
    if not truth:
        op = {"Lt": "Ge", "Le": "Gt", "Gt": "Le", "Ge": "Lt", "Eq": "Ne", "Ne": "Eq"}[op]
    if op == "Lt":
        na, nb = meet(a, (-INF, b[1] - 1)), meet(b, (a[0] + 1, INF))
    elif op == "Le":
        na, nb = meet(a, (-INF, b[1])), meet(b, (a[0], INF))
    elif op == "Gt":
        na, nb = meet(a, (b[0] + 1, INF)), meet(b, (-INF, a[1] - 1))
    elif op == "Ge":
        na, nb = meet(a, (b[0], INF)), meet(b, (-INF, a[1]))
    elif op == "Eq":
        m = meet(a, b)
        na = nb = m
    else:  # Ne
        na, nb = a, b
        if b[0] == b[1]:
            if a[0] == b[0]:
                na = (a[0] + 1, a[1]) if a[0] < a[1] else None
            elif a[1] == b[0]:
                na = (a[0], a[1] - 1)
        if a[0] == a[1] and nb is not None:
            if b[0] == a[0]:
                nb = (b[0] + 1, b[1]) if b[0] < b[1] else None
            elif b[1] == a[0]:
                nb = (b[0], b[1] - 1)
    if na is None or nb is None:
        return None
    return na, nb


class Contracts:
    """Display-scale input contracts by type and role (DESIGN.md A.8)."""
    COORD = (-4096, 4096)
    SIZE_ = (0, 2560)
    STROKE = (0, 128)
    LEN = (0, 2**24)

    def for_place(self, ty, stack, name):
        """ty: integer type string; stack: [(adt path, field name)] innermost last; name: user variable name"""
        rng = TYPE_RANGE[ty]
        for adt, fname in reversed(stack):
            short = adt.split("::")[-1]
            if fname in ("stroke_width", "thickness") or (name in ("stroke_width", "thickness", "width") and short in ("PrimitiveStyle",)):
                return clamp(self.STROKE, rng)
            if adt == POINT:
                return clamp(self.COORD, rng)
            if adt == SIZE:
                return clamp(self.SIZE_, rng)
            if short in ("CornerRadii",) or fname in ("diameter",):
                return clamp(self.SIZE_, rng)
            if fname in ("character_spacing",):
                return clamp((0, 64), rng)
            if fname in ("baseline", "offset", "height") and short in ("MonoFont", "DecorationDimensions"):
                return clamp((0, 256), rng)
        if name in ("stroke_width", "thickness"):
            return clamp(self.STROKE, rng)
        if name in ("diameter", "width", "height") and ty == "u32":
            return clamp(self.SIZE_, rng)
        if ty == "usize" and name in ("len", "count"):
            return clamp(self.LEN, rng)
        return rng

    def describe(self):
        return ["Point coordinates (any Point-typed value, incl. visited pixels and offset corners) within %s" % (self.COORD,),
                "Size components within %s" % (self.SIZE_,), "stroke widths / thickness within %s" % (self.STROKE,),
                "slice/str lengths and char counts within %s, font spacing within (0, 64), font decoration offsets within (0, 256)" % (self.LEN,)]


class Analyzer:
    def __init__(self, prog, contracts=None):
        self.prog = prog
        self.contracts = contracts or Contracts()
        self.summaries = {}
        self.active = set()
        self.mono = {}
        self.inlined = set()     # helpers (not in the reference tree) analysed in the context of a call site
        self.field_rng = {}      # (adt, field name) -> interval inferred from all write sites (private fields only)
        self.field_writes = {}   # collected during a round
        self.param_rng = {}      # (fn id, parameter local) -> interval joined over all call sites (crate-private fns only)
        self.param_calls = {}    # collected during a round
        self.param_ok = self._private_fns(prog)
        self.private = {}
        # closures: the types of the captured values (from the aggregate that creates the closure); a captured integer
        # (or reference to one) is treated like a private field of the closure's environment: its range is inferred from
        # the creation site(s)
        self.closure_ops = {}
        for g in prog.fns.values():
            if not g.body:
                continue
            for b in g.body["blocks"]:
                for s_ in b["s"]:
                    rv = s_.get("rv") or {}
                    if s_["k"] == "assign" and rv.get("k") == "agg" and rv.get("agg") == "closure" and rv.get("closure"):
                        tys = []
                        for o in rv["ops"]:
                            pl = o.get("move") or o.get("copy")
                            t_ = g.body["locals"][pl["l"]]["ty"] if pl is not None and not pl["p"] else None
                            tys.append(t_)
                        self.closure_ops[rv["closure"]] = tys
                        for i, t_ in enumerate(tys):
                            base = t_
                            while isinstance(base, dict) and "ref" in base:
                                base = base["ref"]
                            if is_int(base):
                                self.private[("closure:" + rv["closure"], str(i))] = base
        for path, adt in prog.adts.items():
            if adt["kind"] == "struct":
                for f in adt["variants"][0]["fields"]:
                    if not f.get("pub") and is_int(f["ty"]):
                        self.private[(path, f["name"])] = f["ty"]

    @staticmethod
    def _private_fns(prog):
        """ids of functions every caller of which is in the analysed crates: not `pub`, not a trait method, never used
        as a function value (so all calls are direct calls the analysis sees)"""
        taken = set()
        for f in prog.fns.values():
            if not f.body:
                continue
            for b in f.body["blocks"]:
                ops = []
                for s_ in b["s"]:
                    rv = s_.get("rv") or {}
                    ops += [rv.get("a"), rv.get("b")] + list(rv.get("ops") or [])
                t = b["t"]
                if t and t["k"] == "call":
                    ops += list(t["args"])
                    if f.kind not in ("fn", "assoc_fn", "closure") or "::mock_display::" in f.id:
                        # a caller the interval analysis does not visit (const initialiser, test helper): its callees
                        # keep their contract ranges
                        r_ = t["f"].get("resolved") or t["f"]
                        taken.add(r_.get("path"))
                        taken.add(t["f"].get("path"))
                for o in ops:
                    c = (o or {}).get("const") if isinstance(o, dict) else None
                    ty = c.get("ty") if c else None
                    if isinstance(ty, dict) and "fndef" in ty:
                        taken.add(ty.get("id") or ty["fndef"])
                        taken.add(ty["fndef"])
        out = set()
        for f in prog.fns.values():
            if f.kind not in ("fn", "assoc_fn") or not f.body or f.d.get("vis") == "pub":
                continue
            im = prog.impls.get(f.impl) if f.impl else None
            if (im and im.get("trait")) or f.d.get("trait_def"):
                continue
            if f.id in taken or f.path in taken:
                continue
            out.add(f.id)
        return out

    def record_param(self, g, loc, v, ty):
        k = (g.id, loc)
        if v is None:
            v = TYPE_RANGE[ty]
        old = self.param_calls.get(k)
        self.param_calls[k] = v if old is None else join(old, v)

    def record_field(self, adt, fname, v):
        k = (adt, fname)
        if k in self.private:
            if v is None:
                v = TYPE_RANGE[self.private[k]]
            old = self.field_writes.get(k)
            self.field_writes[k] = v if old is None else join(old, v)

    def infer_fields(self, fns, rounds=4):
        """Descending iteration: each round analyses every function under the field ranges of the previous
        round and collects the intervals written to private integer fields."""
        for r in range(rounds):
            self.summaries = {}
            self.field_writes = {}
            self.param_calls = {}
            for f in fns:
                self.summary(f)
            new = dict(self.field_writes)
            newp = dict(self.param_calls)
            if new == self.field_rng and newp == self.param_rng:
                break
            self.field_rng = new
            self.param_rng = newp
        self.summaries = {}

    # ---- types --------------------------------------------------------------------------------
    def place_type(self, body, local, proj):
        """-> (type, stack)"""
        ty = body["locals"][local]["ty"]
        stack = []
        variant = None
        for e in proj:
            if ty is None:
                return None, stack
            if e == "*":
                ty = ty.get("ref") if isinstance(ty, dict) and "ref" in ty else (ty.get("ptr") if isinstance(ty, dict) else None)
            elif e[0] == "down":
                variant = e[1]
            elif e[0] == "f":
                i = e[1]
                if isinstance(ty, dict) and "tuple" in ty:
                    ty = ty["tuple"][i] if i < len(ty["tuple"]) else None
                elif isinstance(ty, dict) and "adt" in ty:
                    adt = self.prog.adts.get(ty["adt"])
                    if adt is not None:
                        vs = adt["variants"]
                        v = vs[0]
                        if variant is not None:
                            v = next((x for x in vs if x["name"] == variant), vs[0])
                        if i < len(v["fields"]):
                            stack.append((ty["adt"], v["fields"][i]["name"]))
                            fty = v["fields"][i]["ty"]
                            ty = self._subst(fty, adt, ty)
                        else:
                            ty = None
                    elif ty["adt"] in ("core::option::Option",) and variant == "Some":
                        ty = ty["args"][0]
                    elif ty["adt"] == "core::result::Result":
                        ty = ty["args"][0] if variant == "Ok" else ty["args"][1]
                    elif ty["adt"] == "core::ops::control_flow::ControlFlow":
                        ty = ty["args"][1] if variant == "Continue" else ty["args"][0]
                    elif ty["adt"].startswith("core::ops::range::Range"):
                        stack.append((ty["adt"], ("start", "end")[i] if i < 2 else "?"))
                        ty = ty["args"][0] if ty.get("args") else None
                    else:
                        ty = None
                elif isinstance(ty, dict) and "closure" in ty:
                    tys = self.closure_ops.get(ty["closure"])
                    stack.append(("closure:" + ty["closure"], str(i)))
                    ty = tys[i] if tys and i < len(tys) else None
                else:
                    ty = None
                variant = None
            elif e[0] in ("idx", "cidx"):
                if isinstance(ty, dict) and ("array" in ty or "slice" in ty):
                    ty = ty.get("array") or ty.get("slice")
                else:
                    ty = None
            else:
                ty = None
        return ty, stack

    def _subst(self, fty, adt, inst):
        """substitute the ADT's type parameters in a field type"""
        if isinstance(fty, dict) and "param" in fty:
            names = [g["name"] for g in adt.get("generics", [])]
            if fty["param"] in names:
                i = names.index(fty["param"])
                args = inst.get("args", [])
                if i < len(args) and args[i] != "'_":
                    return args[i]
            return None
        return fty

    # ---- summaries ------------------------------------------------------------------------------
    def summary(self, f):
        """(return interval or None, findings) of a crate-local function under the contracts"""
        if f.id in self.summaries:
            return self.summaries[f.id]
        if f.id in self.active:
            return (None, [])
        self.active.add(f.id)
        try:
            r = FnRun(self, f).run()
        except RecursionError:
            r = (None, [("engine", "recursion", "", "")])
        self.active.discard(f.id)
        self.summaries[f.id] = r
        return r

    def mono_summary(self, f, targs):
        """(return interval, sub-intervals of an aggregate result) of a generic crate-local function analysed
        with concrete type arguments (associated constants of the arguments are then known)."""
        key = (f.id, tuple(sorted((k, ty_str(v)) for k, v in targs.items())))
        if key in self.mono:
            return self.mono[key]
        if f.id in self.active:
            return (None, {})
        self.active.add(f.id)
        try:
            run = FnRun(self, f, 1, targs)
            ret, _ = run.run()
            r = (ret, dict(run.ret_sub))
        except RecursionError:
            r = (None, {})
        self.active.discard(f.id)
        self.mono[key] = r
        return r

    def assoc_const(self, c, targs):
        """value of an unevaluated associated constant `<T as Trait>::NAME` when T is (or is instantiated to) a
        concrete type with an impl in the program"""
        args = c.get("args") or []
        tr = c.get("trait")
        if not tr or not args:
            return None
        a0 = args[0]
        if isinstance(a0, dict) and "param" in a0:
            a0 = targs.get(a0["param"])
        if a0 is None or has_param(a0):
            return None
        name = str(c.get("uneval", "")).split("::")[-1]
        want = ty_str(a0)
        for i in self.prog.impls.values():
            if i.get("trait") == tr and ty_str(i["self_ty"]) == want:
                v = (i.get("consts") or {}).get(name)
                if v is not None and isinstance(v.get("v"), (int, bool)):
                    return int(v["v"])
        return None


def has_param(t):
    if isinstance(t, dict):
        if "param" in t or "cparam" in t:
            return True
        return any(has_param(v) for v in t.values())
    if isinstance(t, list):
        return any(has_param(v) for v in t)
    return False


def pe(e):
    if e == "*":
        return "*"
    if "f" in e:
        return ("f", e["f"])
    if "down" in e:
        return ("down", e.get("name") or e["down"])
    if "idx" in e:
        return ("idx", e["idx"])
    if "cidx" in e:
        return ("cidx", e["cidx"])
    return ("other",)


class FnRun:
    def __init__(self, an, fn, depth=0, targs=None):
        self.an = an
        self.prog = an.prog
        self.fn = fn
        self.depth = depth
        self.targs = targs or {}
        self.ret_sub = {}
        self.cond_true = self.cond_false = None
        self.body = fn.body
        self.cfg = CFG(fn.body)
        self.findings = []
        self.seen_find = set()

    # ---- state helpers -----------------------------------------------------------------------------------
    def norm(self, st, local, proj):
        """rewrite through known reference targets: (*r).x with r -> &place  =>  place.x"""
        proj = tuple(proj)
        hops = 0
        while proj and proj[0] == "*" and ("ptr", local) in st and hops < 8:
            tl, tp = st[("ptr", local)]
            local, proj = tl, tuple(tp) + proj[1:]
            hops += 1
        return local, proj

    def default(self, local, proj):
        if proj and proj[-1] == "len":
            return Contracts.LEN          # pseudo place: the length of the slice a reference points to
        ty, stack = self.an.place_type(self.body, local, proj)
        if not is_int(ty):
            return None
        name = self.body["locals"][local].get("name")
        # only memory that exists at entry gets contract ranges; temporaries get their type range
        entry = 1 <= local <= self.body["argc"]
        if stack and stack[-1] in self.an.field_rng:
            return clamp(self.an.field_rng[stack[-1]], TYPE_RANGE[ty])
        if entry and not proj and (self.fn.id, local) in self.an.param_rng:
            # a crate-private function: the parameter takes only the values its call sites pass
            return clamp(self.an.param_rng[(self.fn.id, local)], TYPE_RANGE[ty])
        if entry or stack:
            return self.an.contracts.for_place(ty, stack, name)
        return TYPE_RANGE[ty]

    def read(self, st, local, proj):
        local, proj = self.norm(st, local, proj)
        k = (local, proj)
        if k in st:
            return st[k]
        return self.default(local, proj)

    def kill(self, st, local, proj):
        proj = tuple(proj)
        for k in [k for k in st if isinstance(k[0], int) and k[0] == local]:
            kp = k[1]
            n = min(len(kp), len(proj))
            if kp[:n] == proj[:n]:
                del st[k]
        for k in [k for k in st if k[0] == "alias" and (st[k][0] == local or k[1][0] == local)]:
            del st[k]
        for k in [k for k in st if k[0] == "rel" and (k[1][0] == local)]:
            del st[k]
        for k in [k for k in st if k[0] == "cond" and (k[1][0] == local or any(kk[0] == local for m in st[k] if m for kk in m))]:
            del st[k]
        for k in [k for k in st if k[0] == "salias" and (k[1][0] == local or st[k][0] == local)]:
            del st[k]
        for k in [k for k in st if k[0] == "variant" and k[1][0] == local and (k[1][1][:len(proj)] == proj or proj[:len(k[1][1])] == k[1][1])]:
            del st[k]
        if not proj:
            st.pop(("ptr", local), None)

    def write(self, st, local, proj, val):
        local, proj = self.norm(st, local, proj)
        if proj and proj[-1][0] == "f":
            ty, stack = self.an.place_type(self.body, local, proj)
            if stack and is_int(ty):
                self.an.record_field(stack[-1][0], stack[-1][1], val)
        self.kill(st, local, proj)
        # writes through a pointer also invalidate relations on the target
        if val is not None:
            st[(local, tuple(proj))] = val

    def operand(self, st, o):
        if "const" in o:
            v = o["const"].get("v")
            if isinstance(v, bool):
                return (int(v), int(v))
            if isinstance(v, int):
                return (v, v)
            if isinstance(v, dict) and "char" in v:
                return (v["char"], v["char"])
            if "uneval" in o["const"]:
                cv = self.an.assoc_const(o["const"], self.targs)
                if cv is not None:
                    return (cv, cv)
            ty = o["const"].get("ty")
            if is_int(ty):
                # unevaluated constant (generic): const generic parameters of display scale
                return self.const_contract(o["const"], ty)
            return None
        pl = o.get("copy") or o.get("move")
        if pl is None:
            return None
        return self.read(st, pl["l"], [pe(e) for e in pl["p"]])

    def const_contract(self, c, ty):
        name = str(c.get("uneval") or c.get("c") or "")
        if "uneval" in c:
            v = self.an.assoc_const(c, self.targs)
            if v is not None:
                return (v, v)
        if "BITS_PER_PIXEL" in name:
            return (1, 32)
        if isinstance(c.get("c"), dict) and c["c"].get("cparam") in ("WIDTH", "HEIGHT"):
            return (0, 2**16)
        if isinstance(c.get("c"), dict) and c["c"].get("cparam") == "N":
            return (0, 2**40)
        return TYPE_RANGE[ty]

    def operand_key(self, st, o):
        pl = o.get("copy") or o.get("move")
        if pl is None:
            return None
        l, p = self.norm(st, pl["l"], [pe(e) for e in pl["p"]])
        return (l, p)

    # ---- transfer ---------------------------------------------------------------------------------------
    def assign(self, st, s, bi):
        pl, rv = s["place"], s["rv"]
        dl, dp = pl["l"], [pe(e) for e in pl["p"]]
        k = rv["k"]
        dty, _ = self.an.place_type(self.body, *self.norm(st, dl, dp))
        if k == "use":
            src = rv["a"]
            spl = src.get("copy") or src.get("move")
            if spl is not None and not is_int(dty):
                # aggregate copy: move tracked sub-keys
                sl, sp = self.norm(st, spl["l"], [pe(e) for e in spl["p"]])
                sub = {kk[1][len(sp):]: v for kk, v in st.items() if isinstance(kk[0], int) and kk[0] == sl and kk[1][:len(sp)] == sp}
                vsub = {kk[1][1][len(sp):]: v for kk, v in st.items() if kk[0] == "variant" and kk[1][0] == sl and kk[1][1][:len(sp)] == sp}
                ptr = st.get(("ptr", sl)) if not sp else None
                ndl, ndp = self.norm(st, dl, dp)
                self.kill(st, ndl, ndp)
                for rest, v in sub.items():
                    st[(ndl, tuple(ndp) + rest)] = v
                for rest, v in vsub.items():
                    st[("variant", (ndl, tuple(ndp) + rest))] = v
                if ptr is not None and not ndp:
                    st[("ptr", ndl)] = ptr
                elif not ndp and sp and isinstance(dty, dict) and "ref" in dty and ("ptr", ndl) not in st:
                    # a reference copied out of a field (`_8 = copy _1.0` in a closure, the captured `&bit_index`):
                    # `*_8` is the place `*(_1.0)`
                    st[("ptr", ndl)] = (sl, tuple(sp) + ("*",))
                if (ndl, tuple(ndp)) != (sl, tuple(sp)):
                    # the copy of a struct handed to a bool helper (`if self.is_outside(p)`): what is learnt about a
                    # field of the copy holds for the same field of the original
                    st[("salias", (ndl, tuple(ndp)))] = (sl, tuple(sp))
                return
            v = self.operand(st, src)
            sk0 = self.operand_key(st, src) if spl is not None else None
            cnd = st.get(("cond", sk0)) if sk0 is not None else None
            self.write(st, dl, dp, v)
            if spl is not None and v is not None:
                sk = self.operand_key(st, src)
                ndl, ndp = self.norm(st, dl, dp)
                if sk != (ndl, tuple(ndp)):
                    st[("alias", (ndl, tuple(ndp)))] = sk
                    if cnd is not None:
                        st[("cond", (ndl, tuple(ndp)))] = cnd
            return
        if k == "ref" or k == "rawptr":
            tl, tp = self.norm(st, rv["place"]["l"], [pe(e) for e in rv["place"]["p"]])
            if rv.get("mut") or k == "rawptr":
                # `&mut field`: the field may be written through the reference by code we do not follow
                rty, rstack = self.an.place_type(self.body, tl, tp)
                if rstack and is_int(rty):
                    self.an.record_field(rstack[-1][0], rstack[-1][1], None)
            if tp and tp[0] == "*" and len(tp) == 1 and ("ptr", tl) in st:
                tl, tp = st[("ptr", tl)]
            if not dp:
                self.kill(st, dl, [])
                if tp and tp[-1] == "*" and False:
                    pass
                st[("ptr", dl)] = (tl, tuple(tp))
            return
        if k == "bin":
            a, b = self.operand(st, rv["a"]), self.operand(st, rv["b"])
            op = rv["op"]
            if op in ("Eq", "Ne", "Lt", "Le", "Gt", "Ge"):
                v = cmp_itv(op, a, b) if a is not None and b is not None else (0, 1)
                self.write(st, dl, dp, v)
                ndl, ndp = self.norm(st, dl, dp)
                st[("rel", (ndl, tuple(ndp)))] = (op, rv["a"], rv["b"])
                return
            aty = self.optype(st, rv["a"]) or self.optype(st, rv["b"])
            if a is None or b is None:
                self.kill_write_default(st, dl, dp)
                return
            exact = arith(op, a, b)
            if op.endswith("WithOverflow"):
                rng = TYPE_RANGE.get(aty, (-INF, INF))
                ov = (0, 0) if exact is not None and exact[0] >= rng[0] and exact[1] <= rng[1] else (0, 1)
                ndl, ndp = self.norm(st, dl, dp)
                self.kill(st, ndl, ndp)
                st[(ndl, tuple(ndp) + (("f", 0),))] = clamp(exact, rng) if exact is not None else rng
                st[(ndl, tuple(ndp) + (("f", 1),))] = ov
                st[("ovf", (ndl, tuple(ndp)))] = (op, a, b, exact)
                return
            if exact is None:
                self.kill_write_default(st, dl, dp)
                return
            if is_int(dty):
                rng = TYPE_RANGE[dty]
                if op in ("Div", "Rem", "BitAnd", "Shr", "ShrUnchecked"):
                    exact = clamp(exact, rng)
                elif not (exact[0] >= rng[0] and exact[1] <= rng[1]):
                    exact = rng  # wrapping / unchecked: give up precision
            self.write(st, dl, dp, exact)
            return
        if k == "un":
            a = self.operand(st, rv["a"])
            if rv["op"] == "Neg" and a is not None:
                v = (-a[1], -a[0])
                if is_int(dty):
                    rng = TYPE_RANGE[dty]
                    if v[1] > rng[1]:
                        self.finding(bi, "overflow_neg", "Neg", "operand %s" % (a,), s.get("sp", ""))
                        v = clamp(v, rng)
                self.write(st, dl, dp, v)
                return
            if rv["op"] == "Not" and a is not None and dty == "bool":
                self.write(st, dl, dp, (1 - a[1], 1 - a[0]))
                ndl, ndp = self.norm(st, dl, dp)
                sk = self.operand_key(st, rv["a"])
                if sk is not None and ("rel", sk) in st:
                    op, x, y = st[("rel", sk)]
                    st[("rel", (ndl, tuple(ndp)))] = ({"Lt": "Ge", "Le": "Gt", "Gt": "Le", "Ge": "Lt", "Eq": "Ne", "Ne": "Eq"}[op], x, y)
                if sk is not None and ("cond", sk) in st:
                    ct, cf = st[("cond", sk)]
                    st[("cond", (ndl, tuple(ndp)))] = (cf, ct)
                return
            if rv["op"] == "PtrMetadata" and is_int(dty):
                # the length of the slice behind a reference: a pseudo place (target, .., "len") that `is_empty()` and
                # comparisons of this length refine
                pl_ = rv["a"].get("copy") or rv["a"].get("move")
                if pl_ is not None and not pl_["p"]:
                    kl, kp = self.norm(st, pl_["l"], ("*", "len"))
                    v = st.get((kl, tuple(kp))) or Contracts.LEN
                    self.write(st, dl, dp, v)
                    ndl, ndp = self.norm(st, dl, dp)
                    st[("alias", (ndl, tuple(ndp)))] = (kl, tuple(kp))
                    return
            self.kill_write_default(st, dl, dp)
            return
        if k == "cast":
            a = self.operand(st, rv["a"])
            if is_int(dty):
                rng = TYPE_RANGE[dty]
                if a is not None and a[0] >= rng[0] and a[1] <= rng[1]:
                    self.write(st, dl, dp, a)
                else:
                    self.write(st, dl, dp, rng)
                return
            self.kill_write_default(st, dl, dp)
            return
        if k == "agg":
            ndl, ndp = self.norm(st, dl, dp)
            self.kill(st, ndl, ndp)
            pre = tuple(ndp)
            if rv["agg"] == "adt":
                adt = self.prog.adts.get(rv["adt"])
                multi = (adt is not None and adt["kind"] == "enum") or rv["adt"] in ("core::option::Option", "core::result::Result")
                if multi:
                    st[("variant", (ndl, pre))] = frozenset([rv["variant"]])
                    pre = pre + (("down", rv["variant"]),)
            elem = "cidx" if rv["agg"] == "array" else "f"
            st_c = st
            if rv["agg"] == "closure" and isinstance(bi, int) and 0 <= bi < len(self.body["blocks"]):
                # `flag.then(|| ..)`: the closure built for this call runs only when the flag is true — its captures are
                # read in the state refined by what the flag implies
                tt = self.body["blocks"][bi]["t"]
                if tt and tt["k"] == "call" and tt["f"].get("name") in ("then",) and ((tt["f"].get("resolved") or tt["f"]).get("path", "") or "").startswith("core::bool::") and len(tt["args"]) == 2:
                    a0 = tt["args"][0].get("move") or tt["args"][0].get("copy")
                    a1 = tt["args"][1].get("move") or tt["args"][1].get("copy")
                    if a0 is not None and a1 is not None and not a0["p"] and not a1["p"] and a1["l"] == dl and not dp:
                        st2 = dict(st)
                        fk = (a0["l"], ())
                        if st.get(fk) == (0, 0):
                            st_c = None         # the flag is false on every path seen so far: the closure does not run
                        r1 = self.refine_by_rel(st2, fk, True) if ("rel", fk) in st2 else None
                        r2 = self.refine_by_cond(st2, fk, True) if ("cond", fk) in st2 else None
                        if st_c is not None and r1 is not False and r2 is not False and (r1 or r2):
                            st_c = st2
            for i, o in enumerate(rv["ops"]):
                v = self.operand(st, o)
                opl = o.get("copy") or o.get("move")
                if rv["agg"] == "closure" and rv.get("closure") and ("closure:" + rv["closure"], str(i)) in self.an.private and st_c is not None:
                    cv = self.operand(st_c, o) if st_c is not st else v
                    if cv is None and opl is not None and not opl["p"] and ("ptr", opl["l"]) in st_c:
                        tl_, tp_ = st_c[("ptr", opl["l"])]      # captured by reference: the range of the borrowed place
                        cv = self.read(st_c, tl_, tuple(tp_))
                    self.an.record_field("closure:" + rv["closure"], str(i), cv)
                if rv["agg"] == "adt" and adt is not None and adt["kind"] == "struct" and i < len(adt["variants"][0]["fields"]):
                    fdef = adt["variants"][0]["fields"][i]
                    if is_int(fdef["ty"]):
                        self.an.record_field(rv["adt"], fdef["name"], v)
                if v is not None:
                    st[(ndl, pre + ((elem, i),))] = v
                    if opl is not None and rv["agg"] == "tuple":
                        # `match (a, b)`: a component of the scrutinee tuple is a copy of a place; what the match arms
                        # learn about the component holds for the place as well
                        sk = self.operand_key(st, o)
                        if sk is not None and sk != (ndl, pre + (("f", i),)):
                            st[("alias", (ndl, pre + (("f", i),)))] = sk
                elif opl is not None:
                    # nested aggregate: copy sub keys
                    sl, sp = self.norm(st, opl["l"], [pe(e) for e in opl["p"]])
                    for kk, vv in list(st.items()):
                        if isinstance(kk[0], int) and kk[0] == sl and kk[1][:len(sp)] == sp and (kk[0], kk[1]) != (ndl, pre):
                            st[(ndl, pre + (("f", i),) + kk[1][len(sp):])] = vv
            return
        self.kill_write_default(st, dl, dp)

    def kill_write_default(self, st, dl, dp):
        ndl, ndp = self.norm(st, dl, dp)
        self.kill(st, ndl, ndp)

    def optype(self, st, o):
        if "const" in o:
            ty = o["const"].get("ty")
            return ty if is_int(ty) else None
        pl = o.get("copy") or o.get("move")
        ty, _ = self.an.place_type(self.body, *self.norm(st, pl["l"], [pe(e) for e in pl["p"]]))
        return ty if is_int(ty) else None

    def finding(self, bi, kind, op, detail, sp):
        key = (bi, kind, op)
        if key in self.seen_find:
            return
        self.seen_find.add(key)
        self.findings.append((bi, kind, op, detail, sp))

    # ---- calls ---------------------------------------------------------------------------------------------
    def call(self, st, t, bi):
        f = t["f"]
        dest = t["dest"]
        dl, dp = dest["l"], [pe(e) for e in dest["p"]]
        args = [self.operand(st, a) for a in t["args"]]
        # &mut arguments: the pointee may change
        for a in t["args"]:
            pl = a.get("move") or a.get("copy")
            if pl is not None and not pl["p"]:
                ty = self.body["locals"][pl["l"]]["ty"]
                if isinstance(ty, dict) and "ref" in ty and ty.get("mut") and ("ptr", pl["l"]) in st:
                    tl, tp = st[("ptr", pl["l"])]
                    self.kill(st, tl, tp)
        dty, dstack = self.an.place_type(self.body, *self.norm(st, dl, dp))
        ret = None
        extra = {}
        if "indirect" not in f:
            r = f.get("resolved") or f
            path = r.get("path", "") or ""
            name = f.get("name", "")
            ret, extra = self.model(path, name, args, dty, t, st)
            cond = None
            if ret is None and not extra:
                cands = [g for g in self.prog.by_path.get(path, []) if g.body and g.kind in ("fn", "assoc_fn")]
                if len(cands) == 1 and cands[0].id in self.an.param_ok:
                    g0 = cands[0]
                    for i_, a_ in enumerate(args):
                        if i_ + 1 <= g0.body["argc"]:
                            pty = g0.body["locals"][i_ + 1]["ty"]
                            if is_int(pty):
                                self.an.record_param(g0, i_ + 1, a_, pty)
                if len(cands) == 1 and self.depth < 4 and cands[0].id not in self.an.active:
                    g = cands[0]
                    targs = self.callee_targs(g, r)
                    if self.prog.is_new(g):
                        ret, extra, cond = self.inline(st, t, args, g, bi, targs, True)
                    elif g.body["locals"][0]["ty"] == "bool" and len(g.body["blocks"]) <= 60:
                        ret, extra, cond = self.inline(st, t, args, g, bi, targs, False)
                    elif targs:
                        ret, sub = self.an.mono_summary(g, targs)
                        extra = {k: v for k, v in sub.items() if k}
                    elif is_int(dty):
                        ret, _ = self.an.summary(g)
                elif len(cands) == 1 and is_int(dty):
                    sret, _ = self.an.summary(cands[0])
                    ret = sret
        if "indirect" not in f and f.get("name") == "then_some" and ((f.get("resolved") or f).get("path", "") or "").startswith("core::bool::") and len(t["args"]) == 2:
            # `flag.then_some(v)`: the payload of Some is v in the state refined by what a true flag implies
            a0 = t["args"][0].get("move") or t["args"][0].get("copy")
            st2 = dict(st)
            if a0 is not None and not a0["p"]:
                fk = (a0["l"], ())
                if ("rel", fk) in st2:
                    self.refine_by_rel(st2, fk, True)
                if ("cond", fk) in st2:
                    self.refine_by_cond(st2, fk, True)
            def chase(key, rng):
                # the value was copied before the flag was tested: what the flag implies for the place it was copied
                # from holds for the copy as well
                k_, hops = key, 0
                while ("alias", k_) in st2 and hops < 6:
                    k_ = st2[("alias", k_)]
                    r_ = st2.get(k_)
                    if r_ is not None:
                        rng = meet(rng, r_) if rng is not None else r_
                        if rng is None:
                            return None
                    hops += 1
                return rng
            v1 = self.operand(st2, t["args"][1])
            pre_ = (("down", "Some"), ("f", 0))
            a1 = t["args"][1].get("move") or t["args"][1].get("copy")
            if v1 is not None:
                k1 = self.operand_key(st2, t["args"][1]) if a1 is not None else None
                extra[pre_] = chase(k1, v1) if k1 is not None else v1
            elif a1 is not None:
                sl_, sp_ = self.norm(st2, a1["l"], [pe(e) for e in a1["p"]])
                for kk, vv in list(st2.items()):
                    if isinstance(kk[0], int) and kk[0] == sl_ and kk[1][:len(sp_)] == tuple(sp_) and len(kk[1]) > len(sp_):
                        r2_ = chase(kk, vv)
                        if r2_ is not None:
                            extra[pre_ + kk[1][len(sp_):]] = r2_
        if "indirect" not in f and f.get("name") == "map" and "core::array::" in ((f.get("resolved") or f).get("path", "") or "") and len(t["args"]) == 2:
            extra.update(self.array_map_model(st, t, dty))
        if "indirect" not in f and cond is None and dty == "bool" and f.get("name") == "is_empty" and len(t["args"]) == 1 and "slice" in ((f.get("resolved") or f).get("path", "") or ""):
            pl_ = t["args"][0].get("move") or t["args"][0].get("copy")
            if pl_ is not None and not pl_["p"]:
                kl, kp = self.norm(st, pl_["l"], ("*", "len"))
                cond = ({(kl, tuple(kp)): (0, 0)}, {(kl, tuple(kp)): (1, Contracts.LEN[1])})
        if "indirect" not in f and cond is None and dty == "bool" and f.get("name") == "contains" and len(t["args"]) == 2:
            cond = self.range_contains_cond(st, t)
        ndl, ndp = self.norm(st, dl, dp)
        self.kill(st, ndl, ndp)
        if is_int(dty):
            rng = TYPE_RANGE[dty]
            if ret is None:
                # result of an unmodelled call: contract by the destination's role
                ret = self.an.contracts.for_place(dty, dstack, self.body["locals"][dl].get("name"))
            st[(ndl, tuple(ndp))] = clamp(ret, rng)
        for sub, v in extra.items():
            st[(ndl, tuple(ndp) + sub)] = v
        if "indirect" not in f and f.get("name") == "from_residual" and isinstance(dty, dict) and dty.get("adt") in ("core::option::Option", "core::result::Result"):
            # `x?` on the failing side: the function's result is None / Err(..), never a success payload
            st[("variant", (ndl, tuple(ndp)))] = frozenset(["None" if dty["adt"].endswith("Option") else "Err"])
        if "indirect" not in f and f.get("name") == "then_some" and isinstance(dty, dict) and dty.get("adt") == "core::option::Option" and extra:
            pass
        if "indirect" not in f and cond is not None and dty == "bool":
            st[("cond", (ndl, tuple(ndp)))] = cond

    def array_map_model(self, st, t, dty):
        """`[a, b, c].map(u16::from)`: with a lossless integer conversion (`From` between integer types) as the function
        item every element keeps its interval.  Anything else is not modelled (elements get their type range)."""
        fn_arg = t["args"][1]
        c = fn_arg.get("const") if isinstance(fn_arg, dict) else None
        fty = (c or {}).get("ty") if isinstance(c, dict) else None
        path = str(fty.get("fndef") or "") if isinstance(fty, dict) else ""
        targs = fty.get("args") if isinstance(fty, dict) else None
        if not (path in ("core::convert::From::from", "core::convert::Into::into") and targs and all(is_int(x) for x in targs)):
            return {}
        ety = dty.get("array") if isinstance(dty, dict) else None
        if not is_int(ety):
            return {}
        pl = t["args"][0].get("move") or t["args"][0].get("copy")
        if pl is None:
            return {}
        sl, sp = self.norm(st, pl["l"], [pe(e) for e in pl["p"]])
        out = {}
        rng = TYPE_RANGE[ety]
        for kk, v in st.items():
            if isinstance(kk[0], int) and kk[0] == sl and kk[1][:len(sp)] == tuple(sp) and len(kk[1]) == len(sp) + 1 and kk[1][-1][0] == "cidx":
                if v[0] >= rng[0] and v[1] <= rng[1]:
                    out[(kk[1][-1],)] = v
        return out

    def range_contains_cond(self, st, t):
        """`(a..b).contains(&x)` / `(a..=b).contains(&x)` / `(..b)` / `(a..)`: a true result implies a <= x < b (<= b);
        a false result implies nothing for an interval (it is a disjunction).  Both operands are references to places
        of this body."""
        r = (t["f"].get("resolved") or t["f"]).get("path", "") or ""
        kind = None
        for k_ in ("RangeInclusive", "RangeToInclusive", "RangeFrom", "RangeTo", "Range"):
            if ("ops::range::" + k_ + "<") in r or ("ops::range::" + k_ + "::") in r:
                kind = k_
                break
        if kind is None:
            return None
        tg = []
        for a in t["args"]:
            pl = a.get("move") or a.get("copy")
            if pl is None or pl["p"] or ("ptr", pl["l"]) not in st:
                return None
            tg.append(st[("ptr", pl["l"])])
        (rl, rp), (il, ip) = tg
        rp, ip = list(rp), list(ip)
        lo = self.read(st, rl, rp + [("f", 0)]) if kind in ("Range", "RangeInclusive", "RangeFrom") else None
        hi = self.read(st, rl, rp + [("f", 1 if kind in ("Range", "RangeInclusive") else 0)]) if kind != "RangeFrom" else None
        cur = self.read(st, il, ip)
        if cur is None:
            return None
        a = lo[0] if lo is not None else cur[0]
        b = (hi[1] - (0 if kind.endswith("Inclusive") else 1)) if hi is not None else cur[1]
        if a > b:
            return ({}, {})
        il, ip = self.norm(st, il, ip)
        return ({(il, tuple(ip)): (a, b)}, {})

    def callee_targs(self, g, r):
        """{generic parameter of g: concrete type} from the resolved generic arguments of a call"""
        out = {}
        gargs = r.get("args") or []
        for gp in g.generics:
            if gp.get("kind") != "type":
                continue
            i = gp.get("idx")
            if i is None or i >= len(gargs):
                continue
            a = gargs[i]
            if isinstance(a, dict) and "param" in a and len(a) <= 2:
                a = self.targs.get(a["param"])
            if a is None or a == "'_" or has_param(a):
                continue
            out[gp["name"]] = a
        return out

    def inline(self, st, t, args, callee, bi, targs, report):
        """Context-sensitive analysis of a callee: it is analysed with the caller's argument intervals.
        report=True (helper that does not exist in the reference tree): its unproved asserts are attributed to this
        call.  For a bool result the intervals implied for the arguments by a true / false result are returned."""
        entry = {}
        back = {}   # callee param local -> (caller local, caller proj prefix)
        for i, a in enumerate(t["args"]):
            loc = i + 1
            pl = a.get("move") or a.get("copy")
            if pl is not None:
                sl, sp = self.norm(st, pl["l"], [pe(e) for e in pl["p"]])
                back[loc] = (sl, tuple(sp))
            if args[i] is not None:
                entry[(loc, ())] = args[i]
                continue
            if pl is None:
                continue
            sp = tuple(sp)
            for kk, vv in st.items():
                if isinstance(kk[0], int) and kk[0] == sl and kk[1][:len(sp)] == sp:
                    entry[(loc, kk[1][len(sp):])] = vv
            if not sp and ("ptr", sl) in st:
                tl, tp = st[("ptr", sl)]
                tp = tuple(tp)
                back[loc] = ("ptr", tl, tp)
                for kk, vv in st.items():
                    if isinstance(kk[0], int) and kk[0] == tl and kk[1][:len(tp)] == tp:
                        entry[(loc, ("*",) + kk[1][len(tp):])] = vv
        if report:
            self.an.inlined.add(callee.id)
        self.an.active.add(callee.id)
        try:
            sub = FnRun(self.an, callee, self.depth + 1, targs)
            ret, finds = sub.run(entry)
        except RecursionError:
            ret, finds = None, []
        finally:
            self.an.active.discard(callee.id)
        if report:
            for _, kind, op, det, sp in finds:
                self.finding(bi, kind, op, "%s (in helper %s)" % (det, callee.name), t.get("sp", "") or sp)
        extra = {k: v for k, v in sub.ret_sub.items() if k}
        cond = None
        if sub.cond_true is not None or sub.cond_false is not None:
            written = sub.written_params()
            def tr(m):
                if m is None:
                    return None      # this outcome is impossible
                out = {}
                for (loc, proj), v in m.items():
                    if loc in written or loc not in back:
                        continue
                    b = back[loc]
                    if b[0] == "ptr":
                        if proj[:1] != ("*",):
                            continue
                        out[(b[1], b[2] + proj[1:])] = v
                    else:
                        out[(b[0], b[1] + proj)] = v
                return out
            cond = (tr(sub.cond_true), tr(sub.cond_false))
        return ret, extra, cond

    def written_params(self):
        """parameter locals that the body may modify (assigned, call destination, mutably borrowed)"""
        w = set()
        argc = self.body["argc"]
        for b in self.body["blocks"]:
            for s in b["s"]:
                if s["k"] == "assign":
                    if 1 <= s["place"]["l"] <= argc and "*" not in [pe(e) for e in s["place"]["p"]]:
                        w.add(s["place"]["l"])
                    rv = s["rv"]
                    if rv["k"] in ("ref", "rawptr") and (rv.get("mut") or rv["k"] == "rawptr") and 1 <= rv["place"]["l"] <= argc:
                        w.add(rv["place"]["l"])
                    if s["k"] == "assign" and 1 <= s["place"]["l"] <= argc and "*" in [pe(e) for e in s["place"]["p"]]:
                        w.add(s["place"]["l"])
            t = b["t"]
            if t and t["k"] == "call" and 1 <= t["dest"]["l"] <= argc:
                w.add(t["dest"]["l"])
        for l in range(1, argc + 1):
            ty = self.body["locals"][l]["ty"]
            if isinstance(ty, dict) and "ref" in ty and ty.get("mut"):
                w.add(l)
        return w

    def model(self, path, name, args, dty, t, st):
        a = args
        ok = lambda *xs: all(x is not None for x in xs)
        rng = TYPE_RANGE.get(dty) if is_int(dty) else None
        if path.startswith("core::num::"):
            if name == "saturating_sub" and ok(a[0], a[1]) and rng:
                return clamp(arith("Sub", a[0], a[1]), rng), {}
            if name == "saturating_add" and ok(a[0], a[1]) and rng:
                return clamp(arith("Add", a[0], a[1]), rng), {}
            if name == "saturating_mul" and ok(a[0], a[1]) and rng:
                return clamp(arith("Mul", a[0], a[1]), rng), {}
            if name in ("wrapping_add", "wrapping_sub", "wrapping_mul") and rng:
                return rng, {}
            if name == "abs" and ok(a[0]):
                lo = 0 if a[0][0] <= 0 <= a[0][1] else min(abs(a[0][0]), abs(a[0][1]))
                if rng and max(abs(a[0][0]), abs(a[0][1])) > rng[1]:
                    self.finding(-1, "overflow", "abs", "operand %s" % (a[0],), t.get("sp", ""))
                return (lo, max(abs(a[0][0]), abs(a[0][1]))), {}
            if name == "unsigned_abs" and ok(a[0]):
                lo = 0 if a[0][0] <= 0 <= a[0][1] else min(abs(a[0][0]), abs(a[0][1]))
                return (lo, max(abs(a[0][0]), abs(a[0][1]))), {}
            if name == "pow" and ok(a[0], a[1]) and a[1][0] == a[1][1] and 0 <= a[1][0] <= 8:
                n = a[1][0]
                c = [a[0][0] ** n, a[0][1] ** n]
                lo = 0 if (n % 2 == 0 and a[0][0] <= 0 <= a[0][1]) else min(c)
                v = (lo, max(c))
                if rng and (v[0] < rng[0] or v[1] > rng[1]):
                    self.finding(self._cur, "overflow", "pow", "%s.pow(%d) = %s exceeds %s" % (a[0], n, v, dty), t.get("sp", ""))
                    v = clamp(v, rng)
                return v, {}
            if name in ("min", "max") and ok(a[0], a[1]):
                return ((min(a[0][0], a[1][0]), min(a[0][1], a[1][1])) if name == "min" else (max(a[0][0], a[1][0]), max(a[0][1], a[1][1]))), {}
            if name == "clamp" and ok(a[0], a[1], a[2]):
                return (max(a[0][0], a[1][0]), min(a[0][1], a[2][1])) if max(a[0][0], a[1][0]) <= min(a[0][1], a[2][1]) else join(a[1], a[2]), {}
            if name in ("leading_zeros", "trailing_zeros", "count_ones"):
                return (0, 128), {}
            if name == "signum":
                return (-1, 1), {}
            if name in ("checked_sub", "checked_add", "checked_mul", "checked_div") and ok(a[0], a[1]):
                # Option<int>: payload clamped into the type
                ex = arith(name[8:].capitalize() if name != "checked_div" else "Div", a[0], a[1])
                return None, {(("down", "Some"), ("f", 0)): ex} if ex else {}
        if name in ("min", "max") and ("cmp::Ord" in path or path.startswith("core::cmp::")) and len(a) >= 2 and ok(a[0], a[1]):
            return ((min(a[0][0], a[1][0]), min(a[0][1], a[1][1])) if name == "min" else (max(a[0][0], a[1][0]), max(a[0][1], a[1][1]))), {}
        if name == "saturating_as" and a and ok(a[0]) and rng:
            return clamp(a[0], rng), {}
        if name in ("from", "into") and ("convert::From" in path or "convert::Into" in path or "convert::num" in path) and a and ok(a[0]) and rng:
            return (clamp(a[0], rng) if (a[0][0] >= rng[0] and a[0][1] <= rng[1]) else rng), {}
        if name == "try_from" and a and ok(a[0]):
            return None, {(("down", "Ok"), ("f", 0)): a[0]}
        if name == "len" and ("slice" in path or "str" in path):
            return Contracts.LEN, {}
        if name == "count" and "Iterator" in path:
            return (0, 2**16), {}
        if name in ("abs",) and ok(*a[:1]):
            return (0, max(abs(a[0][0]), abs(a[0][1]))), {}
        return None, {}

    # ---- edges ---------------------------------------------------------------------------------------------
    def edge_states(self, st, blk, bi):
        t = blk["t"]
        out = []
        if t is None:
            return out
        k = t["k"]
        if k == "goto":
            return [(t["t"], st)]
        if k in ("drop",):
            return [(t["t"], st)]
        if k == "call":
            self._cur = bi
            st2 = dict(st)
            self.call(st2, t, bi)
            return [(t["t"], st2)] if t["t"] is not None else []
        if k == "assert":
            cond = self.operand(st, t["cond"])
            exp = 1 if t["expected"] else 0
            may_fail = cond is None or not (cond[0] == cond[1] == exp)
            if may_fail:
                m = t["msg"]
                kind = m["kind"]
                det = ""
                op = m.get("op", kind)
                if kind == "overflow":
                    ck = self.operand_key(st, t["cond"])
                    base = (ck[0], ck[1][:-1]) if ck else None
                    info = st.get(("ovf", base)) if base else None
                    if info:
                        det = "%s(%s, %s) = %s" % (info[0].replace("WithOverflow", ""), fmt(info[1]), fmt(info[2]), fmt(info[3]))
                elif kind in ("div_zero", "rem_zero"):
                    det = "divisor %s" % fmt(self.operand(st, m["a"]))
                elif kind == "bounds":
                    det = "index %s len %s" % (fmt(self.operand(st, m["index"])), fmt(self.operand(st, m["len"])))
                self.finding(bi, kind, op, det, t.get("sp", ""))
            st2 = dict(st)
            # continue assuming success
            ck = self.operand_key(st, t["cond"])
            if ck is not None:
                st2[ck] = (exp, exp)
                self.refine_by_rel(st2, ck, bool(exp))
            return [(t["t"], st2)]
        if k == "switch":
            d = t["d"]
            dk = self.operand_key(st, d)
            dv = self.operand(st, d)
            vals = [v for v, _ in t["targets"]]
            for v, b in t["targets"]:
                if dv is not None and not (dv[0] <= v <= dv[1]):
                    continue
                st2 = dict(st)
                if dk is not None and dv is not None:
                    st2[dk] = (v, v)
                    if ("rel", dk) in st and v in (0, 1):
                        if self.refine_by_rel(st2, dk, bool(v)) is False:
                            continue
                    if ("cond", dk) in st and v in (0, 1):
                        if self.refine_by_cond(st2, dk, bool(v)) is False:
                            continue
                    self.propagate_alias(st2, dk)
                out.append((b, st2))
            # otherwise
            feasible = True
            st2 = dict(st)
            if dv is not None:
                rem = dv
                for v in sorted(vals):
                    if rem[0] == v:
                        rem = (rem[0] + 1, rem[1])
                for v in sorted(vals, reverse=True):
                    if rem[1] == v:
                        rem = (rem[0], rem[1] - 1)
                if rem[0] > rem[1]:
                    feasible = False
                elif dk is not None:
                    st2[dk] = rem
                    if ("rel", dk) in st and vals == [0]:
                        if self.refine_by_rel(st2, dk, True) is False:
                            feasible = False
                    if ("cond", dk) in st and vals == [0]:
                        if self.refine_by_cond(st2, dk, True) is False:
                            feasible = False
                    self.propagate_alias(st2, dk)
            if feasible:
                out.append((t["otherwise"], st2))
            return out
        return out

    def propagate_alias(self, st, key, depth=0):
        if key in st and depth < 4:
            for k in [k for k in st if k[0] == "salias"]:
                (l, p), (tl, tp) = k[1], st[k]
                if key[0] == l and tuple(key[1][:len(p)]) == tuple(p):
                    tgt = (tl, tuple(tp) + tuple(key[1][len(p):]))
                    cur = st.get(tgt) or self.default(*tgt)
                    if cur is not None:
                        m = meet(cur, st[key])
                        if m is not None and m != st.get(tgt):
                            st[tgt] = m
                            self.propagate_alias(st, tgt, depth + 1)
        a = st.get(("alias", key))
        if a is not None and key in st:
            cur = st.get(a) or self.default(*a)
            if cur is not None:
                m = meet(cur, st[key])
                if m is not None:
                    st[a] = m
                    if depth < 4:
                        self.propagate_alias(st, a, depth + 1)   # tuple component -> temporary -> the place it copies

    def refine_by_cond(self, st, key, truth):
        """apply what a true/false result of an analysed bool callee implies for the argument places"""
        c = st.get(("cond", key))
        if c is None:
            return None
        m = c[0] if truth else c[1]
        if m is None:
            return False
        for k, v in m.items():
            cur = st.get(k)
            if cur is None:
                cur = self.default(*k)
            if cur is None:
                continue
            mm = meet(cur, v)
            if mm is None:
                return False
            st[k] = mm
            self.propagate_alias(st, k)
        return True

    def refine_by_rel(self, st, key, truth):
        rel = st.get(("rel", key))
        if rel is None:
            return None
        op, oa, ob = rel
        a, b = self.operand(st, oa), self.operand(st, ob)
        if a is None or b is None:
            return None
        r = refine(op, truth, a, b)
        if r is None:
            return False
        for o, v in ((oa, r[0]), (ob, r[1])):
            k = self.operand_key(st, o)
            if k is not None:
                st[k] = (v[0] if v[0] != -INF else st.get(k, a)[0] if False else v[0], v[1])
                # replace infinities by the old bounds
                old = a if o is oa else b
                st[k] = (old[0] if v[0] == -INF else v[0], old[1] if v[1] == INF else v[1])
                self.propagate_alias(st, k)
        return True

    # ---- driver ---------------------------------------------------------------------------------------------
    def run(self, entry=None):
        blocks = self.body["blocks"]
        n = len(blocks)
        instate = {0: dict(entry or {})}
        visits = {}
        work = [0]
        heads = self.cfg.loop_heads()
        exits = set(self.cfg.exits())
        edge_in = {}
        steps = 0
        while work and steps < 4000:
            steps += 1
            bi = work.pop(0)
            st = dict(instate[bi])
            blk = blocks[bi]
            self._cur = bi
            for s in blk["s"]:
                if s["k"] == "assign":
                    self.assign(st, s, bi)
            for ei, (tgt, st2) in enumerate(self.edge_states(st, blk, bi)):
                if tgt is None:
                    continue
                if tgt in exits:
                    edge_in[(bi, tgt, ei)] = st2
                old = instate.get(tgt)
                if old is None:
                    instate[tgt] = st2
                    work.append(tgt)
                    continue
                new = self.join_states(old, st2, tgt in heads and visits.get(tgt, 0) >= 2)
                if new != old:
                    instate[tgt] = new
                    visits[tgt] = visits.get(tgt, 0) + 1
                    if tgt not in work:
                        work.append(tgt)
        # return interval
        ret = None
        ret_unknown = False
        sub = None
        for e in self.cfg.exits():
            if e in instate:
                st = dict(instate[e])
                for s in blocks[e]["s"]:
                    if s["k"] == "assign":
                        self.assign(st, s, e)
                cur = {k[1]: v for k, v in st.items() if isinstance(k[0], int) and k[0] == 0}
                curv = {k[1][1]: v for k, v in st.items() if k[0] == "variant" and k[1][0] == 0}
                if sub is None:
                    sub, subv = cur, curv
                else:
                    def other_variant(key, variants):
                        for i, e in enumerate(key):
                            if isinstance(e, tuple) and e[0] == "down":
                                ov = variants.get(tuple(key[:i]))
                                return ov is not None and e[1] not in ov
                        return False
                    nsub = {k: join(v, cur[k]) for k, v in sub.items() if k in cur}
                    nsub.update({k: v for k, v in sub.items() if k not in cur and other_variant(k, curv)})
                    nsub.update({k: v for k, v in cur.items() if k not in sub and other_variant(k, subv)})
                    subv = {k: v | curv[k] for k, v in subv.items() if k in curv}
                    sub = nsub
                v = st.get((0, ()))
                if v is None:
                    ret_unknown = True
                else:
                    ret = v if ret is None else join(ret, v)
        if ret_unknown:
            ret = None
        self.ret_sub = sub or {}
        rty = self.body["locals"][0]["ty"]
        if rty == "bool":
            self.partition_exits(edge_in, instate)
        if not is_int(rty):
            ret = None
        if steps >= 4000:
            self.findings.append((-1, "engine", "no-fixpoint", "analysis did not converge", ""))
        return ret, self.findings

    def partition_exits(self, edge_in, instate):
        """cond_true / cond_false: intervals of parameter-rooted places on the paths returning true / false"""
        blocks = self.body["blocks"]
        argc = self.body["argc"]
        outs = {True: [], False: []}
        states = list(edge_in.items())
        for e in self.cfg.exits():
            if e == 0 and e in instate:
                states.append(((None, e, 0), instate[e]))
        for (src, e, _), st0 in states:
            st = dict(st0)
            for s in blocks[e]["s"]:
                if s["k"] == "assign":
                    self.assign(st, s, e)
            v = st.get((0, ()))
            for truth in (True, False):
                if v is not None and not (v[0] <= int(truth) <= v[1]):
                    continue
                st2 = dict(st)
                if v is None or v[0] != v[1]:
                    if self.refine_by_rel(st2, (0, ()), truth) is False:
                        continue
                    if self.refine_by_cond(st2, (0, ()), truth) is False:
                        continue
                outs[truth].append({k: x for k, x in st2.items() if isinstance(k[0], int) and 1 <= k[0] <= argc})
        res = {}
        for truth, sts in outs.items():
            if not sts:
                res[truth] = None
                continue
            m = sts[0]
            for o in sts[1:]:
                m = {k: join(x, o[k]) for k, x in m.items() if k in o}
            res[truth] = m
        self.cond_true, self.cond_false = res[True], res[False]

    def join_states(self, a, b, widen):
        out = {}
        for k in a:
            if k not in b:
                continue
            va, vb = a[k], b[k]
            if isinstance(k[0], int):
                j = join(va, vb)
                if widen and j != va:
                    ty, _ = self.an.place_type(self.body, k[0], k[1])
                    rng = TYPE_RANGE.get(ty, (-INF, INF)) if is_int(ty) else (-INF, INF)
                    j = (va[0] if j[0] >= va[0] else rng[0], va[1] if j[1] <= va[1] else rng[1])
                out[k] = j
            elif k[0] == "variant":
                out[k] = va | vb
            elif va == vb:
                out[k] = va
        # the payload of one variant is known on the edges that built that variant; an edge that built another variant
        # says nothing against it (`Some((x, y))` with x < WIDTH on one edge, `None` on the other)
        for x, y in ((a, b), (b, a)):
            for k, v in x.items():
                if isinstance(k[0], int) and k not in y and k not in out:
                    for i, e in enumerate(k[1]):
                        if isinstance(e, tuple) and e[0] == "down":
                            ov = y.get(("variant", (k[0], tuple(k[1][:i]))))
                            if ov is not None and e[1] not in ov:
                                out[k] = v
                            break
        if not widen:
            self._flag_partitions(a, b, out)
        return out

    def _flag_partitions(self, a, b, out):
        """A bool local that is a different constant in the two joined states (`let ok = x >= 0 && ..;` leaves `ok = true`
        on one incoming edge and `ok = false` on the others) keeps, as a ("cond", flag) entry, what each value implies for
        the integer places: a later `if ok` / `if !ok` recovers the bounds established on the path that set the flag (the
        entry dies with the first write to the flag or to a place it mentions, see kill())."""
        def places(st):
            return {k: v for k, v in st.items() if isinstance(k[0], int) and isinstance(v, tuple) and len(v) == 2}

        def jmap(m1, m2):
            if m1 is None:
                return m2
            if m2 is None:
                return m1
            return {k: join(v, m2[k]) for k, v in m1.items() if k in m2}
        for k in list(out):
            if not (isinstance(k[0], int) and out[k] == (0, 1)):
                continue
            try:
                ty, _ = self.an.place_type(self.body, k[0], k[1])
            except Exception:
                continue
            if ty != "bool":
                continue
            va, vb = a.get(k), b.get(k)
            ca, cb = a.get(("cond", k)), b.get(("cond", k))
            if va == vb == (0, 1) and ca is None and cb is None and ("rel", k) not in a and ("rel", k) not in b:
                continue
            parts = {1: None, 0: None}
            okp = True
            for st, v, c in ((a, va, ca), (b, vb, cb)):
                if v in ((0, 0), (1, 1)):
                    parts[v[0]] = jmap(parts[v[0]], {p: x for p, x in places(st).items() if p != k})
                elif v == (0, 1):
                    # the flag is a comparison result on this edge (`.. && h > y`): each value of it refines this state
                    for tv in (1, 0):
                        st2 = dict(st)
                        if ("rel", k) in st2 and self.refine_by_rel(st2, k, bool(tv)) is False:
                            continue
                        if ("cond", k) in st2 and self.refine_by_cond(st2, k, bool(tv)) is False:
                            continue
                        parts[tv] = jmap(parts[tv], {p: x for p, x in places(st2).items() if p != k})
                else:
                    okp = False
            if okp and parts[0] is not None and parts[1] is not None:
                # keep only places for which the flag says something (differs from the joined value)
                def cur_(p_):
                    # a place without an entry has its default (contract / type) range in the joined state
                    if p_ in out:
                        return out[p_]
                    try:
                        return self.default(p_[0], p_[1])
                    except Exception:
                        return None
                tm = {p: x for p, x in parts[1].items() if cur_(p) is not None and cur_(p) != x}
                fm = {p: x for p, x in parts[0].items() if cur_(p) is not None and cur_(p) != x}
                if tm or fm:
                    out[("cond", k)] = (tm, fm)


def fmt(v):
    if v is None:
        return "?"
    def one(x):
        if x in (INF, -INF):
            return "inf" if x > 0 else "-inf"
        for n in (8, 16, 31, 32, 63, 64):
            if x == 2**n - 1:
                return "2^%d-1" % n
            if x == -2**n:
                return "-2^%d" % n
        return str(x)
    return "[%s, %s]" % (one(v[0]), one(v[1]))
