"""Type-parameter dependence (DESIGN.md A.4).

uses(F) ⊆ generics(F): the generic parameters (type or const) whose instantiation can
influence what F computes.  If P ∉ uses(F), F is parametric in P (behaves identically for
every P).  Over-approximation (may report 'uses' where there is none) in every rule
except where noted, i.e. "not in uses" is the trustworthy verdict.
"""
from . import ty_walk

MARKERS = {"core::marker::PhantomData"}


def params_in(t, closure_uses):
    """Generic parameter names mentioned in a type / generic arg; closures contribute the
    parameters their bodies use (closure_uses: closure id -> set), PhantomData nothing."""
    out = set()
    if t is None or isinstance(t, (str, int, bool)):
        return out
    if isinstance(t, dict):
        if t.get("adt") in MARKERS:
            return out
        if "closure" in t:
            return set(closure_uses.get(t["closure"], ()))
        if "param" in t:
            out.add(t["param"])
        if "cparam" in t:
            out.add(t["cparam"])
        for k in ("args", "tuple"):
            for x in t.get(k, []) or []:
                out |= params_in(x, closure_uses)
        for k in ("ref", "ptr", "array", "slice", "self", "const", "len", "c"):
            if isinstance(t.get(k), dict):
                out |= params_in(t[k], closure_uses)
        if "fndef" in t:
            pass
    return out


def _operands(body):
    for b in body["blocks"]:
        for s in b["s"]:
            if s["k"] != "assign":
                continue
            rv = s["rv"]
            for k in ("a", "b"):
                if k in rv:
                    yield rv[k]
            for o in rv.get("ops", []) or []:
                yield o
            if rv["k"] == "repeat" and isinstance(rv.get("n"), dict):
                yield {"const": {"c": rv["n"], "ty": None}}
        t = b["t"]
        if not t:
            continue
        if t["k"] == "call":
            for a in t["args"]:
                yield a
        elif t["k"] == "switch":
            yield t["d"]
        elif t["k"] == "assert":
            yield t["cond"]


class Dependence:
    def __init__(self, prog):
        self.prog = prog
        self.uses = {fid: set() for fid, f in prog.fns.items() if f.body}
        self.why = {fid: {} for fid in self.uses}
        self._solve()

    def _generic_names(self, f):
        return [g["name"] for g in f.generics]

    def _add(self, fid, p, why):
        if p not in self.uses[fid]:
            self.uses[fid].add(p)
            self.why[fid][p] = why
            return True
        return False

    def _solve(self):
        prog = self.prog
        changed = True
        rounds = 0
        while changed:
            changed = False
            rounds += 1
            for fid, f in prog.fns.items():
                if not f.body:
                    continue
                bodies = [f.body] + list(f.promoted)
                for body in bodies:
                    # constants
                    for o in _operands(body):
                        c = o.get("const") if isinstance(o, dict) else None
                        if not c:
                            continue
                        if "uneval" in c:
                            for a in c.get("args", []) or []:
                                for p in params_in(a, self.uses):
                                    changed |= self._add(fid, p, "const " + c["uneval"])
                        if isinstance(c.get("c"), dict):
                            for p in params_in(c["c"], self.uses):
                                changed |= self._add(fid, p, "const generic value")
                    for b in body["blocks"]:
                        # closures created here
                        for s in b["s"]:
                            if s["k"] == "assign" and s["rv"]["k"] == "agg" and s["rv"].get("agg") == "closure":
                                cid = s["rv"]["closure"]
                                for p in self.uses.get(cid, ()):
                                    changed |= self._add(fid, p, "closure " + cid)
                            if s["k"] == "assign" and s["rv"]["k"] == "cast":
                                # casts to types naming a param (e.g. `as C::Storage`) depend on it
                                for p in params_in(s["rv"].get("ty"), self.uses):
                                    changed |= self._add(fid, p, "cast")
                        t = b["t"]
                        if not t or t["k"] != "call":
                            continue
                        fd = t["f"]
                        if "indirect" in fd:
                            continue
                        tgt = fd.get("resolved") or fd
                        tid = tgt.get("id")
                        targs = tgt.get("args", [])
                        if tid in prog.fns and prog.fns[tid].body:
                            g = prog.fns[tid]
                            gnames = self._generic_names(g)
                            gu = self.uses.get(tid, set())
                            for i, a in enumerate(targs):
                                if i < len(gnames) and gnames[i] in gu:
                                    for p in params_in(a, self.uses):
                                        changed |= self._add(fid, p, "call %s uses its param %s" % (g.path, gnames[i]))
                        else:
                            # unresolved trait method or foreign function: conservative
                            for a in fd.get("args", []):
                                for p in params_in(a, self.uses):
                                    changed |= self._add(fid, p, "call " + fd.get("path", "?"))
            if rounds > 50:
                break

    def fn_uses(self, f, param):
        return param in self.uses.get(f.id, set())
