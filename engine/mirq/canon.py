"""Canonical forms of origin trees — one shape for the usual ways of writing the same computation.

Rules are written against these forms so that a behaviour-preserving rewrite of the analysed code (closure <->
function item, combinator <-> `match`/`if let`/`?`, `a > b` <-> `b < a`, `!=` with swapped branches, a
predicate or a sub-expression extracted into a helper, locals renamed or introduced) does not change what
they see.

Additional node kinds:
  ('lam', body)              a callable (closure or function item); body over ('arg', k) (k = 1..) with the captured
                             values substituted from the creating function
  ('payload', x)             the value inside `x` when x is Some/Ok (match binding, `?`, combinator argument)
  ('errpayload', x)          the value inside Err
  ('comb', kind, x, body)    Option/Result pipeline step: kind in map / and_then / ok_or / ... ; body over ('payload', x)
Comparisons are brought to Lt / Le / Eq with `Not` folded where exact (integers).

Facts (from guards): ('lt', a, b) ('le', a, b) ('eq', a, b) ('ne', a, b) ('true', t) ('false', t) ('variant', x, values)
"""
from .origin import Origins, subst, walk, mk_phi, mk_bin, decisions, dominating_guards, lit_truth, show, TooManyPaths

OPT_COMB = {
    "core::option::Option::<T>::map": "map", "core::option::Option::<T>::and_then": "and_then",
    "core::option::Option::<T>::inspect": "inspect", "core::option::Option::<T>::filter": "filter",
    "core::result::Result::<T, E>::map": "map", "core::result::Result::<T, E>::and_then": "and_then",
    "core::option::Option::<T>::map_or": "map_or", "core::option::Option::<T>::unwrap_or_else": "unwrap_or_else",
    "core::option::Option::<T>::is_some_and": "is_some_and", "core::result::Result::<T, E>::map_err": "map_err",
}
CMP_CALL = {"lt": "Lt", "le": "Le", "gt": "Gt", "ge": "Ge"}
NEG = {"Lt": "Ge", "Le": "Gt", "Gt": "Le", "Ge": "Lt"}


def is_closure(n):
    return isinstance(n, tuple) and n and n[0] == "agg" and str(n[1]).startswith("closure:")


def is_fnitem(n):
    return isinstance(n, tuple) and n and n[0] == "const" and isinstance(n[1], str) and n[1].startswith("fn:")


def fnitem_path(n):
    p = n[1][3:]
    if p.startswith("fn "):
        p = p[3:]
    return p


def _strip(t):
    return subst(t, lambda n: n[1] if n[0] in ("ref", "deref") else None)


class Canon:
    def __init__(self, prog, depth=3):
        self.prog = prog
        self.depth = depth
        self._ret = {}
        self.lam_args = True   # closures / function items handed to other calls become ('lam', body)

    # ---- callables -------------------------------------------------------------------------------------
    def lam(self, n, depth=0):
        """('lam', body) of a closure aggregate / function item, or None"""
        if depth > self.depth:
            return None
        if is_closure(n):
            c = self.prog.fns.get(n[1][len("closure:"):])
            if c is None or not c.body:
                return None
            caps = n[2]
            body = Origins(c).return_origin()

            def r(x):
                if x[0] == "param" and x[1] >= 2:
                    return ("arg", x[1] - 1)
                if x[0] == "upvar" and x[1] < len(caps):
                    return caps[x[1]]
                return None
            return ("lam", self.tree(subst(body, r), depth + 1))
        if is_fnitem(n):
            path = fnitem_path(n)
            cands = [g for g in self.prog.by_path.get(path, []) if g.body and g.kind in ("fn", "assoc_fn")]
            if len(cands) == 1:
                g = cands[0]
                body = Origins(g).return_origin()
                return ("lam", self.tree(subst(body, lambda x: ("arg", x[1]) if x[0] == "param" else None), depth + 1))
            # foreign function item (Into::into, Some, …): one argument
            return ("lam", ("call", path, (), (("arg", 1),)))
        return None

    # ---- trees -----------------------------------------------------------------------------------------
    def ret(self, f):
        if f.id not in self._ret:
            self._ret[f.id] = self.tree(Origins(f).return_origin())
        return self._ret[f.id]

    def tree(self, t, depth=0):
        t = _strip(t)

        def r(n):
            k = n[0]
            if k == "field" and n[2] == 0 and n[1][0] == "variant":
                base, var = n[1][1], n[1][2]
                if var in ("Some", "Ok"):
                    return ("payload", base)
                if var == "Continue" and base[0] == "call" and base[1].endswith("Try>::branch") and len(base[3]) == 1:
                    return ("payload", base[3][0])
                if var == "Err":
                    return ("errpayload", base)
            if k == "call":
                path, args = n[1], n[3]
                name = path.split("::")[-1]
                if path in OPT_COMB and len(args) >= 2:
                    l = self.lam(args[-1], depth)
                    if l is not None:
                        body = subst(l[1], lambda x: ("payload", args[0]) if x == ("arg", 1) else None)
                        return ("comb", OPT_COMB[path], args[0], body) + ((args[1],) if len(args) == 3 else ())
                if name in ("ok_or",) and path.startswith("core::option::") and len(args) == 2:
                    return ("comb", "ok_or", args[0], args[1])
                if name == "copied" and path.startswith("core::option::") and len(args) == 1:
                    return ("comb", "map", args[0], ("payload", args[0]))
                if name in CMP_CALL and ("PartialOrd" in path or path.startswith("core::cmp::")) and len(args) == 2:
                    return self._cmp(CMP_CALL[name], args[0], args[1])
                if name in ("eq", "ne") and "PartialEq" in path and len(args) == 2:
                    e = mk_bin("Eq", args[0], args[1])
                    return e if name == "eq" else ("un", "Not", e)
                if depth < 3 and "::" in path:
                    # a helper introduced by an edit (not in the reference list), straight-line: look through it
                    cands = [g for g in self.prog.by_path.get(path, []) if g.body and g.kind in ("fn", "assoc_fn")]
                    if len(cands) == 1 and self.prog.is_new(cands[0]) and len(args) == cands[0].body["argc"]:
                        body = self.tree(Origins(cands[0]).return_origin(), depth + 1)
                        if not any(x[0] in ("phi", "loop", "unknown") for x in walk(body)):
                            return subst(body, lambda x: args[x[1] - 1] if x[0] == "param" and 1 <= x[1] <= len(args) else None)
                if self.lam_args and any(is_closure(a) or is_fnitem(a) for a in args):
                    new = tuple((self.lam(a, depth) or a) if (is_closure(a) or is_fnitem(a)) else a for a in args)
                    return n[:3] + (new,) + n[4:]
            if k == "bin" and n[1] in ("Gt", "Ge", "Lt", "Le"):
                return self._cmp(n[1], n[2], n[3])
            if k == "bin" and n[1] == "Ne":
                return ("un", "Not", mk_bin("Eq", n[2], n[3]))
            if k == "un" and n[1] == "Not":
                x = n[2]
                if x[0] == "un" and x[1] == "Not":
                    return x[2]
                if x[0] == "bin" and x[1] == "Lt":
                    return ("bin", "Le", x[3], x[2])
                if x[0] == "bin" and x[1] == "Le":
                    return ("bin", "Lt", x[3], x[2])
            if k == "phi":
                return self._phi(n)
            return None
        return subst(t, r)

    def _cmp(self, op, a, b):
        if op == "Gt":
            return ("bin", "Lt", b, a)
        if op == "Ge":
            return ("bin", "Le", b, a)
        return ("bin", op, a, b)

    def _phi(self, n):
        """match-form Option/Result pipelines: phi{None, Some{B[payload x]}} = comb map, phi{None, E[payload x]} = and_then"""
        alts = list(n[1])
        if len(alts) != 2:
            return None
        none = [a for a in alts if a[0] == "agg" and str(a[1]).endswith("Option::None")]
        if len(none) == 1:
            other = [a for a in alts if a is not none[0]][0]
            subj = _payload_subjects(other)
            if len(subj) == 1:
                x = subj[0]
                if other[0] == "agg" and str(other[1]).endswith("Option::Some") and len(other[2]) == 1:
                    return ("comb", "map", x, other[2][0])
                return ("comb", "and_then", x, other)
        errs = [a for a in alts if a[0] == "agg" and str(a[1]).endswith("Result::Err")]
        if len(errs) == 1:
            other = [a for a in alts if a is not errs[0]][0]
            subj = _payload_subjects(other)
            if len(subj) == 1 and other[0] == "agg" and str(other[1]).endswith("Result::Ok") and len(other[2]) == 1:
                x = subj[0]
                e = errs[0][2][0] if errs[0][2] else None
                if e == ("errpayload", x):
                    return ("comb", "map", x, other[2][0])
                if other[2][0] == ("payload", x):
                    return ("comb", "ok_or", x, e)
                return ("comb", "map", ("comb", "ok_or", x, e), subst(other[2][0], lambda y: ("payload", ("comb", "ok_or", x, e)) if y == ("payload", x) else None))
        return None

    # ---- guards ------------------------------------------------------------------------------------------
    def fact(self, d, lit, depth=0):
        """canonical facts implied by a switch literal on discriminant tree d"""
        d = self.tree(d)
        tv = lit_truth(lit)
        if d[0] == "discr":
            return [("variant", d[1], lit)]
        if tv is None:
            return [("switch", d, lit)]
        return self._bool_fact(d, tv, depth)

    def _bool_fact(self, d, tv, depth):
        if d[0] == "un" and d[1] == "Not":
            return self._bool_fact(d[2], not tv, depth)
        if d[0] == "bin" and d[1] in ("Lt", "Le", "Eq"):
            a, b = d[2], d[3]
            if d[1] == "Lt":
                return [("lt", a, b)] if tv else [("le", b, a)]
            if d[1] == "Le":
                return [("le", a, b)] if tv else [("lt", b, a)]
            return [("eq", a, b)] if tv else [("ne", a, b)]
        if d[0] == "bin" and d[1] in ("BitAnd", "BitOr"):
            # non-short-circuit && / || on bools
            if d[1] == "BitAnd" and tv:
                return self._bool_fact(d[2], True, depth) + self._bool_fact(d[3], True, depth)
            if d[1] == "BitOr" and not tv:
                return self._bool_fact(d[2], False, depth) + self._bool_fact(d[3], False, depth)
        if d[0] == "call" and depth < 3:
            ex = self._expand_pred(d, tv, depth)
            if ex is not None:
                return ex + [("true" if tv else "false", d)]
        return [("true" if tv else "false", d)]

    def _expand_pred(self, d, tv, depth):
        """facts common to all paths of a crate-local bool function that return `tv`"""
        cands = [g for g in self.prog.by_path.get(d[1], []) if g.body and g.kind in ("fn", "assoc_fn")]
        if len(cands) != 1:
            return None
        g = cands[0]
        if g.body["locals"][0]["ty"] != "bool" or len(g.body["blocks"]) > 80:
            return None
        try:
            decs = decisions(g, limit=64)
        except (TooManyPaths, RecursionError):
            return None
        args = d[3]
        bind = lambda t: subst(t, lambda x: args[x[1] - 1] if x[0] == "param" and 1 <= x[1] <= len(args) else None)
        common = None
        for lits, ret, _ in decs:
            ret = self.tree(bind(ret))
            fs = []
            if ret == ("const", tv):
                pass
            elif ret == ("const", (not tv)):
                continue
            else:
                fs += self._bool_fact(ret, tv, depth + 1)
            for dd, lit in lits:
                fs += self.fact(bind(dd), lit, depth + 1)
            # a path whose own facts are contradictory by construction is kept (sound: facts only shrink)
            common = fs if common is None else [f for f in common if f in fs]
        return common or []

    def guards(self, f, org, bi):
        out = []
        for d, lit in dominating_guards(f, org, bi):
            for x in self.fact(d, lit):
                if x not in out:
                    out.append(x)
        return out

    # ---- boolean functions as sets of conjunctions -------------------------------------------------------------
    def dnf_fn(self, g, args=None, truth=True, caps=None, depth=0):
        """The inputs on which bool function / closure g returns `truth`: a set of conjunctions (frozensets of
        facts), one per path, with calls to crate-local predicates and `is_some_and` closures expanded."""
        closure = g.kind == "closure"

        def bind(t):
            def r(x):
                if x[0] == "param" and args is not None:
                    k = x[1] - (2 if closure else 1)
                    if 0 <= k < len(args):
                        return args[k]
                if x[0] == "upvar" and caps is not None and x[1] < len(caps):
                    return caps[x[1]]
                return None
            return subst(t, r)
        out = set()
        for lits, ret, _ in decisions(g, limit=128):
            conjs = [frozenset()]
            for d, lit in lits:
                tv = lit_truth(lit)
                d = bind(d)
                if _strip(d)[0] == "discr" or tv is None:
                    alts = [frozenset(self.fact(d, lit))]
                else:
                    alts = self.dnf_tree(d, tv, depth + 1)
                conjs = [c | a for c in conjs for a in alts]
            alts = self.dnf_tree(bind(ret), truth, depth + 1)
            for c in conjs:
                for a in alts:
                    out.add(c | a)
        return out

    def dnf_tree(self, t, truth, depth=0):
        t = _strip(t)
        if t[0] == "const" and isinstance(t[1], bool):
            return [frozenset()] if t[1] == truth else []
        if t[0] == "call" and depth < 4:
            path, args = t[1], t[3]
            name = path.split("::")[-1]
            if name == "is_some_and" and path.startswith("core::option::") and len(args) == 2 and is_closure(args[1]):
                c = self.prog.fns.get(args[1][1][len("closure:"):])
                if c is not None and c.body:
                    x = self.tree(args[0])
                    inner = self.dnf_fn(c, [("payload", x)], truth, args[1][2], depth + 1)
                    some = frozenset([("variant", x, (1,))])
                    res = [some | a for a in inner]
                    if not truth:
                        res.append(frozenset([("variant", x, (0,))]))
                    return res
            cands = [g for g in self.prog.by_path.get(path, []) if g.body and g.kind in ("fn", "assoc_fn")]
            if len(cands) == 1 and cands[0].body["locals"][0]["ty"] == "bool" and len(cands[0].body["blocks"]) <= 80 and (self.prog.is_new(cands[0]) or depth < 2 and cands[0].d.get("vis") != "pub"):
                try:
                    return list(self.dnf_fn(cands[0], list(args), truth, None, depth + 1))
                except (TooManyPaths, RecursionError):
                    pass
        c = self.tree(t)
        if c[0] == "un" and c[1] == "Not":
            return self.dnf_tree(c[2], not truth, depth)
        if c[0] == "bin" and c[1] in ("BitAnd", "BitOr") :
            both = (c[1] == "BitAnd") == truth
            a, b = self.dnf_tree(c[2], truth, depth), self.dnf_tree(c[3], truth, depth)
            return [x | y for x in a for y in b] if both else a + b
        return [frozenset(self._bool_fact(c, truth, 9))]

    def decision_set(self, f):
        """{(facts of the path, canonical result)} of a small acyclic function"""
        out = set()
        for lits, ret, _ in decisions(f, limit=128):
            conjs = [frozenset()]
            for d, lit in lits:
                tv = lit_truth(lit)
                if _strip(d)[0] == "discr" or tv is None:
                    alts = [frozenset(self.fact(d, lit))]
                else:
                    alts = self.dnf_tree(d, tv)
                conjs = [c | a for c in conjs for a in alts]
            r = self.tree(ret)
            for c in conjs:
                out.add((c, r))
        return out

    # ---- call sites (looking through helpers that do not exist in the reference tree) -----------------------
    def sites(self, f, name, _depth=0, _bind=None, _outer=()):
        """[Site] of calls to a callee named `name` in f and in the new helpers f calls (transitively); argument
        trees and facts are expressed over f's parameters."""
        org = Origins(f)
        out = []
        bind = _bind or (lambda t: t)
        for bi in sorted(org.cfg.live_blocks()):
            t = f.body["blocks"][bi]["t"]
            if not t or t["k"] != "call":
                continue
            callee = t["f"].get("name")
            r = t["f"].get("resolved") or t["f"]
            if callee == name:
                args = [self.tree(bind(a)) for a in org.term_args(bi)]
                facts = list(_outer) + [self._bindfact(x, bind) for x in self.guards(f, org, bi)]
                out.append(Site(f, bi, args, facts, t))
                continue
            if _depth < 3 and "indirect" not in t["f"]:
                cands = [g for g in self.prog.by_path.get(r.get("path", ""), []) if g.body and g.kind in ("fn", "assoc_fn")]
                if len(cands) == 1 and cands[0].id != f.id and self.prog.is_new(cands[0]):
                    g = cands[0]
                    raw = [bind(a) for a in org.term_args(bi)]
                    sub = (lambda raw: (lambda tr: subst(tr, lambda x: raw[x[1] - 1] if x[0] == "param" and 1 <= x[1] <= len(raw) else None)))(raw)
                    facts = list(_outer) + [self._bindfact(x, bind) for x in self.guards(f, org, bi)]
                    out += self.sites(g, name, _depth + 1, sub, tuple(facts))
        return out

    def _bindfact(self, fact, bind):
        return tuple(self.tree(bind(x)) if isinstance(x, tuple) and x and isinstance(x[0], str) and x[0] not in ("not",) and not isinstance(x[0], int) and _is_tree(x) else x for x in fact)


def _is_tree(x):
    return isinstance(x, tuple) and x and isinstance(x[0], str) and x[0] in (
        "param", "upvar", "const", "call", "bin", "un", "cast", "agg", "field", "variant", "deref", "ref", "index", "discr", "phi",
        "loop", "unknown", "repeat", "mut", "update", "payload", "errpayload", "comb", "lam", "arg", "callind", "promoted", "uninit", "proj")


def _payload_subjects(t):
    out = []
    for n in walk(t):
        if n[0] == "payload" and n[1] not in out:
            out.append(n[1])
    return out


class Site:
    __slots__ = ("fn", "bi", "args", "facts", "t")

    def __init__(self, fn, bi, args, facts, t):
        self.fn, self.bi, self.args, self.facts, self.t = fn, bi, args, facts, t

    def __repr__(self):
        return "<Site %s bb%d %s>" % (self.fn.name, self.bi, [show(a, maxd=4) for a in self.args])


def known_eq(facts, a, b):
    return ("eq", a, b) in facts or ("eq", b, a) in facts


def holds(facts, rel, a, b):
    """syntactic implication for lt/le/eq/ne facts (with the obvious weakenings)"""
    if rel == "le":
        return ("le", a, b) in facts or ("lt", a, b) in facts or known_eq(facts, a, b)
    if rel == "lt":
        return ("lt", a, b) in facts
    if rel == "eq":
        return known_eq(facts, a, b)
    if rel == "ne":
        return ("ne", a, b) in facts or ("ne", b, a) in facts or ("lt", a, b) in facts or ("lt", b, a) in facts
    return False
