"""D5 — decision by order types.

A function that touches its scalar inputs only through comparisons (<, <=, ==, min, max, clamp, RangeInclusive::contains …)
cannot tell two inputs of the same *order type* apart: its outcome on an input is determined by the weak ordering of the
scalars.  For k scalars there are finitely many weak orderings and every one of them is realised by an assignment of the
numbers 0..k-1, so reading the function's path summaries (mirq.paths) over those assignments is an exhaustive case
analysis, not a sample.  The evaluator below *refuses* (Undecided) as soon as a tree does anything with a scalar other
than compare, copy, select or repack it — arithmetic, casts that can lose order, unknown calls — because then the
quotient by order type is no longer sound.

Values: Sc (a scalar's rank in its comparison domain), bool, tuple (tuples, arrays and struct fields by position; enum values are ("enum", name, payload))."""
from mirq.origin import show
from mirq.pat import strip_refs
from mirq.paths import Paths, Unsupported, variant_of

CMP = {"Lt": lambda a, b: a < b, "Le": lambda a, b: a <= b, "Gt": lambda a, b: a > b, "Ge": lambda a, b: a >= b,
       "Eq": lambda a, b: a == b, "Ne": lambda a, b: a != b}
FACT = {"lt": "Lt", "le": "Le", "eq": "Eq", "ne": "Ne", "gt": "Gt", "ge": "Ge"}


class Undecided(Exception):
    pass


class Sc:
    """an order-typed scalar: its rank `v` within the comparison domain `dom` (scalars of different domains — x and y
    coordinates, say — must never meet in a comparison, which keeps the case analysis a product of small ones)"""
    __slots__ = ("dom", "v")

    def __init__(self, dom, v):
        self.dom, self.v = dom, v

    def __repr__(self):
        return "%s%d" % (self.dom, self.v)

    def __eq__(self, o):
        return isinstance(o, Sc) and (self.dom, self.v) == (o.dom, o.v)

    def __hash__(self):
        return hash((self.dom, self.v))


def _scal(*xs):
    return all(isinstance(x, Sc) for x in xs)


class Range(tuple):
    """RangeInclusive (start, end)"""


class OrderEval:
    def __init__(self, prog, inline=None, max_depth=8, leaf=None):
        self.prog = prog
        self.leaf = leaf          # leaf(tree) -> value | None, consulted for the trees of the entry function only
        self.P = Paths(prog, inline=inline or (lambda g: prog.is_new(g)))
        self.max_depth = max_depth
        self.fns_seen = set()
        self.memo = {}

    # ---- entry -------------------------------------------------------------------------------------------
    def call_fn(self, f, args, depth=0):
        if depth > self.max_depth:
            raise Undecided("call depth")
        mk = (f.id, repr(args))
        if mk in self.memo:
            return self.memo[mk]
        self.memo[mk] = v = self._call_fn(f, args, depth)
        return v

    def _call_fn(self, f, args, depth):
        self.fns_seen.add(f.path)
        try:
            summs = self.P.of(f)
        except Unsupported as e:
            raise Undecided("cannot summarise %s: %s" % (f.path, e))
        env = {i + 1: a for i, a in enumerate(args)}
        hit = []
        for sm in summs:
            if sm.effects:
                raise Undecided("%s has effects" % f.path)
            if all(self.fact(fc, env, depth) for fc in sm.facts):
                hit.append(sm)
        if len(hit) != 1:
            # overlapping paths must agree; no path = the summaries are not exhaustive
            vals = {repr(self.eval(sm.ret, env, depth)) for sm in hit}
            if len(vals) != 1:
                raise Undecided("%d paths of %s apply" % (len(hit), f.path))
        return self.eval(hit[0].ret, env, depth)

    def fact(self, fc, env, depth):
        k = fc[0]
        if k in FACT:
            a, b = self.eval(fc[1], env, depth), self.eval(fc[2], env, depth)
            return self.cmp(FACT[k], a, b)
        if k in ("true", "false"):
            v = self.eval(fc[1], env, depth)
            if not isinstance(v, bool):
                raise Undecided("non-boolean condition %s" % show(fc[1], maxd=4))
            return v == (k == "true")
        if k == "variant":
            v = self.eval(fc[1], env, depth)
            if isinstance(v, tuple) and len(v) == 3 and v[0] == "enum":
                return v[1] in fc[2]
            raise Undecided("variant test on %r" % (v,))
        raise Undecided("fact %r" % (k,))

    def cmp(self, op, a, b):
        if isinstance(a, bool) or isinstance(b, bool):
            if op in ("Eq", "Ne") and isinstance(a, bool) and isinstance(b, bool):
                return CMP[op](a, b)
            raise Undecided("ordering of booleans")
        if _scal(a, b):
            if a.dom != b.dom:
                raise Undecided("comparison across domains (%r, %r)" % (a, b))
            return CMP[op](a.v, b.v)
        if isinstance(a, tuple) and isinstance(b, tuple) and len(a) == len(b) and op in ("Eq", "Ne"):
            eq = all(self.cmp("Eq", x, y) for x, y in zip(a, b))
            return eq if op == "Eq" else not eq
        raise Undecided("comparison of %r and %r" % (a, b))

    # ---- trees -------------------------------------------------------------------------------------------
    def eval(self, t, env, depth=0):
        t = strip_refs(t)
        k = t[0]
        if depth == 0 and self.leaf is not None:
            v = self.leaf(t)
            if v is not None:
                return v
        if k == "param":
            if t[1] in env:
                return env[t[1]]
            raise Undecided("unbound parameter %s" % (t[2],))
        if k == "const":
            if isinstance(t[1], bool):
                return t[1]
            raise Undecided("constant %r mixes with order-typed scalars" % (t[1],))
        if k == "field":
            b = self.eval(t[1], env, depth)
            if isinstance(b, tuple) and not (len(b) == 3 and b[0] == "enum") and isinstance(t[2], int) and t[2] < len(b):
                return b[t[2]]
            raise Undecided("field %r of %r" % (t[2], b))
        if k == "index":
            b = self.eval(t[1], env, depth)
            i = strip_refs(t[2])
            if isinstance(b, tuple) and i[0] == "const" and isinstance(i[1], int) and not isinstance(i[1], bool) and i[1] < len(b):
                return b[i[1]]
            raise Undecided("index")
        if k == "agg":
            items = tuple(self.eval(x, env, depth) for x in t[2])
            vo = variant_of(t)
            if vo and vo[0].split("::")[-1] in ("Option", "Result", "Ordering"):
                return ("enum", vo[1], items)
            if isinstance(t[1], str) and t[1].endswith("RangeInclusive") and len(items) >= 2:
                return Range(items[:2])
            if len(items) == 1 and isinstance(items[0], tuple) and isinstance(t[1], str) and t[1] not in ("tuple", "array"):
                return items       # newtype around an array/tuple: keep the nesting (field 0 selects it)
            return items
        if k == "payload":
            v = self.eval(t[1], env, depth)
            if isinstance(v, tuple) and len(v) == 3 and v[0] == "enum" and v[2]:
                return v[2][0]
            raise Undecided("payload")
        if k == "bin":
            if t[1] in CMP:
                return self.cmp(t[1], self.eval(t[2], env, depth), self.eval(t[3], env, depth))
            if t[1] in ("BitAnd", "BitOr", "BitXor"):
                a, b = self.eval(t[2], env, depth), self.eval(t[3], env, depth)
                if isinstance(a, bool) and isinstance(b, bool):
                    return (a and b) if t[1] == "BitAnd" else (a or b) if t[1] == "BitOr" else (a != b)
            raise Undecided("arithmetic %s on order-typed scalars" % t[1])
        if k == "un" and t[1] == "Not":
            v = self.eval(t[2], env, depth)
            if isinstance(v, bool):
                return not v
            raise Undecided("bitwise not")
        if k == "call":
            return self.call(t, env, depth)
        raise Undecided("node %s" % (k,))

    def call(self, t, env, depth):
        path, name = t[1], t[1].split("::")[-1]
        args = [self.eval(a, env, depth) for a in t[3]]
        cands = [f for f in self.prog.by_path.get(path, []) if f.body and f.kind in ("fn", "assoc_fn")]
        if len(cands) == 1 and not cands[0].d.get("trait_def"):
            return self.call_fn(cands[0], args, depth + 1)
        if "RangeInclusive" in path:
            r = args[0] if args else None
            if name == "new" and len(args) == 2:
                return Range(args)
            if isinstance(r, Range):
                if name == "start":
                    return r[0]
                if name == "end":
                    return r[1]
                if name == "into_inner":
                    return (r[0], r[1])
                if name == "contains" and len(args) == 2 and _scal(args[1]):
                    return self.cmp("Le", r[0], args[1]) and self.cmp("Le", args[1], r[1])
                if name == "is_empty":
                    return self.cmp("Gt", r[0], r[1])
        if name in ("min", "max") and len(args) == 2 and _scal(*args) and ("cmp::" in path or "core::num" in path or path.startswith("<i32") or path.startswith("<u32")):
            a_le_b = self.cmp("Le", args[0], args[1])
            return (args[0] if a_le_b else args[1]) if name == "min" else (args[1] if a_le_b else args[0])
        if name == "clamp" and len(args) == 3 and _scal(*args) and self.cmp("Le", args[1], args[2]):
            return args[1] if self.cmp("Lt", args[0], args[1]) else args[2] if self.cmp("Gt", args[0], args[2]) else args[0]
        if name in ("clone", "into", "from", "borrow", "deref", "as_ref", "to_owned") and len(args) == 1:
            return args[0]
        if name in ("lt", "le", "gt", "ge", "eq", "ne") and len(args) == 2 and "cmp::" in path:
            return self.cmp(name.capitalize(), args[0], args[1])
        if name == "cmp" and len(args) == 2 and "cmp::" in path and _scal(*args):
            return ("enum", "Less" if self.cmp("Lt", args[0], args[1]) else "Equal" if self.cmp("Eq", args[0], args[1]) else "Greater", ())
        raise Undecided("call to %s is not a comparison" % path)


def assignments(k, values=None):
    """every weak ordering of k scalars is realised by some assignment over 0..k-1"""
    import itertools
    return itertools.product(range(values if values is not None else k), repeat=k)
