"""CFG utilities over a MIR body dict."""
from functools import lru_cache


def term_succs(t):
    if t is None:
        return []
    k = t["k"]
    if k == "goto":
        return [t["t"]]
    if k == "switch":
        out = [b for _, b in t["targets"]]
        out.append(t["otherwise"])
        return out
    if k in ("call", "assert", "drop"):
        return [t["t"]] if t.get("t") is not None else []
    return []


class CFG:
    def __init__(self, body):
        self.body = body
        self.blocks = body["blocks"]
        self.n = len(self.blocks)
        self.succ = [list(dict.fromkeys(term_succs(b["t"]))) for b in self.blocks]
        self.pred = [[] for _ in range(self.n)]
        for i, ss in enumerate(self.succ):
            for s in ss:
                self.pred[s].append(i)
        self._dom = None
        self._pdom = None
        self._reach = {}

    # ---- reachability -----------------------------------------------------------------
    def reachable_from(self, b):
        if b in self._reach:
            return self._reach[b]
        seen = set()
        st = [b]
        while st:
            x = st.pop()
            if x in seen:
                continue
            seen.add(x)
            st.extend(self.succ[x])
        self._reach[b] = seen
        return seen

    def live_blocks(self):
        return self.reachable_from(0)

    # ---- dominators (iterative) -------------------------------------------------------
    def dominators(self):
        if self._dom is not None:
            return self._dom
        live = self.live_blocks()
        allb = set(live)
        dom = {b: set(allb) for b in live}
        dom[0] = {0}
        changed = True
        order = sorted(live)
        while changed:
            changed = False
            for b in order:
                if b == 0:
                    continue
                ps = [p for p in self.pred[b] if p in live]
                if not ps:
                    continue
                new = set.intersection(*(dom[p] for p in ps)) | {b}
                if new != dom[b]:
                    dom[b] = new
                    changed = True
        self._dom = dom
        return dom

    def dominates(self, a, b):
        """block a dominates block b"""
        d = self.dominators()
        return b in d and a in d[b]

    def exits(self):
        return [i for i in self.live_blocks() if self.blocks[i]["t"] and self.blocks[i]["t"]["k"] == "return"]

    def edge_dominates(self, src, dst, b):
        """Every path from entry to block b passes through the edge src->dst."""
        if b not in self.live_blocks():
            return True
        # remove the edge and test reachability of b
        seen = set()
        st = [0]
        while st:
            x = st.pop()
            if x in seen:
                continue
            seen.add(x)
            for s in self.succ[x]:
                if x == src and s == dst:
                    continue
                st.append(s)
        return b not in seen

    def paths_avoiding(self, start, targets, avoid_blocks):
        """Is some block in `targets` reachable from `start` without entering avoid_blocks?"""
        seen = set()
        st = [start]
        while st:
            x = st.pop()
            if x in seen or x in avoid_blocks:
                continue
            seen.add(x)
            if x in targets:
                return True
            st.extend(self.succ[x])
        return False

    def is_acyclic_from(self, start):
        color = {}

        def dfs(u):
            color[u] = 1
            for v in self.succ[u]:
                c = color.get(v, 0)
                if c == 1:
                    return False
                if c == 0 and not dfs(v):
                    return False
            color[u] = 2
            return True

        import sys
        sys.setrecursionlimit(10000)
        return dfs(start)

    def loop_heads(self):
        """Targets of back edges (DFS)."""
        heads = set()
        color = {}
        st = [(0, iter(self.succ[0]))]
        color[0] = 1
        while st:
            u, it = st[-1]
            try:
                v = next(it)
                c = color.get(v, 0)
                if c == 1:
                    heads.add(v)
                elif c == 0:
                    color[v] = 1
                    st.append((v, iter(self.succ[v])))
            except StopIteration:
                color[u] = 2
                st.pop()
        return heads


def iter_calls(body):
    """Yield (bb, term) for every call terminator."""
    for i, b in enumerate(body["blocks"]):
        t = b["t"]
        if t and t["k"] == "call":
            yield i, t


def callee_path(t):
    f = t["f"]
    return f.get("path")


def callee_resolved_path(t):
    f = t["f"]
    r = f.get("resolved")
    return r["path"] if r else f.get("path")
