"""Compact pretty printer for MIR bodies (debugging / replay output)."""
from . import ty_str, const_str


def place_s(p):
    s = "_%d" % p["l"]
    for e in p["p"]:
        if e == "*":
            s = "(*%s)" % s
        elif isinstance(e, dict):
            if "f" in e:
                s += ".%d" % e["f"]
            elif "idx" in e:
                s += "[_%d]" % e["idx"]
            elif "cidx" in e:
                s += "[%s%d]" % ("-" if e.get("from_end") else "", e["cidx"])
            elif "sub" in e:
                s += "[%d..%s%d]" % (e["sub"], "-" if e.get("from_end") else "", e["to"])
            elif "down" in e:
                s = "(%s as %s)" % (s, e.get("name") or e["down"])
        else:
            s += "." + str(e)
    return s


def constv_s(c):
    if "v" in c:
        v = c["v"]
        if isinstance(v, dict):
            if "char" in v:
                return repr(chr(v["char"]))
            if "str" in v:
                return repr(v["str"])
            if "zst" in v:
                return ty_str(c["ty"])
            return "const{" + ",".join(v.keys()) + "}"
        return str(v)
    if "promoted" in c:
        return "promoted[%d]" % c["promoted"]
    if "uneval" in c:
        return c["uneval"] + "<" + ",".join(ty_str(a) for a in c.get("args", []) if a != "'_") + ">"
    if "c" in c:
        return const_str(c["c"])
    return "const:" + ty_str(c["ty"])


def op_s(o):
    if "copy" in o:
        return place_s(o["copy"])
    if "move" in o:
        return "move " + place_s(o["move"])
    if "const" in o:
        return constv_s(o["const"])
    return str(o)


def rv_s(rv):
    k = rv["k"]
    if k == "use":
        return op_s(rv["a"])
    if k == "ref":
        return ("&mut " if rv["mut"] else "&") + place_s(rv["place"])
    if k == "rawptr":
        return "&raw " + place_s(rv["place"])
    if k == "cast":
        return "%s as %s (%s)" % (op_s(rv["a"]), ty_str(rv["ty"]), rv["cast"])
    if k == "bin":
        return "%s(%s, %s)" % (rv["op"], op_s(rv["a"]), op_s(rv["b"]))
    if k == "un":
        return "%s(%s)" % (rv["op"], op_s(rv["a"]))
    if k == "discr":
        return "discriminant(%s)" % place_s(rv["place"])
    if k == "agg":
        name = rv.get("adt") or rv.get("closure") or rv["agg"]
        if rv["agg"] == "adt":
            name += "::" + rv["variant"]
        return "%s{%s}" % (name, ", ".join(op_s(o) for o in rv["ops"]))
    if k == "repeat":
        return "[%s; %s]" % (op_s(rv["a"]), const_str(rv["n"]))
    return k


def callee_s(f):
    if "indirect" in f:
        return "(" + op_s(f["indirect"]) + ")"
    s = f["path"]
    a = [ty_str(x) for x in f.get("args", []) if x != "'_"]
    if a:
        s += "::<" + ", ".join(a) + ">"
    if "resolved" in f and f["resolved"]["path"] != f["path"]:
        s += " => " + f["resolved"]["path"]
    return s


def term_s(t):
    k = t["k"]
    if k == "goto":
        return "goto bb%d" % t["t"]
    if k == "switch":
        return "switch %s [%s, otherwise bb%d]" % (op_s(t["d"]), ", ".join("%d→bb%d" % (v, b) for v, b in t["targets"]), t["otherwise"])
    if k == "call":
        return "%s = %s(%s) → %s" % (place_s(t["dest"]), callee_s(t["f"]), ", ".join(op_s(a) for a in t["args"]),
                                     "bb%d" % t["t"] if t["t"] is not None else "!")
    if k == "assert":
        m = t["msg"]
        return "assert(%s == %s, %s) → bb%d" % (op_s(t["cond"]), t["expected"], m["kind"] + (":" + m["op"] if "op" in m else ""), t["t"])
    if k == "drop":
        return "drop(%s) → bb%d" % (place_s(t["place"]), t["t"])
    return k


def body_s(fn):
    b = fn.body
    out = ["fn %s  [%s]" % (fn.path, fn.span)]
    for i, l in enumerate(b["locals"]):
        out.append("  let _%d: %s%s" % (i, ty_str(l["ty"]), "  // " + l["name"] if l.get("name") else ""))
    for i, blk in enumerate(b["blocks"]):
        if blk.get("cleanup"):
            continue
        out.append("  bb%d:" % i)
        for s in blk["s"]:
            if s["k"] == "assign":
                out.append("    %s = %s" % (place_s(s["place"]), rv_s(s["rv"])))
            elif s["k"] == "setdiscr":
                out.append("    discriminant(%s) = %d" % (place_s(s["place"]), s["v"]))
            else:
                out.append("    " + s["k"])
        if blk["t"]:
            out.append("    " + term_s(blk["t"]))
    return "\n".join(out)
