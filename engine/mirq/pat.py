"""Tree pattern matching over origin trees.

Pattern language: "_" matches anything; "?name" binds a subtree (consistently); "*suffix"
(in a string position) matches strings ending with suffix; tuples match element-wise,
('bin', op, a, b) with a commutative op also in swapped order; a python set {p1, p2} in a
pattern position means "any of"."""
from .origin import COMMUTATIVE, subst


def match(t, p, b=None):
    """Return bindings dict or None."""
    b = dict(b or {})
    return b if _m(t, p, b) else None


def _m(t, p, b):
    if isinstance(p, str):
        if p == "_":
            return True
        if p.startswith("?"):
            if p in b:
                return b[p] == t
            b[p] = t
            return True
        if p.startswith("*"):
            return isinstance(t, str) and t.endswith(p[1:])
        return t == p
    if isinstance(p, (set, frozenset)):
        for alt in p:
            b2 = dict(b)
            if _m(t, alt, b2):
                b.clear()
                b.update(b2)
                return True
        return False
    if isinstance(p, tuple):
        if isinstance(t, tuple) and len(t) == 5 and len(p) == 4 and t[0] == "call" and p[0] == "call":
            t = t[:4]  # ignore the call-site tag of &mut-taking calls
        if not isinstance(t, tuple) or len(t) != len(p):
            return False
        if len(p) == 3 and p[0] == "param" and t[0] == "param":
            return _m(t[1], p[1], b)     # parameters are identified by position; their names are documentation
        if p and p[0] == "bin" and len(p) == 4 and isinstance(p[1], str) and p[1] in COMMUTATIVE and t[0] == "bin":
            for order in ((2, 3), (3, 2)):
                b2 = dict(b)
                if _m(t[1], p[1], b2) and _m(t[order[0]], p[2], b2) and _m(t[order[1]], p[3], b2):
                    b.clear()
                    b.update(b2)
                    return True
            return False
        b2 = dict(b)
        for x, y in zip(t, p):
            if not _m(x, y, b2):
                return False
        b.clear()
        b.update(b2)
        return True
    return t == p


def strip_casts(t):
    """Remove integer `as` casts (shape comparison of index arithmetic)."""
    return subst(t, lambda n: n[1] if n[0] == "cast" else None)


def strip_refs(t):
    return subst(t, lambda n: n[1] if n[0] in ("ref", "deref") else None)


def find(t, p):
    """All (subtree, bindings) matching p anywhere in t."""
    from .origin import walk
    out = []
    for n in walk(t):
        m = match(n, p)
        if m is not None:
            out.append((n, m))
    return out


def call(suffix, *args, gargs="_"):
    return ("call", "*" + suffix, gargs, tuple(args))
