"""Tiny multivariate polynomial arithmetic over origin-tree leaves (for potential-function rules)."""
from fractions import Fraction


class Poly:
    def __init__(self, terms=None):
        # terms: {tuple(sorted symbols) : Fraction}
        self.t = {k: Fraction(v) for k, v in (terms or {}).items() if v != 0}

    @staticmethod
    def const(c):
        return Poly({(): c})

    @staticmethod
    def sym(s):
        return Poly({(s,): 1})

    def __add__(self, o):
        r = dict(self.t)
        for k, v in o.t.items():
            r[k] = r.get(k, 0) + v
        return Poly(r)

    def __neg__(self):
        return Poly({k: -v for k, v in self.t.items()})

    def __sub__(self, o):
        return self + (-o)

    def __mul__(self, o):
        r = {}
        for k1, v1 in self.t.items():
            for k2, v2 in o.t.items():
                k = tuple(sorted(k1 + k2))
                r[k] = r.get(k, 0) + v1 * v2
        return Poly(r)

    def __eq__(self, o):
        return self.t == o.t

    def subs(self, sym, p):
        """substitute symbol by polynomial p"""
        out = Poly()
        for k, v in self.t.items():
            term = Poly.const(v)
            for s in k:
                term = term * (p if s == sym else Poly.sym(s))
            out = out + term
        return out

    def is_zero(self):
        return not self.t

    def __repr__(self):
        if not self.t:
            return "0"
        parts = []
        for k, v in sorted(self.t.items()):
            parts.append(("%s*" % v if v != 1 or not k else "") + "*".join(str(s) for s in k) if k else str(v))
        return " + ".join(parts)


class NotPolynomial(Exception):
    pass


def tree_to_poly(t, leaf):
    """leaf(tree) -> symbol name or None; arithmetic nodes Add/Sub/Mul and integer consts are interpreted."""
    s = leaf(t)
    if s is not None:
        return Poly.sym(s)
    k = t[0]
    if k == "const" and isinstance(t[1], int) and not isinstance(t[1], bool):
        return Poly.const(t[1])
    if k == "cast":
        return tree_to_poly(t[1], leaf)
    if k == "bin" and t[1] in ("Add", "Sub", "Mul"):
        a, b = tree_to_poly(t[2], leaf), tree_to_poly(t[3], leaf)
        return a + b if t[1] == "Add" else (a - b if t[1] == "Sub" else a * b)
    raise NotPolynomial(repr(t)[:200])


def normal_form(t, consts=()):
    """Normal form of an integer index expression: a polynomial whose symbols are named constants / parameters and
    the truncating quotients / remainders occurring in it (each quotient an opaque symbol named by the normal forms of
    its own operands, constant quotients folded).  Equal normal forms => equal functions (exact integer arithmetic is
    assumed, i.e. no overflow); the converse does not hold."""
    def conv(n):
        if n[0] == "bin" and n[1] in ("Div", "Rem"):
            a, b = conv(n[2]), conv(n[3])
            ca = a.t.get((), 0) if set(a.t) <= {()} else None
            cb = b.t.get((), 0) if set(b.t) <= {()} else None
            if ca is not None and cb not in (None, 0) and ca.denominator == 1 and cb.denominator == 1:
                q = int(ca) // int(cb) if n[1] == "Div" else int(ca) % int(cb)
                return Poly.const(q)
            return Poly.sym("%s(%r,%r)" % (n[1], a, b))
        s_ = None
        if n[0] == "const" and isinstance(n[1], str):
            s_ = n[1]
        elif n[0] == "param":
            s_ = "p%d" % n[1]
        if s_ is not None:
            return Poly.sym(s_)
        if n[0] == "const" and isinstance(n[1], int) and not isinstance(n[1], bool):
            return Poly.const(n[1])
        if n[0] == "cast":
            return conv(n[1])
        if n[0] == "bin" and n[1] in ("Add", "Sub", "Mul"):
            a, b = conv(n[2]), conv(n[3])
            return a + b if n[1] == "Add" else (a - b if n[1] == "Sub" else a * b)
        if n[0] in ("call", "field", "payload", "upvar", "index"):
            return Poly.sym(repr(n))   # an opaque integer value (a field, the result of a pure call)
        raise NotPolynomial(repr(n)[:200])
    try:
        return conv(t)
    except NotPolynomial:
        return None
