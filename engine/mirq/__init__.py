"""mirq — analysis library over egfacts JSON (E2).

Program: the resolved program of one feature configuration (both library crates).
"""
import json, os, sys
from collections import defaultdict

sys.path.insert(0, os.path.dirname(os.path.dirname(os.path.abspath(__file__))))
import extract  # noqa: E402

LIB_CRATES = ("embedded_graphics_core", "embedded_graphics")


def ty_str(t):
    """Render a structured type."""
    if t is None:
        return "?"
    if isinstance(t, str):
        return t
    if "adt" in t:
        a = [ty_str(x) for x in t.get("args", []) if x != "'_"]
        return t["adt"] + ("<" + ", ".join(a) + ">" if a else "")
    if "ref" in t:
        return ("&mut " if t.get("mut") else "&") + ty_str(t["ref"])
    if "ptr" in t:
        return ("*mut " if t.get("mut") else "*const ") + ty_str(t["ptr"])
    if "tuple" in t:
        return "(" + ", ".join(ty_str(x) for x in t["tuple"]) + ")"
    if "array" in t:
        return "[%s; %s]" % (ty_str(t["array"]), const_str(t.get("len")))
    if "slice" in t:
        return "[" + ty_str(t["slice"]) + "]"
    if "param" in t:
        return t["param"]
    if "alias" in t:
        if "self" in t:
            return "<%s as %s>::%s" % (ty_str(t["self"]), t.get("trait"), t.get("name"))
        return t["alias"]
    if "closure" in t:
        return "{closure " + t["closure"] + "}"
    if "fndef" in t:
        return "fn " + t["fndef"]
    if "const" in t:
        return const_str(t["const"])
    for k in ("fnptr", "dyn", "other"):
        if k in t:
            return str(t[k])
    return json.dumps(t)


def const_str(c):
    if c is None:
        return "?"
    if isinstance(c, (int, bool, str)):
        return str(c)
    if "cparam" in c:
        return c["cparam"]
    if "uneval" in c:
        return c["uneval"] + ("=" + str(c["value"]) if "value" in c else "")
    if "char" in c:
        return repr(chr(c["char"]))
    return json.dumps(c)


def ty_walk(t):
    """Yield every structured sub-type (pre-order)."""
    if t is None or isinstance(t, (str, int, bool)):
        if isinstance(t, str):
            yield t
        return
    yield t
    for k in ("args", "tuple"):
        for x in t.get(k, []) or []:
            yield from ty_walk(x)
    for k in ("ref", "ptr", "array", "slice", "self", "const"):
        if k in t and isinstance(t[k], dict):
            yield from ty_walk(t[k])


def ty_params(t):
    """Names of generic parameters (type and const) mentioned in a type / generic arg."""
    out = set()
    for s in ty_walk(t):
        if isinstance(s, dict):
            if "param" in s:
                out.add(s["param"])
            if "cparam" in s:
                out.add(s["cparam"])
            if "len" in s and isinstance(s["len"], dict):
                out |= ty_params(s["len"])
            if "const" in s and isinstance(s["const"], dict):
                c = s["const"]
                if "cparam" in c:
                    out.add(c["cparam"])
                for a in c.get("args", []) or []:
                    out |= ty_params(a)
            if "uneval" in s:
                for a in s.get("args", []) or []:
                    out |= ty_params(a)
    return out


def is_adt(t, path):
    return isinstance(t, dict) and t.get("adt") == path


class Fn:
    __slots__ = ("d", "id", "path", "name", "kind", "impl", "body", "crate", "parent_fn", "span", "promoted", "prog")

    def __init__(self, d, crate, prog):
        self.d = d
        self.id = d["id"]
        self.path = d["path"]
        self.name = d["name"]
        self.kind = d["kind"]
        self.impl = d.get("impl")
        self.body = d.get("body")
        self.promoted = d.get("promoted", [])
        self.crate = crate
        self.parent_fn = d.get("parent_fn")
        self.span = d.get("span", "")
        self.prog = prog

    def __repr__(self):
        return "<Fn %s>" % self.id

    @property
    def generics(self):
        return self.d.get("generics", [])

    @property
    def output(self):
        return self.d.get("output")

    def local_ty(self, l):
        return self.body["locals"][l]["ty"]

    def local_name(self, l):
        return self.body["locals"][l].get("name")

    def root_fn(self):
        f = self
        while f.parent_fn and f.parent_fn in self.prog.fns:
            f = self.prog.fns[f.parent_fn]
        return f

    def key(self):
        """Stable human key (no line numbers, no impl indices)."""
        if self.kind == "closure":
            r = self.root_fn()
            # closures are numbered within their parent: {closure#k}
            suffix = self.id[len(r.id):] if self.id.startswith(r.id) else self.id
            return r.path + suffix
        return self.path


_REF_FIELDS = None


def _reference_field_names(a):
    """Private fields are named by rules; a refactoring may rename them.  Where a type of the analysed tree has, variant by
    variant, the same number of fields with the same types in the same order as in the reference tree, its fields get
    their reference names (rules/reference_fields.json) — a rename then changes nothing the rules see."""
    global _REF_FIELDS
    if _REF_FIELDS is None:
        import json
        fn = os.path.join(extract.VERIF, "rules", "reference_fields.json")
        _REF_FIELDS = json.load(open(fn)) if os.path.exists(fn) else {}
    ref = _REF_FIELDS.get(a["path"])
    if not ref or len(ref) != len(a["variants"]):
        return
    for rv, v in zip(ref, a["variants"]):
        if len(rv) != len(v["fields"]) or any(rt != ty_str(f["ty"]) for (rn, rt), f in zip(rv, v["fields"])):
            return
    for rv, v in zip(ref, a["variants"]):
        for (rn, rt), f in zip(rv, v["fields"]):
            if f["name"] != rn:
                f["orig_name"] = f["name"]
                f["name"] = rn


class Program:
    def __init__(self, config="default", sha=None):
        self.config = config
        d = extract.facts_dir(config, sha)
        self.dir = d
        self.crates = {}
        self.fns = {}
        self.impls = {}
        self.adts = {}
        self.traits = {}
        for c in LIB_CRATES:
            data = extract.load_crate(os.path.join(d, c + ".json"), c)
            self.crates[c] = data
            for f in data["fns"]:
                self.fns[f["id"]] = Fn(f, c, self)
            for i in data["impls"]:
                i["crate"] = c
                self.impls[i["id"]] = i
            for a in data["adts"]:
                self.adts[a["path"]] = a
                _reference_field_names(a)
            for t in data["traits"]:
                self.traits[t["path"]] = t
        self.by_path = defaultdict(list)
        self.by_name = defaultdict(list)
        for f in self.fns.values():
            self.by_path[f.path].append(f)
            self.by_name[f.name].append(f)
        self.closures_of = defaultdict(list)
        for f in self.fns.values():
            if f.parent_fn:
                self.closures_of[f.parent_fn].append(f)

    # ---- reference tree ----------------------------------------------------------------
    _REF = None

    def is_new(self, f):
        """True for a function that does not exist (by def path) in the reference tree: rules treat such
        functions as helpers introduced by an edit and look through them (inline) instead of matching them."""
        if Program._REF is None:
            ref = os.path.join(extract.VERIF, "rules", "reference_fns.txt")
            Program._REF = set(l.rstrip("\n") for l in open(ref) if l and not l.startswith("#"))
        r = f.root_fn()
        return r.path not in Program._REF

    def uses_of(self, f):
        """root functions that call f or mention it as a function item (`.map(helper::<O>)`)"""
        if not hasattr(self, "_users"):
            users = defaultdict(set)
            for g in self.fns.values():
                if not g.body:
                    continue
                r = g.root_fn().id
                for b in g.body["blocks"]:
                    ops = []
                    for s_ in b["s"]:
                        if s_["k"] == "assign":
                            rv = s_["rv"]
                            ops += [rv[k] for k in ("a", "b") if k in rv] + list(rv.get("ops", []) or [])
                    t = b["t"]
                    if t and t["k"] == "call":
                        ops += list(t["args"])
                        p_ = (t["f"].get("resolved") or t["f"]).get("path", "") or ""
                        for h in self.by_path.get(p_, []):
                            users[h.root_fn().id].add(r)
                    for o in ops:
                        c = o.get("const") if isinstance(o, dict) else None
                        ty = c.get("ty") if isinstance(c, dict) else None
                        if isinstance(ty, dict) and "fndef" in ty:
                            for h in self.by_path.get(ty["fndef"], []):
                                users[h.root_fn().id].add(r)
            self._users = users
        return self._users.get(f.root_fn().id, set())

    def owners(self, f, _seen=()):
        """the reference (not new) root functions on whose behalf f runs: f itself if it exists in the reference tree,
        otherwise the owners of everything that uses it (a helper nobody uses owns itself)"""
        r = f.root_fn()
        if not self.is_new(r) or r.id in _seen:
            return {r.id}
        us = self.uses_of(r) - {r.id}
        if not us:
            return {r.id}
        out = set()
        for u in us:
            out |= self.owners(self.fns[u], _seen + (r.id,))
        return out

    def new_helpers_of(self, f):
        """helpers new to the tree that f (or one of its closures / such helpers) calls or mentions, transitively"""
        roots = {f.root_fn().id}
        out = []
        news = [g for g in self.fns.values() if g.body and g.kind in ("fn", "assoc_fn") and self.is_new(g)]
        changed = True
        while changed:
            changed = False
            for g in news:
                if g.id in roots:
                    continue
                if self.uses_of(g) & roots:
                    roots.add(g.id)
                    out.append(g)
                    changed = True
        return out

    # ---- lookups -------------------------------------------------------------------
    def fn_by_path(self, path):
        """Unique fn with this def path string; fail closed if missing/ambiguous."""
        c = self.by_path.get(path, [])
        if len(c) != 1:
            raise AnchorError("anchor %r matches %d functions" % (path, len(c)))
        return c[0]

    def find_fns(self, pred):
        return [f for f in self.fns.values() if pred(f)]

    def impl_of(self, f):
        return self.impls.get(f.impl) if f.impl else None

    def impls_of_trait(self, trait_path):
        return [i for i in self.impls.values() if i.get("trait") == trait_path]

    def method(self, self_adt, name, trait=None):
        """Assoc fn `name` in an impl whose self type is ADT `self_adt` (optionally of `trait`)."""
        out = []
        for i in self.impls.values():
            st = i["self_ty"]
            if isinstance(st, dict) and st.get("adt") == self_adt and (trait is None and True or i.get("trait") == trait):
                if trait is None and False:
                    pass
                if name in i["fns"]:
                    out.append(self.fns[i["fns"][name]])
        return out

    def method1(self, self_adt, name, trait="*"):
        """Exactly one method; trait='*' any, None inherent only."""
        out = []
        for i in self.impls.values():
            st = i["self_ty"]
            if isinstance(st, dict) and st.get("adt") == self_adt and name in i["fns"]:
                if trait == "*" or i.get("trait") == trait:
                    out.append(self.fns[i["fns"][name]])
        if len(out) != 1:
            raise AnchorError("anchor %s::%s (trait=%s) matches %d functions" % (self_adt, name, trait, len(out)))
        return out[0]


class AnchorError(Exception):
    pass
