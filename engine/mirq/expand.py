"""Interprocedural expansion of origin trees: inline crate-local callees and the closures
handed to Option/Result/Iterator combinators (DESIGN.md A.2 item 5)."""
from .origin import Origins, subst, mk_phi

# combinator -> (kind); closure is args[1], subject args[0]
OPT_MAP = {"core::option::Option::<T>::map": "map", "core::option::Option::<T>::and_then": "and_then",
           "core::option::Option::<T>::inspect": "inspect", "core::option::Option::<T>::filter": "filter",
           "core::result::Result::<T, E>::map": "map", "core::result::Result::<T, E>::and_then": "and_then",
           "core::option::Option::<T>::map_or": "map_or", "core::option::Option::<T>::unwrap_or_else": "unwrap_or_else"}


class Expander:
    def __init__(self, prog):
        self.prog = prog
        self._ret = {}

    def ret(self, f):
        if f.id not in self._ret:
            self._ret[f.id] = Origins(f).return_origin()
        return self._ret[f.id]

    def local_fn(self, path):
        c = self.prog.by_path.get(path, [])
        c = [f for f in c if f.body and f.kind in ("fn", "assoc_fn")]
        return c[0] if len(c) == 1 else None

    def bind(self, f, body_tree, args, gargs=(), caps=None, first_param=1):
        gnames = [g["name"] for g in f.generics]
        gmap = {}
        for i, g in enumerate(gargs):
            if i < len(gnames):
                gmap[gnames[i]] = g

        def r(n):
            if n[0] == "param":
                k = n[1] - first_param
                if 0 <= k < len(args):
                    return args[k]
            if n[0] == "upvar" and caps is not None and n[1] < len(caps):
                return caps[n[1]]
            if n[0] == "const" and isinstance(n[1], str) and n[1] in gmap:
                g = gmap[n[1]]
                try:
                    return ("const", int(g))
                except ValueError:
                    return None
            return None
        return subst(body_tree, r)

    def inline(self, tree, depth=4, only=None):
        """Expand calls bottom-up.  only(path)->bool restricts which local fns are inlined."""
        if depth <= 0:
            return tree

        def r(n):
            if n[0] != "call":
                return None
            path, gargs, args = n[1], n[2], n[3]
            if path in OPT_MAP and len(args) >= 2 and args[-1][0] == "agg" and str(args[-1][1]).startswith("closure:"):
                clo = self.prog.fns.get(args[-1][1][len("closure:"):])
                if clo is not None and clo.body:
                    bt = self.ret(clo)
                    payload = ("payload", args[0])
                    bt = self.bind(clo, bt, [payload], caps=args[-1][2], first_param=2)
                    bt = self.inline(bt, depth - 1, only)
                    return ("comb", OPT_MAP[path], args[0], bt) + ((args[1],) if len(args) == 3 else ())
                return None
            f = self.local_fn(path)
            if f is not None and (only is None or only(path)):
                bt = self.bind(f, self.ret(f), list(args), gargs=gargs)
                return self.inline(bt, depth - 1, only)
            return None
        return subst(tree, r)
