"""Path summaries — one normal form for the many ways of writing the same small function.

A loop-free function is described by the set of its entry→return paths; each path by
    facts    what must hold for the path to be taken (canonical facts, see below)
    effects  what it does besides returning, in order:  ('write', lvalue, value) for a store through a pointer
             that comes from outside (a parameter, a captured reference, the payload of a `get_mut`), and
             ('call', node) for a call that receives such a pointer and is not known to be pure
    ret      the returned value (canonical origin tree)

The summaries look *through* the ways the same computation can be spelled:
  * `Option`/`Result` combinators with closures or function items (`map`, `and_then`, `ok_or`, `map_or`, `filter`,
    `unwrap_or`, `is_some`, `?` = `Try::branch` + `from_residual`, …) are replaced by the case split they stand for,
    the closure body being summarised path by path and spliced in at the call (with its effects);
  * calls to crate-local functions selected by `inline` (by default: helpers that do not exist in the reference
    tree, i.e. were introduced by an edit) are replaced by the callee's own path summaries;
  * a value constructed on the path and inspected later (`Some(x)` then `match`) is evaluated, and paths whose
    conditions contradict the constructed value are dropped;
  * comparisons are brought to lt / le / eq / ne facts, `Into::into` to the `From::from` it calls, references are
    erased, commutative operands sorted.
So `x.get(i).map(|b| b >> s)`, `match x.get(i) { Some(b) => Some(b >> s), None => None }` and
`let b = x.get(i)?; Some(b >> s)` all have the same two summaries.

This is path-sensitive dataflow over MIR; no path condition is handed to a solver and nothing is executed.

Facts:  ('lt', a, b) ('le', a, b) ('eq', a, b) ('ne', a, b) ('true', t) ('false', t) ('variant', x, (names…))
        ('switch', d, lit)  (integer switch that is none of the above)
"""
from . import ty_str
from .cfg import CFG
from .origin import Origins, subst, walk, mk_bin, enum_paths, TooManyPaths, show, _pe, const_tree
from .canon import Canon, is_closure, is_fnitem, fnitem_path
from .pat import strip_refs

OPT = "core::option::Option"
RES = "core::result::Result"
CF = "core::ops::control_flow::ControlFlow"
STD_VARIANTS = {OPT: ("None", "Some"), RES: ("Ok", "Err"), CF: ("Continue", "Break")}

# calls that take `&mut` to outside state but neither write through it nor keep it beyond their result
PURE_MUT = {"get_mut", "chunks_mut", "chunks_exact_mut", "iter_mut", "as_mut", "as_mut_slice", "split_at_mut",
            "deref_mut", "index_mut", "borrow_mut", "first_mut", "last_mut", "as_deref_mut", "by_ref", "get_unchecked_mut",
            "split_first_mut", "split_last_mut", "as_mut_ptr"}


class Unsupported(Exception):
    pass


class HasLoop(Unsupported):
    pass


def some(v):
    return ("agg", OPT + "::Some", (v,))


NONE = ("agg", OPT + "::None", ())
CONTINUES = ("call", "search::continues", (), ())   # loops walked once: the search goes on with the next item


def continues(it):
    """the outcome of a search (over iterator `it`) that goes on after the one item that was looked at"""
    return ("call", "search::continues", (), (it,))


def is_continues(n):
    return isinstance(n, tuple) and len(n) >= 2 and n[0] == "call" and n[1] == "search::continues"


def ok(v):
    return ("agg", RES + "::Ok", (v,))


def err(v):
    return ("agg", RES + "::Err", (v,))


def variant_of(t):
    """(enum path, variant name) of a constructed enum value, else None"""
    if t[0] == "agg" and isinstance(t[1], str) and "::" in t[1] and not t[1].startswith("closure:"):
        p, v = t[1].rsplit("::", 1)
        return p, v
    return None


class Summ:
    __slots__ = ("facts", "effects", "ret", "trail", "partial")

    def __init__(self, facts, effects, ret, trail=()):
        self.facts, self.effects, self.ret, self.trail = tuple(facts), tuple(effects), ret, trail
        self.partial = False

    def __repr__(self):
        return "<Summ if %s do %s => %s>" % ([show_fact(f) for f in self.facts], [show_eff(e) for e in self.effects], show(self.ret, maxd=6) if self.ret is not None else "(next iteration)")

    def writes(self):
        return [e for e in self.effects if e[0] == "write"]

    def calls(self):
        return [e for e in self.effects if e[0] == "call"]


def show_fact(f):
    if f[0] in ("lt", "le", "eq", "ne"):
        return "%s %s %s" % (show(f[1], maxd=5), {"lt": "<", "le": "<=", "eq": "==", "ne": "!="}[f[0]], show(f[2], maxd=5))
    if f[0] == "variant":
        return "%s is %s" % (show(f[1], maxd=5), "|".join(f[2]))
    if f[0] in ("true", "false"):
        return ("" if f[0] == "true" else "!") + show(f[1], maxd=5)
    return "%s(%s == %s)" % (f[0], show(f[1], maxd=5), f[2])


def show_eff(e):
    if e[0] == "write":
        return "%s := %s" % (show(e[1], maxd=5), show(e[2], maxd=5))
    return show(e[1], maxd=5)


class _State:
    __slots__ = ("env", "facts", "effects", "dead")

    def __init__(self, env=None, facts=None, effects=None):
        self.env = dict(env or {})
        self.facts = list(facts or [])
        self.effects = list(effects or [])

    def fork(self):
        return _State(self.env, self.facts, self.effects)


class Paths:
    """Path summaries of the functions of a Program."""

    def __init__(self, prog, inline=None, depth=4, limit=1500, path_limit=400, loops="refuse", local_effects=False, havoc=False):
        self.prog = prog
        self.havoc = havoc   # loops="once": a local assigned in a loop body reads as ('loopvar', ..) when its value would
        #                      come from before the loop — the summaries then describe an arbitrary iteration, not the first
        self.canon = Canon(prog)
        self.canon.lam_args = False   # closures stay aggregates (with their captures): rules summarise them path by path
        self.inline = inline or (lambda g: prog.is_new(g))
        self.depth = depth
        self.limit = limit
        self.path_limit = path_limit
        self.local_effects = local_effects   # also record calls that receive `&mut` to a local of the function
        self.loops = loops   # "refuse": functions with loops are Unsupported; "once": every loop body is walked at most
        #                      once and a path may end at a back edge (Summ.partial, ret None) — for rules about what one
        #                      iteration does, never for whole-function claims
        self._memo = {}

    # ---- public ----------------------------------------------------------------------------------------
    def of(self, fn, depth=0, seed=None):
        """[Summ] over fn's own parameters (closures: ('upvar', k, name) and ('param', i>=2)).  seed: {upvar node: value} —
        captures that are themselves callables are given to the closure before it is summarised, so that combinators
        and searches inside it that take the captured callable expand (`let p = |x| ..; opt.then(|| it.find(p))`)."""
        key = (fn.id, depth >= self.depth) if not seed else (fn.id, depth >= self.depth, repr(sorted(seed.items(), key=repr)))
        if key in self._memo:
            r = self._memo[key]
            if r is None:
                raise Unsupported("recursive summary of %s" % fn.path)
            if isinstance(r, Exception):
                raise r
            return r
        self._memo[key] = None
        saved_seed = getattr(self, "_seed", None)
        self._seed = seed
        try:
            try:
                r = self._summarise(fn, depth)
            except HasLoop:
                # a loop over an array literal (a table of cases) is unrolled; any other loop stays refused
                if self.loops != "refuse":
                    raise
                saved = self.loops
                self.loops = "unroll"
                try:
                    r = self._summarise(fn, depth)
                except Unsupported:
                    raise HasLoop("%s has a loop" % fn.path)
                finally:
                    self.loops = saved
        except Unsupported as e:
            self._memo[key] = e
            raise
        except Exception:
            del self._memo[key]
            raise
        finally:
            self._seed = saved_seed
        self._memo[key] = r
        return r

    def local_fn(self, path):
        c = [g for g in self.prog.by_path.get(path, []) if g.body and g.kind in ("fn", "assoc_fn")]
        return c[0] if len(c) == 1 else None

    # ---- one function ----------------------------------------------------------------------------------
    def _summarise(self, fn, depth):
        cfg = CFG(fn.body)
        partial = set()
        if cfg.loop_heads():
            if self.loops == "unroll":
                paths = _paths_unroll(cfg, self.path_limit * 4)
            elif self.loops != "once":
                raise HasLoop("%s has a loop" % fn.path)
            else:
                paths = _paths_once(cfg, self.path_limit, partial)
        else:
            try:
                paths = enum_paths(cfg, 0, None, self.path_limit)
            except TooManyPaths:
                raise Unsupported("too many paths in %s" % fn.path)
        out = []
        for path in paths:
            events = self._events(fn, path)
            is_partial = tuple(path) in partial
            for st, ret in self._expand(fn, events, depth):
                facts, effects, ret = _slice_patterns(_dedup(st.facts), st.effects, ret)
                sm = Summ(facts, effects, None if is_partial else ret, tuple(path))
                sm.partial = is_partial
                out.append(sm)
                if len(out) > self.limit:
                    raise Unsupported("too many summaries in %s" % fn.path)
        return out

    def _loop_assigned(self, fn):
        """{loop head: locals directly assigned in the loop body, ('body', head): the body's blocks}"""
        memo = self.__dict__.setdefault("_loop_assigned_memo", {})
        if fn.id in memo:
            return memo[fn.id]
        cfg = CFG(fn.body)
        out = {}
        blocks = fn.body["blocks"]
        for h in cfg.loop_heads():
            fwd, todo = set(), [h]
            while todo:
                u = todo.pop()
                for v in cfg.succ[u]:
                    if v not in fwd:
                        fwd.add(v)
                        todo.append(v)
            bwd, todo = set(), [h]
            while todo:
                u = todo.pop()
                for v in cfg.pred[u]:
                    if v not in bwd:
                        bwd.add(v)
                        todo.append(v)
            body = (fwd & bwd) | {h}
            ls = set()
            for b in body:
                for st in blocks[b]["s"]:
                    if st["k"] == "assign" and "*" not in st["place"]["p"]:     # a store through a pointer does not assign the pointer
                        ls.add(st["place"]["l"])
                t = blocks[b]["t"]
                if t and t["k"] == "call" and t.get("dest"):
                    ls.add(t["dest"]["l"])
            out[h] = ls
            out[("body", h)] = body
        memo[fn.id] = out
        return out

    def _events(self, fn, path):
        po = Origins(fn, path=path)
        po.inline_new = False
        if self.havoc:
            po.havoc = self._loop_assigned(fn)
        blocks = fn.body["blocks"]
        ev = []
        single = self._single_assign(fn)

        def res(tree, k, j):
            """`base[_n]`: the index local is a single-assignment temporary; give it its value"""
            def r(n):
                if n[0] == "index" and isinstance(n[2], tuple) and n[2] and n[2][0] == "local" and n[2][1] in single:
                    return ("index", n[1], res(po._local(n[2][1], (), k, j), k, j))
                return None
            return subst(tree, r) if any(x[0] == "index" for x in walk(tree)) else tree
        for k, b in enumerate(path):
            blk = blocks[b]
            for j, s in enumerate(blk["s"]):
                if s["k"] == "assign" and "*" in s["place"]["p"]:
                    pl = s["place"]
                    proj = tuple(_pe(e) for e in pl["p"])
                    d = proj.index("*")
                    ptr = po._local(pl["l"], proj[:d], k, j)
                    if ptr_root(ptr)[0] not in ("param", "upvar", "unknown", "loop", "callind"):
                        continue  # store into a local through a local reference: seen by the origin trees
                    if fn.kind == "closure" and pl["l"] == 1:
                        lv = po._entry(1, proj)   # a captured variable: ('upvar', k, name) with the rest of the projection
                    else:
                        lv = po._apply(("deref", ptr), proj[d + 1:])
                    ev.append(("write", res(lv, k, j), res(po._rvalue(s["rv"], k, j), k, j)))
            t = blk["t"]
            if not t:
                continue
            if t["k"] == "call":
                n = len(blk["s"])
                node = res(po._call(t, k), k, n)
                ext = False
                for a in t["args"]:
                    pl = a.get("move") or a.get("copy")
                    if pl is None:
                        continue
                    ty = _place_ty(fn.body, pl)
                    if _has_mut_ref(ty):
                        if not pl["p"] and isinstance(ty, dict) and "ref" in ty:
                            tgt = po._mut_ref_target(pl["l"], k, n, 0)
                            if tgt is not None and "*" not in tgt[1] and tgt[0] > fn.body["argc"]:
                                if self.local_effects:
                                    ext = True
                                continue  # `&mut local`: the callee can only change a local of this function
                        if ptr_root(po.operand(a, k, n))[0] in ("param", "upvar", "unknown", "loop", "callind"):
                            ext = True
                        elif fn.kind == "closure" and not pl["p"] and _borrows_closure_state(blk, pl["l"]):
                            ext = True   # `&mut (*_1).k`: the callee changes state the closure keeps between calls
                if not ext and node[0] == "call" and node[1].split("::")[-1] in ("call", "call_mut", "call_once") and "::function::Fn" in node[1] and node[3]:
                    # calling a callable the function was handed (by value or by reference) is an observable act of the
                    # function, whatever the callable turns out to be
                    b_ = node[3][0]
                    while b_[0] in ("ref", "deref", "mut", "update"):
                        b_ = b_[1]
                    if b_[0] in ("param", "upvar"):
                        ext = True
                ev.append(("call", node, ext, _ret_ty(fn.body, t)))
            elif t["k"] == "switch" and k + 1 < len(path):
                nxt = path[k + 1]
                d = res(po.operand(t["d"], k, po.end(k)), k, po.end(k))
                vals = [v for v, bb in t["targets"] if bb == nxt]
                if vals and nxt != t["otherwise"]:
                    lit = tuple(vals)
                elif vals:
                    lit = ("any",)
                else:
                    lit = ("not",) + tuple(v for v, _ in t["targets"])
                dpl = t["d"].get("move") or t["d"].get("copy")
                dty = _place_ty(fn.body, dpl) if dpl is not None else ("bool" if isinstance(t["d"].get("const", {}).get("v"), bool) else None)
                ev.append(("cond", d, lit, self._discr_ty(fn, path, k, t), dty == "bool"))
        last = len(path) - 1
        tl = blocks[path[last]]["t"]
        hv = getattr(po, "havoc", None)
        if hv and not (tl and tl["k"] == "return"):
            # a path that ends at a back edge: what this iteration leaves in the named locals the loop assigns
            cfg = CFG(fn.body)
            for h in cfg.succ[path[last]]:
                if h in hv and h in path:
                    for l in sorted(hv[h]):
                        nm = fn.body["locals"][l].get("name")
                        if not nm or l <= fn.body["argc"]:
                            continue
                        lvv = ("loopvar", l, nm)
                        try:
                            v = res(po._local(l, (), last, po.end(last)), last, po.end(last))
                        except Exception:
                            continue
                        if v != lvv:
                            ev.append(("write", lvv, v))
        ev.append(("ret", res(po.return_origin(), last, po.end(last)) if tl and tl["k"] == "return" else UNIT))
        return ev

    def _single_assign(self, fn):
        key = ("sa", fn.id)
        if key not in self._memo:
            cnt = {}
            for b in fn.body["blocks"]:
                for s in b["s"]:
                    if s["k"] == "assign" and not s["place"]["p"]:
                        cnt[s["place"]["l"]] = cnt.get(s["place"]["l"], 0) + 1
                    elif s["k"] == "assign":
                        cnt[s["place"]["l"]] = cnt.get(s["place"]["l"], 0) + 2
                t = b["t"]
                if t and t["k"] == "call":
                    cnt[t["dest"]["l"]] = cnt.get(t["dest"]["l"], 0) + 1
            self._memo[key] = {l for l, c in cnt.items() if c == 1 and l > fn.body["argc"]}
        return self._memo[key]

    def _discr_ty(self, fn, path, k, t):
        """type of the place whose discriminant the switch of block path[k] inspects (None: not a discriminant)"""
        pl = t["d"].get("move") or t["d"].get("copy")
        if pl is None or pl["p"]:
            return None
        for s in reversed(fn.body["blocks"][path[k]]["s"]):
            if s["k"] == "assign" and s["place"]["l"] == pl["l"] and not s["place"]["p"]:
                if s["rv"]["k"] == "discr":
                    return _place_ty(fn.body, s["rv"]["place"], self.prog)
                return None
        return None

    # ---- expansion ---------------------------------------------------------------------------------------
    def _expand(self, fn, events, depth):
        states = [_State()]
        if getattr(self, "_seed", None):
            states[0].env.update(self._seed)
        ret = None
        for e in events:
            if e[0] == "write":
                lv0 = subst(e[1], lambda n: n[1] if n[0] in ("update", "mut") else None)   # the place, not its history
                for st in states:
                    st.effects.append(("write", self._val(st, lv0), self._val(st, e[2])))
            elif e[0] == "cond":
                nxt = []
                for st in states:
                    nxt += self._cond(st, e)
                states = nxt
            elif e[0] == "call":
                nxt = []
                for st in states:
                    nxt += self._call(st, e, depth)
                states = nxt
                if len(states) > self.limit:
                    raise Unsupported("too many cases in %s" % fn.path)
            elif e[0] == "ret":
                ret = e[1]
        return [(st, _refine(self._val(st, ret), st.facts)) for st in states]

    def _ctor_map(self, path):
        """field index -> argument index for a crate-local function that only builds a struct from its parameters"""
        if not hasattr(self, "_ctors"):
            self._ctors = {}
        c = self._ctors.get(path, False)
        if c is not False:
            return c
        res = None
        cands = [g for g in self.prog.by_path.get(path, []) if g.body and g.kind in ("fn", "assoc_fn")]
        if len(cands) == 1 and len([b for b in cands[0].body["blocks"] if b["t"] and b["t"]["k"] == "return"]) == 1 and len(cands[0].body["blocks"]) == 1:
            try:
                ro = Origins(cands[0]).return_origin()
            except Exception:
                ro = None
            while ro is not None and ro[0] in ("ref", "deref"):
                ro = ro[1]
            if ro is not None and ro[0] == "agg" and isinstance(ro[1], str) and "::" in ro[1] and not ro[1].startswith("closure:"):
                adt = self.prog.adts.get(ro[1].rsplit("::", 1)[0])
                if adt is not None and adt["kind"] == "struct" and all(o[0] == "param" for o in ro[2]):
                    res = [o[1] - 1 for o in ro[2]]
        self._ctors[path] = res
        return res

    def _compose(self, t, env):
        """`mut(before, call, sub)` = the value of a place after `call`; when the call was inlined its write effects are
        known: rebuild the value as the place before the call with those writes applied in order (update nodes, and mut
        nodes for the opaque mutating calls the callee made itself)"""
        hist = lambda x: subst(x, lambda n: n[1] if n[0] in ("update", "mut") else None)

        def rel(base, lv):
            path = []
            while lv != base:
                if lv[0] == "field" and isinstance(lv[2], int):
                    path.append(("f", lv[2]))
                    lv = lv[1]
                elif lv[0] in ("deref", "ref"):
                    lv = lv[1]
                else:
                    return None
            return tuple(reversed(path))

        def comp(n):
            if not isinstance(n, tuple) or not n:
                return n
            if not isinstance(n[0], str):
                return tuple(comp(x) if isinstance(x, tuple) else x for x in n)
            wk = None
            if n[0] == "mut" and len(n) >= 4 and isinstance(n[2], tuple) and n[2] and n[2][0] == "call":
                if ("writes", n[2]) in env:
                    wk = ("writes", n[2])
                else:
                    # the key under which the call was recorded has its arguments composed and expanded
                    k2 = n[2][:3] + (tuple(subst(comp(a), lambda m: env.get(m)) for a in n[2][3]),) + tuple(n[2][4:])
                    if ("writes", k2) in env:
                        wk = ("writes", k2)
            if wk is not None:
                before = comp(n[1])
                base = hist(before)
                while base[0] in ("ref", "deref"):
                    base = base[1]
                after = before
                for ef in env[wk]:
                    if ef[0] == "write":
                        r_ = rel(base, hist(ef[1]))
                        if r_ is None:
                            continue            # a write to some other object
                        after = ef[2] if r_ == () else ("update", after, r_, ef[2])
                    elif ef[0] == "call" and ef[1][0] == "call" and ef[1][3]:
                        r_ = rel(base, hist(ef[1][3][0]))
                        if r_ is not None:
                            after = ("mut", after, ef[1], r_)
                return after
            return tuple([n[0]] + [comp(x) if isinstance(x, tuple) else x for x in n[1:]])
        return comp(t)

    def _val(self, st, t):
        env = st.env
        if env and any(isinstance(k, tuple) and k and k[0] == "writes" for k in env):
            t = self._compose(t, env)
            t = subst(t, lambda n: None)   # re-simplify field-of-update / field-of-mut
        t = subst(t, lambda n: env.get(n) if env else None)
        if env and any(isinstance(k, tuple) and k and k[0] == "unit" for k in env):
            t = _unit_calls(t, env)
        return _simplify(self.canon.tree(_norm_calls(t)), self._ctor_map)

    # conditions -----------------------------------------------------------------------------------------
    def _cond(self, st, e):
        _, d, lit, dty = e[:4]
        is_bool = e[4] if len(e) > 4 else True
        d = self._val(st, d)
        if d[0] == "discr":
            x = d[1]
            names = _variant_names(self.prog, dty)
            vo = variant_of(x)
            if names is None:
                if vo is not None:
                    raise Unsupported("discriminant of unknown enum type")
                st.facts.append(("switch", d, lit))
                return [st]
            sel = _lit_names(names, lit)
            if vo is not None:
                return [st] if vo[1] in sel else []
            for f in st.facts:  # contradiction with an earlier fact about the same value
                if f[0] == "variant" and f[1] == x:
                    sel = tuple(n for n in sel if n in f[2])
            if not sel:
                return []
            st.facts.append(("variant", x, tuple(sorted(sel))))
            return [st]
        tv = _truth(lit) if is_bool else None
        if not is_bool and d[0] != "discr" and not (d[0] == "const" and isinstance(d[1], bool)):
            # integer / char switch: value == v, value != v (single other target), or a set of values
            if d[0] == "const" and isinstance(d[1], str) and len(d[1]) == 1:
                d = ("const", ord(d[1]))
            if not (d[0] == "const" and isinstance(d[1], int)):
                if len(lit) == 1 and isinstance(lit[0], int):
                    return [st] if _add_facts(st.facts, [("eq", d, ("const", lit[0]))]) else []
                if lit[0] == "not" and len(lit) == 2:
                    return [st] if _add_facts(st.facts, [("ne", d, ("const", lit[1]))]) else []
                st.facts.append(("switch", d, lit))
                return [st]
        if d[0] == "const" and isinstance(d[1], bool) and tv is not None:
            return [st] if d[1] == tv else []
        if d[0] == "const" and isinstance(d[1], int) and not isinstance(d[1], bool):
            if lit[0] == "not":
                return [st] if d[1] not in lit[1:] else []
            if lit[0] == "any":
                return [st]
            return [st] if d[1] in lit else []
        if tv is None:
            st.facts.append(("switch", d, lit))
            return [st]
        out = []
        for conj in self._bool_cases(d, tv):
            s2 = st.fork()
            if _add_facts(s2.facts, [self._enum_fact(c) for c in conj]):
                out.append(s2)
        return out

    def _enum_fact(self, f):
        """x == Enum::V / x != Enum::V for a field-less variant is a fact about the variant of x"""
        if f[0] in ("eq", "ne"):
            for a, b in ((f[1], f[2]), (f[2], f[1])):
                vo = variant_of(a)
                if vo is not None and not a[2] and variant_of(b) is None:
                    adt = self.prog.adts.get(vo[0])
                    names = [v["name"] for v in adt["variants"]] if adt else (list(STD_VARIANTS[vo[0]]) if vo[0] in STD_VARIANTS else None)
                    if names and vo[1] in names:
                        sel = (vo[1],) if f[0] == "eq" else tuple(sorted(n for n in names if n != vo[1]))
                        return ("variant", b, sel)
        return f

    def _bool_cases(self, d, tv):
        """DNF of (d == tv) as lists of facts"""
        if d[0] == "un" and d[1] == "Not":
            return self._bool_cases(d[2], not tv)
        if d[0] == "bin" and d[1] in ("BitAnd", "BitOr") and _is_boolish(d[2]) and _is_boolish(d[3]):
            conj = (d[1] == "BitAnd") == tv
            a, b = self._bool_cases(d[2], tv), self._bool_cases(d[3], tv)
            return [x + y for x in a for y in b] if conj else a + b
        if d[0] == "const" and isinstance(d[1], bool):
            return [[]] if d[1] == tv else []
        if d[0] == "bin" and d[1] in ("Lt", "Le", "Eq"):
            a, b = d[2], d[3]
            if d[1] == "Lt":
                return [[("lt", a, b)]] if tv else [[("le", b, a)]]
            if d[1] == "Le":
                return [[("le", a, b)]] if tv else [[("lt", b, a)]]
            return [[("eq", a, b)]] if tv else [[("ne", a, b)]]
        return [[("true" if tv else "false", d)]]

    # calls ------------------------------------------------------------------------------------------------
    def _call(self, st, e, depth):
        _, node, ext, rty = e
        key = self._key(st, node)
        path, args = key[1], key[3]
        name = path.split("::")[-1]
        cases = self._model(st, key, path, name, args, depth, rty)
        if cases is None:
            if ext and name not in PURE_MUT:
                st.effects.append(("call", self._val(st, node)))
                if isinstance(rty, dict) and rty.get("tuple") == []:
                    st.env[("unit", key)] = True  # the unit result of an effectful call is not a value worth tracking
            return [st]
        out = []
        for facts, effects, val in cases:
            s2 = st.fork()
            # a callee's `if flag` becomes a condition on the argument expression: bring it to fact form
            nf = []
            for fct in facts:
                if fct[0] in ("true", "false") and fct[1][0] in ("bin", "un", "const"):
                    alts = self._bool_cases(fct[1], fct[0] == "true")
                    if len(alts) == 1:
                        nf += [self._enum_fact(c) for c in alts[0]]
                        continue
                    if not alts:
                        nf = None
                        break
                nf.append(self._enum_fact(fct))
            if nf is None or not _add_facts(s2.facts, nf):
                continue
            s2.effects += effects
            if val is not None:
                s2.env[key] = val
            if effects and any(ef[0] == "write" for ef in effects):
                # an inlined callee that writes through its `&mut` arguments: later reads of those places (`mut` nodes
                # "value after this call") are composed from these writes, see _compose
                s2.env[("writes", key)] = list(effects)
            out.append(s2)
        return out

    def _key(self, st, node):
        """the call node with the expansions made so far substituted into its arguments (raw form: the key under
        which later trees contain it)"""
        env = st.env
        # always rebuilt: subst re-sorts commutative operands, and later trees are looked up in their rebuilt form
        comp = (lambda a: self._compose(a, env)) if any(isinstance(k, tuple) and k and k[0] == "writes" for k in env) else (lambda a: a)
        args = tuple(subst(comp(a), lambda n: env.get(n)) for a in node[3])
        return node[:3] + (args,) + node[4:]

    def _split(self, x, kind):
        """cases of an Option/Result value: [(facts, payload-or-None, variant)]"""
        names = STD_VARIANTS[kind]
        x = _simplify(self.canon.tree(_norm_calls(x)), self._ctor_map)
        vo = variant_of(x)
        if vo is not None:
            return [([], x[2][0] if x[2] else None, vo[1])]
        pay = {"Some": ("payload", x), "Ok": ("payload", x), "Err": ("errpayload", x), "None": None}
        return [([("variant", x, (n,))], pay[n], n) for n in names]

    def _apply_callable(self, c, cargs, depth):
        """[(facts, effects, ret)] of calling closure / fn item c with argument trees cargs"""
        if is_closure(c):
            g = self.prog.fns.get(c[1][len("closure:"):])
            if g is None or not g.body or depth >= self.depth:
                return None
            caps = c[2]
            out = []
            seed = {}
            for k_, cap in enumerate(caps):
                cv = strip_refs(cap)
                if is_closure(cv) or is_fnitem(cv):
                    nm_ = None
                    for u in g.body.get("upvars", []):
                        pl_ = u["place"]
                        fs_ = [e_["f"] for e_ in pl_["p"] if isinstance(e_, dict) and "f" in e_]
                        if pl_["l"] == 1 and fs_ and fs_[0] == k_:
                            nm_ = u["name"]
                    seed[("upvar", k_, nm_)] = cap
            try:
                summs = self.of(g, depth + 1, seed=seed or None)
            except Unsupported:
                return None
            for s in summs:
                def r(n, caps=caps):
                    if n[0] == "param" and n[1] >= 2 and n[1] - 2 < len(cargs):
                        return cargs[n[1] - 2]
                    if n[0] == "upvar" and n[1] < len(caps):
                        return caps[n[1]]
                    return None
                out.append(self._rebind(s, r))
            return out
        if is_fnitem(c):
            p = fnitem_path(c)
            g = self.local_fn(p)
            if g is not None and depth < self.depth and self._may_inline(g):
                try:
                    return self._inline_fn(g, cargs, c[2] if len(c) > 2 else (), depth)
                except Unsupported:
                    return None
            # constructor or foreign function: a pure call
            vname = p.split("::")[-1]
            if p.startswith(OPT + "::") and vname == "Some":
                return [([], [], some(cargs[0]))]
            if p.startswith(RES + "::") and vname in ("Ok", "Err"):
                return [([], [], (ok if vname == "Ok" else err)(cargs[0]))]
            gargs = c[2] if len(c) > 2 else ()
            return [([], [], _simplify(self.canon.tree(_norm_calls(("call", p, gargs, tuple(cargs)))), self._ctor_map))]
        return None

    def _may_inline(self, g):
        try:
            return bool(self.inline(g))
        except Exception:
            return False

    def _inline_fn(self, g, args, gargs, depth, seed=None):
        gnames = [x["name"] for x in g.generics]
        gmap = {gnames[i]: a for i, a in enumerate(gargs) if i < len(gnames)}

        def r(n):
            if n[0] == "param" and 1 <= n[1] <= len(args):
                return args[n[1] - 1]
            if n[0] == "const" and isinstance(n[1], str) and n[1] in gmap:
                try:
                    return ("const", int(gmap[n[1]]))
                except (ValueError, TypeError):
                    return None
            if n[0] == "const" and isinstance(n[1], str) and n[1].endswith(">") and "<" in n[1]:
                # an associated constant of one of the helper's type parameters (`R::BITS_PER_PIXEL` in a helper generic
                # in R): at this instantiation it is the constant of the impl the argument type selects
                head, _, par = n[1][:-1].rpartition("<")
                trait, _, cname = head.rpartition("::")
                ty_ = gmap.get(par)
                if isinstance(ty_, str) and ty_ != par and trait and cname:
                    vals = [i_["consts"][cname].get("v") for i_ in self.prog.impls.values()
                            if i_.get("trait") == trait and isinstance(i_.get("self_ty"), dict) and i_["self_ty"].get("adt") == ty_ and cname in i_.get("consts", {})]
                    if len(vals) == 1 and isinstance(vals[0], (int, bool)):
                        return ("const", vals[0])
                    if len(vals) != 1:
                        return ("const", "%s::%s<%s>" % (trait, cname, ty_))
            if n[0] == "call" and n[2] and any(a in gmap for a in n[2]):
                # a call inside a generic helper that mentions the helper's type parameters: instantiate them, and let
                # From / Into select the impl they resolve to at this instantiation
                ng = tuple(gmap.get(a, a) for a in n[2])
                path = n[1]
                if path in ("core::convert::From::from", "core::convert::Into::into") and len(ng) >= 2:
                    tgt, src = (ng[0], ng[1]) if path.endswith("From::from") else (ng[1], ng[0])
                    if tgt == src and len(n[3]) == 1:
                        return n[3][0]      # impl<T> From<T> for T
                    h = self._from_impl(src, tgt)
                    if h is not None:
                        path = h.path
                return ("call", path, ng) + tuple(n[3:])
            return None
        out = []
        for s in self.of(g, depth + 1, seed=seed):
            facts, effects, ret = self._rebind(s, r)
            # a condition of the callee on a value the caller has just constructed is decided here: the case is
            # dropped (contradiction) or the condition discharged
            keep, dead = [], False
            for fc in facts:
                if fc[0] == "variant" and _is_tree(fc[1]):
                    vo = variant_of(strip_refs(fc[1]))
                    if vo is not None and vo[0] in (OPT, RES):
                        if vo[1] in fc[2]:
                            continue
                        dead = True
                        break
                keep.append(fc)
            if not dead:
                out.append((keep, effects, ret))
        return out

    def _rebind(self, s, r0):
        # calls inside the callee that take `&mut` are distinct events of *this* invocation: tag them with it, so that
        # two invocations of the same helper do not produce "the same" call
        self._inst = getattr(self, "_inst", 0) + 1
        inst = "#%d" % self._inst

        def r(n):
            v = r0(n)
            if v is not None and not (isinstance(v, tuple) and v and v[0] == "call" and v[1].split("::")[-1] in ("call", "call_mut", "call_once")):
                return v
            if v is not None:
                n = v
            if n[0] == "call" and len(n) == 5 and isinstance(n[4], str) and n[4].startswith("@") and not (
                    n[1].split("::")[-1] in ("call", "call_mut", "call_once") and "::function::Fn" in n[1] and len(n[3]) == 2
                    and (is_closure(strip_refs(n[3][0])) or is_fnitem(strip_refs(n[3][0])))):
                return n[:4] + (n[4] + inst,)
            if n[0] == "call" and n[1].split("::")[-1] in ("call", "call_mut", "call_once") and "::function::Fn" in n[1] and len(n[3]) == 2:
                # a callable parameter of the callee that this invocation binds to a known closure / fn item: a pure
                # single-path callable is replaced by its result (`overlaps_along(a, b, |p| p.x)`)
                c, tup = strip_refs(n[3][0]), strip_refs(n[3][1])
                if (is_closure(c) or is_fnitem(c)) and tup[0] == "agg" and tup[1] == "tuple":
                    cases = self._apply_callable(c, list(tup[2]), 1)
                    if cases is not None and len(cases) == 1 and not cases[0][0] and not cases[0][1]:
                        return cases[0][2]
            return v
        f = lambda t: _simplify(self.canon.tree(_norm_calls(subst(t, r))), self._ctor_map)
        # the target of a write is a place: what the callee's parameter stands for there is the caller's place, not
        # the value it currently holds (no update / mut history)
        place = lambda t: subst(f(t), lambda n: n[1] if n[0] in ("update", "mut") else None)
        facts = []
        for x in s.facts:
            facts.append(tuple(f(y) if _is_tree(y) else y for y in x))
        effects = []
        for x in s.effects:
            if x[0] == "write" and len(x) == 3:
                effects.append(("write", self._lvalue_place(x[1], r, f), f(x[2])))
            else:
                y2 = tuple(f(y) if _is_tree(y) else y for y in x)
                def _is_fncall(n_):
                    return _is_tree(n_) and n_[0] == "call" and n_[1].split("::")[-1] in ("call", "call_mut", "call_once") and "::function::Fn" in n_[1]
                if x[0] == "call" and len(y2) > 1 and _is_tree(y2[1]) and (y2[1][0] != "call" or (_is_fncall(x[1]) and not _is_fncall(y2[1]))):
                    continue      # the call of a callable parameter that turned out to be a pure closure: no effect
                if x[0] == "call" and len(y2) > 1 and _is_tree(y2[1]) and y2[1][0] == "call" and y2[1][1].split("::")[-1] in ("call", "call_mut", "call_once") \
                        and "::function::Fn" in y2[1][1] and len(y2[1][3]) == 2:
                    # the callable parameter is bound to a closure that acts (`|line| scanline.bresenham_intersection(line)`):
                    # a single unconditional case is spliced in — its effects take the place of the call
                    c_, tup_ = strip_refs(y2[1][3][0]), strip_refs(y2[1][3][1])
                    if is_closure(c_) and tup_[0] == "agg" and tup_[1] == "tuple":
                        saved_le = self.local_effects
                        self.local_effects = True
                        try:
                            cases_ = self._apply_callable(c_, list(tup_[2]), 1)
                        finally:
                            self.local_effects = saved_le
                        if cases_ is not None and len(cases_) == 1 and not cases_[0][0]:
                            effects.extend(cases_[0][1])
                            continue
                effects.append(y2)
        return (facts, effects, f(s.ret))

    def _lvalue_place(self, lv, r, f):
        """rebind a callee lvalue into the caller: parameters are replaced by the caller's *places*"""
        strip = lambda t: subst(t, lambda n: n[1] if n[0] in ("update", "mut") else None)

        def r_place(n):
            v = r(n)
            if v is not None and n[0] == "param":
                v = strip(v)
                # a composed value (update applied) is not a place: fall back to the innermost place it was built over
                while v[0] == "update":
                    v = v[1]
            return v
        out = subst(lv, r_place)
        return _simplify(self.canon.tree(_norm_calls(out)), self._ctor_map)

    def _model(self, st, key, path, name, args, depth, rty):
        """cases [(facts, effects, value)] of a call, or None: leave the call as it is"""
        A = lambda i: self._val(st, args[i])
        raw = lambda i: subst(self._compose(args[i], st.env) if any(isinstance(k, tuple) and k and k[0] == "writes" for k in st.env) else args[i], lambda n: st.env.get(n)) if st.env else args[i]
        is_opt = path.startswith(OPT + "::")
        is_res = path.startswith(RES + "::")
        if is_opt or is_res:
            kind = OPT if is_opt else RES
            good = "Some" if is_opt else "Ok"
            wrap = some if is_opt else ok
            x = raw(0) if args else None
            if name in ("map", "and_then", "inspect", "filter", "is_some_and", "is_ok_and", "map_err", "or_else", "unwrap_or_else", "ok_or_else", "is_none_or") and len(args) == 2:
                out = []
                for facts, pay, v in self._split(x, kind):
                    on_good = name not in ("map_err", "or_else", "unwrap_or_else", "ok_or_else")
                    hit = (v == good) == on_good
                    xv = _rewrap(kind, v, pay)
                    if not hit:
                        if name in ("map", "and_then", "filter", "inspect", "map_err", "or_else"):
                            out.append((facts, [], xv))
                        elif name in ("is_some_and", "is_ok_and"):
                            out.append((facts, [], ("const", False)))
                        elif name == "is_none_or":
                            out.append((facts, [], ("const", True)))
                        elif name == "unwrap_or_else":
                            out.append((facts, [], pay))
                        elif name == "ok_or_else":
                            out.append((facts, [], ok(pay)))
                        continue
                    cargs = [pay] if pay is not None else []
                    if name in ("inspect", "filter"):
                        cargs = [pay]  # by reference; references are erased
                    res = self._apply_callable(raw(1), cargs, depth)
                    if res is None:
                        return None
                    for f2, e2, r2 in res:
                        if name == "map":
                            val = wrap(r2)
                        elif name == "map_err":
                            val = err(r2)
                        elif name in ("and_then", "or_else", "unwrap_or_else", "is_some_and", "is_ok_and", "is_none_or"):
                            val = r2
                        elif name == "ok_or_else":
                            val = err(r2)
                        elif name == "inspect":
                            val = xv
                        elif name == "filter":
                            if r2 == ("const", True):
                                val = xv
                            elif r2 == ("const", False):
                                val = NONE
                            else:
                                out.append((facts + f2 + [("true", r2)], e2, xv))
                                out.append((facts + f2 + [("false", r2)], e2, NONE))
                                continue
                        out.append((facts + f2, e2, val))
                return out
            if name in ("map_or", "map_or_else") and len(args) == 3:
                out = []
                for facts, pay, v in self._split(x, kind):
                    if v == good:
                        res = self._apply_callable(raw(2), [pay], depth)
                        if res is None:
                            return None
                        out += [(facts + f2, e2, r2) for f2, e2, r2 in res]
                    elif name == "map_or":
                        out.append((facts, [], A(1)))
                    else:
                        res = self._apply_callable(raw(1), [pay] if pay is not None else [], depth)
                        if res is None:
                            return None
                        out += [(facts + f2, e2, r2) for f2, e2, r2 in res]
                return out
            if name in ("ok_or", "unwrap_or", "or", "and", "xor") and len(args) == 2:
                out = []
                for facts, pay, v in self._split(x, kind):
                    g = v == good
                    if name == "ok_or":
                        val = ok(pay) if g else err(A(1))
                    elif name == "unwrap_or":
                        val = pay if g else A(1)
                    elif name == "or":
                        val = _rewrap(kind, v, pay) if g else A(1)
                    elif name == "and":
                        val = A(1) if g else _rewrap(kind, v, pay)
                    else:
                        return None
                    out.append((facts, [], val))
                return out
            if name == "zip" and len(args) == 2 and is_opt:
                # Option::zip: Some((a, b)) iff both are Some
                out = []
                for facts, pay, v in self._split(x, kind):
                    if v != "Some":
                        out.append((facts, [], NONE))
                        continue
                    for f2, p2, v2 in self._split(A(1), kind):
                        out.append((facts + f2, [], some(("agg", "tuple", (pay, p2))) if v2 == "Some" else NONE))
                return out
            if name in ("is_some", "is_none", "is_ok", "is_err") and len(args) == 1:
                want = {"is_some": "Some", "is_none": "None", "is_ok": "Ok", "is_err": "Err"}[name]
                return [(facts, [], ("const", v == want)) for facts, pay, v in self._split(x, kind)]
            if name in ("copied", "cloned", "as_ref", "as_mut", "as_deref", "as_deref_mut") and len(args) == 1:
                return [(facts, [], _rewrap(kind, v, pay)) for facts, pay, v in self._split(x, kind)]
            if name in ("ok", "err") and len(args) == 1:
                out = []
                for facts, pay, v in self._split(x, kind):
                    keep = (v == "Ok") == (name == "ok")
                    out.append((facts, [], some(pay) if keep else NONE))
                return out
            if name == "flatten" and len(args) == 1 and is_opt:
                return [(facts, [], pay if v == "Some" else NONE) for facts, pay, v in self._split(x, kind)]
            if name == "unwrap_or_default" and len(args) == 1:
                return [(facts, [], pay if v == good else ("call", "core::default::Default::default", (), ())) for facts, pay, v in self._split(x, kind)]
            if name in ("unwrap", "expect", "unwrap_unchecked") and args:
                # the failing case panics: it is not a returning path
                return [(facts, [], pay) for facts, pay, v in self._split(x, kind) if v == good]
            if name in ("unwrap_err", "expect_err") and args:
                return [(facts, [], pay) for facts, pay, v in self._split(x, kind) if v == "Err"]
            return None
        if path.endswith("Try>::branch") and len(args) == 1:
            kind = OPT if path.startswith("<" + OPT) else RES if path.startswith("<" + RES) else None
            if kind is None:
                return None
            out = []
            for facts, pay, v in self._split(raw(0), kind):
                if v in ("Some", "Ok"):
                    out.append((facts, [], ("agg", CF + "::Continue", (pay,))))
                else:
                    out.append((facts, [], ("agg", CF + "::Break", (_rewrap(kind, v, pay),))))
            return out
        if name == "from_residual" and len(args) == 1:
            r = A(0)
            if path.startswith("<" + OPT):
                return [([], [], NONE)]
            if path.startswith("<" + RES):
                vo = variant_of(r)
                if vo is not None and vo[1] == "Err":
                    return [([], [], err(_from(r[2][0], key[2])))]
                return [([], [], err(("errpayload", r)))]
            return None
        if name == "contains" and "ops::range::Range" in path and len(args) == 2:
            # `(a..b).contains(&x)` / `(a..=b).contains(&x)` over a range built on the spot: the two comparisons it stands for
            r_ = strip_refs(raw(0))
            x_ = strip_refs(A(1))
            if r_[0] == "agg" and isinstance(r_[1], str) and len(r_[2]) >= 2:
                kind_ = r_[1].split("::")[-1]
                lo_, hi_ = self._val(st, r_[2][0]), self._val(st, r_[2][1])
                unsigned_ = any(isinstance(g_, str) and g_ in ("usize", "u8", "u16", "u32", "u64", "u128") for g_ in key[2])
                if kind_ == "Range" and unsigned_ and lo_ == ("const", 0):
                    return [([], [], mk_bin("Lt", x_, hi_))]       # 0 <= x holds for every unsigned x
                if kind_ == "Range":
                    return [([], [], mk_bin("BitAnd", mk_bin("Le", lo_, x_), mk_bin("Lt", x_, hi_)))]
            if r_[0] == "agg" and isinstance(r_[1], str) and len(r_[2]) == 1 and r_[1].split("::")[-1] in ("RangeFrom", "RangeTo", "RangeToInclusive"):
                b_ = self._val(st, r_[2][0])
                kind_ = r_[1].split("::")[-1]
                return [([], [], mk_bin("Le", b_, x_) if kind_ == "RangeFrom" else mk_bin("Lt", x_, b_) if kind_ == "RangeTo" else mk_bin("Le", x_, b_))]
            if r_[0] == "call" and r_[1].endswith("RangeInclusive::<Idx>::new") and len(r_[3]) == 2:
                lo_, hi_ = self._val(st, r_[3][0]), self._val(st, r_[3][1])
                return [([], [], mk_bin("BitAnd", mk_bin("Le", lo_, x_), mk_bin("Le", x_, hi_)))]
        if name in ("checked_sub", "checked_add") and path.startswith("core::num::<impl u") and len(args) == 2:
            # unsigned checked arithmetic is the case split it stands for: `a.checked_sub(b)` is Some(a - b) iff b <= a;
            # `a.checked_add(b)` is Some(a + b) iff a + b fits the type
            x, y = A(0), A(1)
            if name == "checked_sub":
                if y == ("const", 1):     # the spellings `x == 0` / `0 < x` that a written-out guard produces
                    return [([("eq", x, ("const", 0))], [], NONE), ([("lt", ("const", 0), x)], [], some(mk_bin("Sub", x, y)))]
                return [([("lt", x, y)], [], NONE), ([("le", y, x)], [], some(mk_bin("Sub", x, y)))]
            ty = path[len("core::num::<impl "):].split(">")[0]
            bits = {"u8": 8, "u16": 16, "u32": 32, "u64": 64, "usize": 64, "u128": 128}.get(ty)
            if bits:
                top = ("const", (1 << bits) - 1)
                sm_ = mk_bin("Add", x, y)
                return [([("lt", top, sm_)], [], NONE), ([("le", sm_, top)], [], some(sm_))]
        if name in ("then", "then_some") and path.startswith("core::bool::") and len(args) == 2:
            c = A(0)
            out = []
            for tv in (True, False):
                for conj in self._bool_cases(c, tv):
                    if not tv:
                        out.append((conj, [], NONE))
                    elif name == "then_some":
                        out.append((conj, [], some(A(1))))
                    else:
                        res = self._apply_callable(raw(1), [], depth)
                        if res is None:
                            return None
                        out += [(conj + f2, e2, some(r2)) for f2, e2, r2 in res]
            return out
        if name == "map" and "<impl [T; N]>::map" in path and len(args) == 2:
            # `[a, b, c].map(f)` with a pure single-path f: the array of the results
            arr_ = strip_refs(raw(0))
            if arr_[0] == "agg" and arr_[1] == "array" and len(arr_[2]) <= 8 and (is_closure(strip_refs(raw(1))) or is_fnitem(strip_refs(raw(1)))):
                out_ = []
                for el_ in arr_[2]:
                    cs_ = self._apply_callable(strip_refs(raw(1)), [el_], depth)
                    if not cs_ or len(cs_) != 1 or cs_[0][0] or cs_[0][1]:
                        out_ = None
                        break
                    out_.append(cs_[0][2])
                if out_ is not None:
                    return [([], [], ("agg", "array", tuple(out_)))]
        if name == "try_for_each" and len(args) == 2 and "Iterator" in path and (is_closure(raw(1)) or is_fnitem(raw(1))):
            # try_for_each over a sequence of statically known elements (a literal array of decorations, say): the
            # closure applied to each element in turn, stopping at the first Err
            seq = self._seq_of(raw(0), depth)
            if seq is not None and 1 <= len(seq) <= 4:
                states, out_, okf = [([], [])], [], True
                for el in seq:
                    nxt = []
                    for f0, e0 in states:
                        cs = self._apply_callable(raw(1), [el], depth)
                        if cs is None:
                            okf = False
                            break
                        for f1, e1, r1 in cs:
                            for f2, pay, v in self._split(r1, RES):
                                if v == "Ok":
                                    nxt.append((f0 + list(f1) + list(f2), e0 + list(e1)))
                                else:
                                    out_.append((f0 + list(f1) + list(f2), e0 + list(e1), err(pay)))
                    if not okf or len(nxt) + len(out_) > 64:
                        okf = False
                        break
                    states = nxt
                if okf:
                    out_ += [(f0, e0, ok(UNIT)) for f0, e0 in states]
                    return out_
        if name in ("sum", "product") and len(args) == 1 and "Iterator" in path:
            # a reduction of a sequence of statically known elements (literal / constant arrays, zipped, mapped by a pure
            # single-path closure): the chain of additions it stands for
            seq = self._seq_of(raw(0), depth)
            if seq is not None and 1 <= len(seq) <= 8:
                acc = seq[0]
                for el in seq[1:]:
                    acc = mk_bin("Add" if name == "sum" else "Mul", acc, el)
                return [([], [], acc)]
        if name == "fold" and len(args) == 3 and "Iterator" in path and (is_closure(raw(2)) or is_fnitem(raw(2))) and _array_iter_base(raw(0)) is None:
            seq = self._seq_of(raw(0), depth)
            if seq is not None and len(seq) <= 8:
                acc = A(1)
                okf = True
                for el in seq:
                    cs = self._apply_callable(raw(2), [acc, el], depth)
                    if not cs or len(cs) != 1 or cs[0][0] or cs[0][1]:
                        okf = False
                        break
                    acc = cs[0][2]
                if okf:
                    return [([], [], acc)]
        if name == "fold" and len(args) == 3 and "Iterator" in path and (is_closure(raw(2)) or is_fnitem(raw(2))):
            # fold over an array literal with a pure, single-path step: the nested applications of the step
            hit = _array_iter_base(raw(0))
            if hit is not None and len(hit[1][2]) <= 8:
                _, arr, by_ref = hit
                acc = A(1)
                okf = True
                for el in arr[2]:
                    cs = self._apply_callable(raw(2), [acc, ("ref", el) if by_ref else el], depth)
                    if not cs or len(cs) != 1 or cs[0][0] or cs[0][1]:
                        okf = False
                        break
                    acc = cs[0][2]
                if okf:
                    return [([], [], acc)]
        if self.loops == "unroll" and name == "next" and len(args) == 1 and "Iterator" in path:
            hit = _array_iter_base(raw(0))
            if hit is None:
                raise Unsupported("a loop over something other than an array literal cannot be unrolled")
            base, arr, by_ref = hit
            k = st.env.get(("iterpos", base), 0)
            st.env[("iterpos", base)] = k + 1
            if k < len(arr[2]):
                el = arr[2][k]
                return [([], [], some(("ref", el) if by_ref else el))]
            return [([], [], NONE)]
        if self.loops == "once" and name in ("for_each", "try_for_each") and "iter::traits::iterator::Iterator" in path and len(args) == 2:
            # an internal-iteration loop, walked once like a `for` loop: no item, or one item handed to the closure
            is_try = name == "try_for_each"
            if is_try and not (isinstance(rty, dict) and rty.get("adt") == RES):
                return None
            it = raw(0)
            nx = ("call", "core::iter::traits::iterator::Iterator::next", (), (it,))
            item = ("payload", nx)
            done = ok(UNIT) if is_try else UNIT
            res = self._apply_callable(raw(1), [item], depth)
            if res is None:
                return None
            nx = self._val(st, nx)
            cases = [([("variant", nx, ("None",))], [], done)]
            for f2, e2, r2 in res:
                f2 = [("variant", nx, ("Some",))] + f2
                if not is_try:
                    cases.append((f2, e2, done))
                    continue
                vo = variant_of(r2)
                if vo is None:
                    cases.append((f2 + [("variant", r2, ("Ok",))], e2, done))
                    cases.append((f2 + [("variant", r2, ("Err",))], e2, err(("errpayload", r2))))
                elif vo[1] == "Err":
                    cases.append((f2, e2, r2))
                else:
                    cases.append((f2, e2, done))
            return cases
        if self.loops == "once" and name in ("find", "rfind", "any", "all", "position", "find_map") and len(args) == 2 and \
                ("iter::traits::iterator::Iterator" in path or "iter::traits::double_ended::DoubleEndedIterator" in path or path.startswith("<") and "Iterator>::" in path):
            # a search loop walked once: no item / the item decides the search / the search goes on (CONTINUES)
            it = raw(0)
            nx = ("call", "core::iter::traits::iterator::Iterator::" + ("next_back" if name == "rfind" else "next"), (), (it,))
            item = ("payload", nx)
            res = self._apply_callable(raw(1), [item], depth)
            if res is None:
                return None
            nx = self._val(st, nx)
            item = ("payload", nx)
            empty = {"find": NONE, "rfind": NONE, "find_map": NONE, "position": NONE, "any": ("const", False), "all": ("const", True)}[name]
            cases = [([("variant", nx, ("None",))], [], empty)]
            for f2, e2, r2 in res:
                f2 = [("variant", nx, ("Some",))] + f2
                if name == "find_map":
                    for f3, pay, v in self._split(r2, OPT):
                        cases.append((f2 + f3, e2, some(pay) if v == "Some" else continues(nx)))
                    continue
                for tv in (True, False):
                    for conj in self._bool_cases(r2, tv):
                        if name in ("find", "rfind"):
                            val = some(item) if tv else continues(nx)
                        elif name == "position":
                            val = some(("call", "search::position", (), (it,))) if tv else continues(nx)
                        elif name == "any":
                            val = ("const", True) if tv else continues(nx)
                        else:
                            val = continues(nx) if tv else ("const", False)
                        cases.append((f2 + conj, e2, val))
            return cases
        if len(args) == 2 and "{closure#" in name and is_closure(strip_refs(raw(0))):
            # a closure bound to a local and called directly: rustc resolves the call to the closure's own body
            tup = A(1)
            if tup[0] == "agg" and tup[1] == "tuple":
                return self._apply_callable(strip_refs(raw(0)), list(tup[2]), depth)
        if name in ("call", "call_mut", "call_once") and "ops::function" in path and len(args) == 2:
            tup = A(1)
            cargs = list(tup[2]) if tup[0] == "agg" and tup[1] == "tuple" else None
            if cargs is not None:
                return self._apply_callable(raw(0), cargs, depth)
            return None
        g = self.local_fn(path)
        if g is None and path in ("<T as core::convert::Into<U>>::into", "core::convert::Into::into") and len(key[2]) == 2 and len(args) == 1:
            g = self._from_impl(key[2][0], key[2][1])   # x.into() calls U::from(x)
        if g is not None and depth < self.depth and self._may_inline(g):
            try:
                return self._inline_fn(g, [raw(i) for i in range(len(args))], key[2] if g.path == path else (), depth)
            except HasLoop:
                # the helper loops — over a slice parameter that this call binds to a literal array?  Summarise it for
                # this binding (the loop unrolls over the known elements, A.9)
                seed = {}
                po_ = Origins(g)
                for i_ in range(len(args)):
                    a_ = strip_refs(raw(i_))
                    while a_[0] == "cast":
                        a_ = strip_refs(a_[1])
                    if a_[0] == "agg" and a_[1] == "array" and len(a_[2]) <= 8:
                        # in the callee's own terms: an array literal of the parameter's elements (the caller's values are
                        # substituted when the summary is rebound, `[..][k]` then reads through to element k)
                        pn_ = po_._entry(i_ + 1, ())
                        is_ref_ = raw(i_)[0] == "ref" or (isinstance(g.body["locals"][i_ + 1]["ty"], dict) and "ref" in g.body["locals"][i_ + 1]["ty"])
                        base_ = ("deref", pn_) if is_ref_ else pn_
                        arr_ = ("agg", "array", tuple(("index", base_, ("const", k_)) for k_ in range(len(a_[2]))))
                        seed[pn_] = ("ref", arr_) if is_ref_ else arr_
                if not seed:
                    return None
                try:
                    return self._inline_fn(g, [raw(i) for i in range(len(args))], key[2] if g.path == path else (), depth, seed=seed)
                except Unsupported:
                    return None
            except Unsupported:
                return None
        return None

    def _seq_of(self, t, depth):
        """the element trees of an iterator expression over statically known elements, or None"""
        t = strip_refs(t)
        while t[0] in ("mut", "update"):
            t = strip_refs(t[1])
        if t[0] == "agg" and t[1] == "array":
            return list(t[2])
        if t[0] == "const" and isinstance(t[1], str) and t[1].startswith("val:"):
            try:
                import json as _json
                v = _json.loads(t[1][4:])
            except Exception:
                return None
            if isinstance(v, dict) and isinstance(v.get("array"), list):
                v = v["array"]
            if isinstance(v, list) and all(isinstance(x, (int, bool)) for x in v):
                return [("const", x) for x in v]
            return None
        if t[0] != "call":
            return None
        nm = t[1].split("::")[-1]
        a = t[3]
        if nm in ("iter", "into_iter", "iter_mut", "by_ref", "copied", "cloned") and len(a) == 1:
            return self._seq_of(a[0], depth)
        if nm == "rev" and len(a) == 1:
            r = self._seq_of(a[0], depth)
            return list(reversed(r)) if r is not None else None
        if nm == "zip" and len(a) == 2:
            x, y = self._seq_of(a[0], depth), self._seq_of(a[1], depth)
            if x is None or y is None:
                return None
            return [("agg", "tuple", (p, q)) for p, q in zip(x, y)]
        if nm == "enumerate" and len(a) == 1:
            x = self._seq_of(a[0], depth)
            return [("agg", "tuple", (("const", k), p)) for k, p in enumerate(x)] if x is not None else None
        if nm == "map" and len(a) == 2 and (is_closure(strip_refs(a[1])) or is_fnitem(strip_refs(a[1]))):
            x = self._seq_of(a[0], depth)
            if x is None:
                return None
            out = []
            for el in x:
                cs = self._apply_callable(strip_refs(a[1]), [el], depth)
                if not cs or len(cs) != 1 or cs[0][0] or cs[0][1]:
                    return None
                out.append(cs[0][2])
            return out
        return None

    def _from_impl(self, src, dst):
        key = ("from", src, dst)
        if key not in self._memo:
            hit = None
            for i in self.prog.impls.values():
                if i.get("trait") == "core::convert::From" and "from" in i["fns"] and ty_str(i["self_ty"]) == dst and len(i.get("trait_args", [])) > 1 and ty_str(i["trait_args"][1]) == src:
                    hit = self.prog.fns.get(i["fns"]["from"])
            self._memo[key] = hit
        return self._memo[key]


# ---- helpers ---------------------------------------------------------------------------------------------
def _paths_once(cfg, limit, partial):
    """entry paths that visit every block at most once and end at a return or where the next step would re-enter a
    block already on the path (a back edge); the latter are recorded in `partial`"""
    body = cfg.body
    out = []

    def rec(b, path, onpath):
        if len(out) > limit:
            raise Unsupported("too many paths")
        path.append(b)
        onpath.add(b)
        t = body["blocks"][b]["t"]
        if t and t["k"] == "return":
            out.append(list(path))
        else:
            back = False
            for s_ in cfg.succ[b]:
                if s_ in onpath:
                    back = True
                else:
                    rec(s_, path, onpath)
            if back:
                out.append(list(path))
                partial.add(tuple(path))
        path.pop()
        onpath.discard(b)
    rec(0, [], set())
    return out


def _paths_unroll(cfg, limit, max_visits=6):
    """entry -> return paths on which every block occurs at most `max_visits` times (for loops over a fixed, small
    number of items: the model of `next` on an array iterator makes all but the right iteration count contradictory)"""
    body = cfg.body
    out = []

    steps = [0]

    def rec(b, path, count):
        steps[0] += 1
        if len(out) > limit or steps[0] > 300000:
            raise Unsupported("too many paths")
        path.append(b)
        count[b] = count.get(b, 0) + 1
        t = body["blocks"][b]["t"]
        if t and t["k"] == "return":
            out.append(list(path))
        else:
            for s_ in cfg.succ[b]:
                if count.get(s_, 0) < max_visits:
                    rec(s_, path, count)
        path.pop()
        count[b] -= 1
    rec(0, [], {})
    return out


def _array_iter_base(t):
    """(array aggregate, by_ref) if t is an iterator created directly over an array literal: into_iter(array{..}),
    iter(array{..}) — looked at through references and the history of earlier `next` calls"""
    while t[0] in ("ref", "deref", "mut", "update"):
        t = t[1]
    if t[0] == "call" and t[1].split("::")[-1] in ("into_iter", "iter") and len(t[3]) == 1:
        by_ref = t[1].split("::")[-1] == "iter"
        a = t[3][0]
        while a[0] in ("ref", "deref"):
            by_ref = by_ref or a[0] == "ref"
            a = a[1]
        if a[0] == "agg" and a[1] == "array":
            return t, a, by_ref
    return None


def _borrows_closure_state(blk, l):
    """is local l assigned `&mut (*_1)...` (a captured variable of the closure) in this block?"""
    for s in reversed(blk["s"]):
        if s["k"] == "assign" and s["place"]["l"] == l and not s["place"]["p"]:
            rv = s["rv"]
            return rv["k"] == "ref" and bool(rv.get("mut")) and rv["place"]["l"] == 1 and "*" in rv["place"]["p"]
    return False


def _has_mut_ref(ty, depth=0):
    """the type is or contains a `&mut` (Option<&mut T>, a closure capturing one, a tuple …)"""
    if not isinstance(ty, dict) or depth > 6:
        return False
    if "ref" in ty:
        return bool(ty.get("mut")) or _has_mut_ref(ty["ref"], depth + 1)
    for k in ("args", "tuple"):
        for x in ty.get(k, []) or []:
            if _has_mut_ref(x, depth + 1):
                return True
    for k in ("array", "slice"):
        if isinstance(ty.get(k), dict) and _has_mut_ref(ty[k], depth + 1):
            return True
    return False


def ptr_root(t):
    """what a pointer-valued tree ultimately points into: follows receivers (first arguments), payloads, fields;
    ('ref', local value) = a local of the function, ('param'|'upvar', …) = state of the caller"""
    crossed = False   # a deref / payload was crossed below the innermost `ref`
    in_ref = None
    for _ in range(60):
        k = t[0]
        if k in ("deref", "payload", "errpayload"):
            crossed = True
            t = t[1]
        elif k in ("field", "variant", "index", "cast", "mut", "update"):
            t = t[1]
        elif k == "call" and t[3]:
            crossed = True   # a pointer returned by a call on a receiver points into what the receiver points into
            t = t[3][0]
        elif k == "ref":
            if in_ref is None:
                in_ref = t
                crossed = False
            t = t[1]
        else:
            break
    if in_ref is not None and t[0] in ("param", "upvar") and not crossed:
        return ("ref", in_ref[1])   # address of the parameter variable itself: a local
    if in_ref is not None and t[0] not in ("param", "upvar", "unknown", "loop", "callind"):
        return ("ref", in_ref[1])
    return t


FIRST = "core::slice::<impl [T]>::first"


def _slice_patterns(facts, effects, ret):
    """slice patterns `[first, ..]` spelled as the `first()` they stand for: `1 <= len(s)` is `s.first() is Some`,
    `s[0]` under that condition is its payload"""
    slices = {}
    for f in facts:
        if f[0] in ("le", "lt", "eq", "ne"):
            for a, b, flip in ((f[1], f[2], False), (f[2], f[1], True)):
                if b[0] == "un" and b[1] == "PtrMetadata" and a[0] == "const" and isinstance(a[1], int):
                    # relation between the constant a and len(s)
                    rel = f[0]
                    c = a[1]
                    some_ = None
                    if not flip:       # c REL len
                        some_ = True if (rel == "le" and c == 1) or (rel == "lt" and c == 0) else (False if rel == "eq" and c == 0 else (True if rel == "ne" and c == 0 else None))
                    else:              # len REL c
                        some_ = False if (rel == "lt" and c == 1) or (rel == "le" and c == 0) or (rel == "eq" and c == 0) else (True if rel == "ne" and c == 0 else None)
                    if some_ is not None:
                        slices[b[2]] = (f, some_)
    if not slices:
        return facts, effects, ret

    def r(n):
        if n[0] == "index" and n[1] in slices and slices[n[1]][1] and n[2] == ("const", 0):
            return ("payload", ("call", FIRST, (), (n[1],)))
        return None
    nf = []
    for f in facts:
        hit = [s_ for s_, (g, some_) in slices.items() if g is f]
        if hit:
            nf.append(("variant", ("call", FIRST, (), (hit[0],)), ("Some",) if slices[hit[0]][1] else ("None",)))
        else:
            nf.append(tuple(subst(x, r) if _is_tree(x) else x for x in f))
    ne = [tuple(subst(x, r) if _is_tree(x) else x for x in e) for e in effects]
    return nf, ne, subst(ret, r) if ret is not None else None


def _unit_calls(t, env):
    """the () returned by an effectful call is UNIT wherever it is used as a value — but the call stays where it
    marks a mutation (`mut` nodes: the value of a place after the call)"""
    if not isinstance(t, tuple) or not t or not isinstance(t[0], str):
        return t
    if t[0] == "call" and env.get(("unit", t)):
        return UNIT
    if t[0] == "mut":
        return (t[0], _unit_calls(t[1], env), t[2]) + tuple(t[3:])
    out = [t[0]]
    for x in t[1:]:
        if isinstance(x, tuple) and x and isinstance(x[0], str):
            out.append(_unit_calls(x, env))
        elif isinstance(x, tuple):
            out.append(tuple(_unit_calls(y, env) if isinstance(y, tuple) else y for y in x))
        else:
            out.append(x)
    return tuple(out)


def _refine(ret, facts):
    """a returned Option/Result value whose variant the path has established is written as that variant:
    `let v = load(); if v.is_some() {…}; v` returns Some(payload v) on the path where v is Some"""
    for f in facts:
        if f[0] == "variant" and f[1] == ret and len(f[2]) == 1:
            n = f[2][0]
            if n == "None":
                return NONE
            if n == "Some":
                return some(("payload", ret))
            if n == "Ok":
                return ok(("payload", ret))
            if n == "Err":
                return err(("errpayload", ret))
    return ret


def _rewrap(kind, v, pay):
    if v == "None":
        return NONE
    return ("agg", kind + "::" + v, (pay,))


def _from(e, gargs):
    return e


def _truth(lit):
    if lit == (0,) or lit == ("not", 1):
        return False
    if lit == (1,) or lit == ("not", 0):
        return True
    return None


def _is_boolish(t):
    if t[0] == "const":
        return isinstance(t[1], bool)
    if t[0] == "bin":
        return t[1] in ("Lt", "Le", "Eq", "Ne", "Gt", "Ge") or (t[1] in ("BitAnd", "BitOr") and _is_boolish(t[2]) and _is_boolish(t[3]))
    if t[0] == "un" and t[1] == "Not":
        return _is_boolish(t[2])
    if t[0] == "call":
        n = t[1].split("::")[-1]
        return n.startswith("is_") or n in ("contains", "eq", "ne", "lt", "le", "gt", "ge")
    return False


def _variant_names(prog, ty):
    """{discriminant value: name} of an enum type, None if unknown"""
    while isinstance(ty, dict) and "ref" in ty:
        ty = ty["ref"]
    if not isinstance(ty, dict) or "adt" not in ty:
        return None
    p = ty["adt"]
    if p in STD_VARIANTS:
        return dict(enumerate(STD_VARIANTS[p]))
    a = prog.adts.get(p)
    if a is None or a.get("kind") not in ("enum", None) and len(a.get("variants", [])) <= 1:
        return None
    out = {}
    for i, v in enumerate(a["variants"]):
        d = v.get("discr", i)
        out[d if isinstance(d, int) else i] = v["name"]
    return out


def _lit_names(names, lit):
    if lit[0] == "not":
        return tuple(n for d, n in names.items() if d not in lit[1:])
    if lit[0] == "any":
        return tuple(names.values())
    return tuple(names[d] for d in lit if d in names)


def _add_facts(facts, new):
    """append; False if the conjunction became contradictory (syntactically)"""
    for f in new:
        if f[0] == "variant":
            sel = f[2]
            vo = variant_of(f[1]) if isinstance(f[1], tuple) and f[1] else None
            if vo is not None and vo[0].endswith(("Option", "Result")):
                # a fact about a value the path itself constructed (`Some{x} is None` after a capture was substituted)
                if vo[1] not in sel:
                    return False
                continue
            for g in facts:
                if g[0] == "variant" and g[1] == f[1]:
                    sel = tuple(n for n in sel if n in g[2])
            if not sel:
                return False
            f = ("variant", f[1], tuple(sorted(sel)))
        neg = _negate(f)
        if neg is not None and neg in facts:
            return False
        if f[0] in ("true", "false") and f[1][0] == "const" and isinstance(f[1][1], bool):
            if (f[0] == "true") != f[1][1]:
                return False
            continue
        if f not in facts:
            facts.append(f)
    return True


def _negate(f):
    if f[0] == "lt":
        return ("le", f[2], f[1])
    if f[0] == "le":
        return ("lt", f[2], f[1])
    if f[0] == "eq":
        return ("ne", f[1], f[2])
    if f[0] == "ne":
        return ("eq", f[1], f[2])
    if f[0] == "true":
        return ("false", f[1])
    if f[0] == "false":
        return ("true", f[1])
    return None


def _dedup(facts):
    out = []
    for f in facts:
        if f[0] == "variant":
            out = [g for g in out if not (g[0] == "variant" and g[1] == f[1] and set(f[2]) <= set(g[2]))]
        if f not in out:
            out.append(f)
    return out


def _is_tree(x):
    return isinstance(x, tuple) and bool(x) and isinstance(x[0], str) and not (len(x) > 1 and x[0] in ("not", "any") and not isinstance(x[1], tuple)) \
        and x[0] not in ("not", "any")


UNIT = ("agg", "tuple", ())
_OPS = {"add": "Add", "sub": "Sub", "mul": "Mul", "div": "Div", "rem": "Rem", "shl": "Shl", "shr": "Shr", "bitand": "BitAnd",
        "bitor": "BitOr", "bitxor": "BitXor"}
_PRIMS = ("u8", "u16", "u32", "u64", "u128", "usize", "i8", "i16", "i32", "i64", "i128", "isize")


def _prim_op(p):
    """`<&u8 as core::ops::bit::Shr<usize>>::shr` -> 'Shr' (operator traits of the primitive integers, also on references)"""
    if not p.startswith("<") or " as core::ops::" not in p:
        return None
    self_ty = p[1:p.index(" as ")].lstrip("&").replace("'_ ", "").strip()
    name = p.rsplit("::", 1)[-1]
    if self_ty in _PRIMS and name in _OPS:
        return _OPS[name]
    if self_ty in _PRIMS + ("bool",) and name == "not":
        return "Not"
    if self_ty in _PRIMS and name == "neg":
        return "Neg"
    return None


def _norm_calls(t):
    """Into::into -> the From::from it calls; identity From; operator traits on primitive integers -> operators;
    unit constants; call-site tags of pure `&mut` accessors dropped"""
    def r(n):
        if n[0] == "const" and n[1] == 'val:{"tuple": []}':
            return UNIT
        if n[0] == "call":
            p = n[1]
            if len(n) == 5 and p.split("::")[-1] in PURE_MUT:
                n = n[:4]
                return n
            if len(n) == 5 and n[3] and any(x[0] in ("update", "mut") for x in walk(n[3][0])):
                # a call on `&mut object`: the receiver is the object, not the history of its fields
                a0 = subst(n[3][0], lambda m: m[1] if m[0] in ("update", "mut") else None)
                return n[:3] + ((a0,) + tuple(n[3][1:]),) + n[4:]
            op = _prim_op(p)
            if op is not None:
                if op in ("Not", "Neg") and len(n[3]) == 1:
                    return ("un", op, n[3][0])
                if len(n[3]) == 2:
                    return mk_bin(op, n[3][0], n[3][1])
            if p in ("<T as core::convert::Into<U>>::into", "core::convert::Into::into") and len(n[3]) == 1:
                g = n[2]
                if len(g) == 2:
                    return ("call", "<%s as core::convert::From<%s>>::from" % (g[1], g[0]), (), n[3])
            if p == "<T as core::convert::From<T>>::from" and len(n[3]) == 1:
                return n[3][0]
        return None
    return subst(t, r)


def _simplify(t, ctor=None):
    """payload/discriminant of constructed values; boolean constants; a field of a struct just built by a plain
    constructor function (`Rectangle::new(a, b).size` is `b`)"""
    def r(n):
        k = n[0]
        if ctor is not None and k == "field" and isinstance(n[2], int) and n[1][0] == "call":
            m = ctor(n[1][1])
            if m is not None and n[2] < len(m) and m[n[2]] is not None and m[n[2]] < len(n[1][3]):
                return n[1][3][m[n[2]]]
        if k == "index" and n[1][0] == "agg" and n[1][1] == "array" and isinstance(n[2], tuple) and n[2] and n[2][0] == "const" and isinstance(n[2][1], int) and not isinstance(n[2][1], bool):
            ops = n[1][2]
            j = len(ops) - n[2][1] if (len(n[2]) > 2 and n[2][2]) else n[2][1]
            if 0 <= j < len(ops):
                return ops[j]                                   # an element of an array just built (`let [a, b, c] = helper()`)
        if k in ("payload", "errpayload"):
            vo = variant_of(n[1])
            if vo is not None and n[1][2]:
                if (k == "payload") == (vo[1] in ("Some", "Ok", "Continue")):
                    return n[1][2][0]
        if k == "field" and n[1][0] == "variant":
            vo = variant_of(n[1][1])
            if vo is not None and vo[1] == n[1][2] and n[2] < len(n[1][1][2]):
                return n[1][1][2][n[2]]
        if k == "call" and len(n[3]) == 1 and n[3][0][0] == "call" and "RangeInclusive" in n[1] and n[1].split("::")[-1] in ("start", "end") \
                and "RangeInclusive" in n[3][0][1] and n[3][0][1].split("::")[-1] == "new" and len(n[3][0][3]) == 2:
            return n[3][0][3][0 if n[1].endswith("start") else 1]   # accessor of a range just built
        if k == "un" and n[1] == "Not" and n[2][0] == "const" and isinstance(n[2][1], bool):
            return ("const", not n[2][1])
        if k == "bin" and n[1] in ("BitAnd", "BitOr") and (n[2][0] == "const" and isinstance(n[2][1], bool) or n[3][0] == "const" and isinstance(n[3][1], bool)):
            c, o = (n[2], n[3]) if n[2][0] == "const" and isinstance(n[2][1], bool) else (n[3], n[2])
            if n[1] == "BitAnd":
                return o if c[1] else ("const", False)
            return ("const", True) if c[1] else o
        return None
    return subst(t, r)


def _closure_capture_types(prog, cid):
    cache = prog.__dict__.setdefault("_capture_types", {})
    if not cache:
        for g in prog.fns.values():
            if not g.body:
                continue
            for b in g.body["blocks"]:
                for s_ in b["s"]:
                    rv = s_.get("rv") or {}
                    if s_["k"] == "assign" and rv.get("k") == "agg" and rv.get("agg") == "closure" and rv.get("closure"):
                        tys = []
                        for o in rv["ops"]:
                            pl_ = o.get("move") or o.get("copy")
                            tys.append(_place_ty(g.body, pl_, None) if pl_ is not None and not pl_["p"] else None)
                        cache[rv["closure"]] = tys
        cache.setdefault("", [])
    return cache.get(cid)


def _place_ty(body, pl, prog=None):
    ty = body["locals"][pl["l"]]["ty"]
    for e in pl["p"]:
        if ty is None:
            return None
        if e == "*":
            if isinstance(ty, dict) and ("ref" in ty or "ptr" in ty):
                ty = ty.get("ref") or ty.get("ptr")
            else:
                return None
        elif isinstance(e, dict) and "f" in e:
            if isinstance(e.get("ty"), (dict, str)):
                ty = e["ty"]
            elif isinstance(ty, dict) and "tuple" in ty and e["f"] < len(ty["tuple"]):
                ty = ty["tuple"][e["f"]]
            elif isinstance(ty, dict) and "closure" in ty and prog is not None:
                # a captured variable: its type is that of the value the creating aggregate stores at this position
                tys = _closure_capture_types(prog, ty["closure"])
                ty = tys[e["f"]] if tys and e["f"] < len(tys) else None
            elif isinstance(ty, dict) and "adt" in ty and prog is not None and ty["adt"] in prog.adts:
                a = prog.adts[ty["adt"]]
                vs = a["variants"]
                vi = ty.get("_variant", 0)
                try:
                    fty = vs[vi]["fields"][e["f"]]["ty"]
                except (IndexError, KeyError):
                    return None
                ty = _subst_generics(fty, a, ty)
            elif isinstance(ty, dict) and ty.get("adt") in (OPT, RES, CF) and ty.get("args"):
                v = ty.get("_vname")
                args = [a for a in ty["args"] if a != "'_"]
                if ty["adt"] == OPT or v in ("Ok", "Continue") or v is None:
                    ty = args[0] if ty["adt"] != CF or v == "Break" and False else (args[1] if ty["adt"] == CF and len(args) > 1 else args[0])
                elif v in ("Err",):
                    ty = args[1] if len(args) > 1 else None
                elif v == "Break":
                    ty = args[0]
                else:
                    return None
            else:
                return None
        elif isinstance(e, dict) and "down" in e:
            if isinstance(ty, dict):
                ty = dict(ty)
                ty["_variant"] = e["down"] if isinstance(e["down"], int) else 0
                ty["_vname"] = e.get("name")
        elif isinstance(e, dict) and ("idx" in e or "cidx" in e):
            if isinstance(ty, dict) and ("array" in ty or "slice" in ty):
                ty = ty.get("array") or ty.get("slice")
            else:
                return None
        else:
            return None
    return ty


def _subst_generics(fty, adt, ty):
    names = [g["name"] if isinstance(g, dict) else g for g in adt.get("generics", [])]
    args = ty.get("args", [])
    m = {n: args[i] for i, n in enumerate(names) if i < len(args)}

    def r(t):
        if isinstance(t, dict):
            if "param" in t and t["param"] in m:
                return m[t["param"]]
            return {k: r(v) for k, v in t.items()}
        if isinstance(t, list):
            return [r(x) for x in t]
        return t
    return r(fty)


def _ret_ty(body, t):
    try:
        return _place_ty(body, t["dest"])
    except Exception:
        return None


# ---- fact entailment (syntactic, with the obvious weakenings) -----------------------------------------------
def entails(facts, goal):
    rel = goal[0]
    if goal in facts:
        return True
    if rel == "le":
        a, b = goal[1], goal[2]
        return ("lt", a, b) in facts or ("eq", a, b) in facts or ("eq", b, a) in facts or a == b
    if rel == "ne":
        a, b = goal[1], goal[2]
        return ("ne", b, a) in facts or ("lt", a, b) in facts or ("lt", b, a) in facts
    if rel == "eq":
        return ("eq", goal[2], goal[1]) in facts or goal[1] == goal[2]
    if rel == "variant":
        for f in facts:
            if f[0] == "variant" and f[1] == goal[1] and set(f[2]) <= set(goal[2]):
                return True
    return False


# ---- guard sets ---------------------------------------------------------------------------------------------
def strip_casts(t):
    return subst(t, lambda n: n[1] if n[0] == "cast" else None)


def _fact_nocast(f):
    return tuple(strip_casts(x) if _is_tree(x) else x for x in f)


def holds(facts, goal):
    """does the conjunction `facts` establish `goal`?  Both are compared modulo integer casts.
    goal: a fact, or ('any', goal…) (one of), ('all', goal…), or ('alt', goal…) (equivalent spellings of one condition:
    established / violated as soon as one spelling is)."""
    if goal[0] in ("any", "alt"):
        return any(holds(facts, g) for g in goal[1:])
    if goal[0] == "all":
        return all(holds(facts, g) for g in goal[1:])
    fs = [_fact_nocast(f) for f in facts]
    g = _fact_nocast(goal)
    if entails(fs, g):
        return True
    # x < a+1  <=>  x <= a ; 0 < n  <=>  n != 0 (unsigned)
    if g[0] == "ne" and g[2] == ("const", 0):
        return entails(fs, ("lt", ("const", 0), g[1]))
    return False


def violated(facts, goal):
    """does `facts` establish the negation of `goal`?  (for 'all' goals: of one member; 'any': of every member)"""
    if goal[0] in ("all", "alt"):
        return any(violated(facts, g) for g in goal[1:])
    if goal[0] == "any":
        return all(violated(facts, g) for g in goal[1:])
    n = _negate(goal)
    if n is None:
        return False
    if holds(facts, n):
        return True
    if goal[0] == "ne" and goal[2] == ("const", 0):
        return holds(facts, ("le", goal[1], ("const", 0)))
    if goal[0] == "lt" and goal[1] == ("const", 0):
        return holds(facts, ("eq", goal[2], ("const", 0)))
    return False


def check_guarded(summs, is_guarded, needs):
    """Guard discipline of a function given by its path summaries.
    is_guarded(summ) -> True for paths that perform the guarded action.
    needs: {name: goal}.  Returns (missing, unjustified): names of goals some acting path has not established, and
    the non-acting paths (as fact lists) on which no goal is violated (the action is withheld although it is allowed)."""
    missing, unjustified = set(), []
    for sm in summs:
        if is_guarded(sm):
            for k, g in needs.items():
                if not holds(sm.facts, g):
                    missing.add(k)
        else:
            if not any(violated(sm.facts, g) for g in needs.values()):
                unjustified.append(sm)
    return sorted(missing), unjustified


def passes_result(sm, node):
    """does path summary `sm` return the outcome of call `node` unchanged?  (`call`, `call?; Ok(())`,
    `match call { Ok(v) => Ok(v), Err(e) => Err(e) }` and `if let Err(e) = call { return Err(e) } Ok(())` all do)"""
    n4 = node[:4]
    r = sm.ret
    if r[0] == "call" and r[:4] == n4:
        return True
    for f in sm.facts:
        if f[0] == "variant" and f[1][0] == "call" and f[1][:4] == n4 and len(f[2]) == 1:
            v = f[2][0]
            vo = variant_of(r)
            if vo is None or vo[1] != v:
                return False
            if v in ("None",):
                return True
            inner = r[2][0] if r[2] else None
            if v in ("Ok", "Some"):
                return inner == UNIT or (inner is not None and inner[0] == "payload" and inner[1][:4] == n4)
            if v == "Err":
                return inner is not None and inner[0] == "errpayload" and inner[1][:4] == n4
    return False
