"""Origin trees (value provenance) over MIR — DESIGN.md A.2.

A tree is a nested tuple:
  ('param', i, name) ('upvar', i, name) ('const', value) ('call', path, gargs, args)
  ('bin', op, a, b) ('un', op, a) ('cast', a, ty) ('agg', name, ops) ('field', base, i)
  ('variant', base, name) ('deref', base) ('ref', base) ('index', base, idx) ('discr', base)
  ('phi', alts) ('loop', local) ('unknown', why) ('repeat', a, n)
"""
import sys
from . import ty_str, const_str
from .cfg import CFG

sys.setrecursionlimit(20000)

CHECKED = {"AddWithOverflow": "Add", "SubWithOverflow": "Sub", "MulWithOverflow": "Mul"}
COMMUTATIVE = {"Add", "Mul", "BitAnd", "BitOr", "BitXor", "Eq", "Ne"}


def const_tree(c):
    if "v" in c:
        v = c["v"]
        if isinstance(v, dict):
            if "char" in v:
                return ("const", chr(v["char"]))
            if "str" in v:
                return ("const", v["str"])
            if "zst" in v:
                t = c.get("ty")
                if isinstance(t, dict) and "fndef" in t and [a for a in t.get("args", []) if a != "'_"]:
                    # function item with its generic arguments (e.g. Into::into::<u8, RawU1> handed to map)
                    return ("const", "fn:" + ty_str(t), tuple(ty_str(a) for a in t["args"] if a != "'_"))
                return ("const", "fn:" + ty_str(c["ty"]))
            if "fbits" in v:
                return ("const", "fbits:%d" % v["fbits"])
            js = _freeze_str(v)
            # consumers decode "val:" constants as JSON: a value too large to carry along is marked opaque instead of
            # being cut off in the middle
            return ("const", ("val:" + js) if len(js) <= 4000 else ("bigval:%d:%s" % (len(js), js[:80])))
        return ("const", v)
    if "promoted" in c:
        return ("promoted", c["promoted"])
    if "uneval" in c:
        return ("const", c["uneval"] + "<" + ",".join(ty_str(a) for a in c.get("args", []) if a != "'_") + ">")
    if "c" in c:
        return ("const", const_str(c["c"]))
    t = c.get("ty")
    if isinstance(t, dict) and "fndef" in t:
        return ("const", "fn:" + t["fndef"])
    return ("const", "zst:" + ty_str(t))


def _freeze_str(v):
    import json
    return json.dumps(v, sort_keys=True)


def mk_field(base, i):
    if base[0] == "agg":
        ops = base[2]
        if i < len(ops):
            return ops[i]
    if base[0] == "bin" and base[1] in CHECKED and i == 0:
        return ("bin", CHECKED[base[1]], base[2], base[3])
    if base[0] == "phi":
        return mk_phi([mk_field(a, i) for a in base[1]])
    if base[0] == "mut" and len(base) > 3 and base[3] and isinstance(base[3][0], tuple) and base[3][0][0] == "f" and base[3][0][1] != i:
        return mk_field(base[1], i)   # the call changed another field of the object
    if base[0] == "mut" and len(base) > 3 and len(base[3]) > 1 and isinstance(base[3][0], tuple) and base[3][0] == ("f", i):
        # the call changed something deeper inside this field (`self.a.b.next()` then `self.a.c`): step into the
        # field and keep the rest of the changed path, so that a read of a sibling further down sees through it
        return ("mut", mk_field(base[1], i), base[2], tuple(base[3][1:])) + tuple(base[4:])
    if base[0] == "update" and base[2] and isinstance(base[2][0], tuple) and base[2][0][0] == "f" and base[2][0][1] != i:
        return mk_field(base[1], i)   # another field was assigned
    if base[0] == "update" and len(base) > 3 and base[2] and base[2][0] == ("f", i):
        if len(base[2]) == 1:
            return base[3]            # exactly this field was assigned
        return ("update", mk_field(base[1], i), tuple(base[2][1:]), base[3])   # something inside this field was assigned
    if base[0] == "mut" and len(base) > 3 and len(base[3]) == 1 and base[3][0] == ("f", i):
        return ("mut", mk_field(base[1], i), base[2], ()) + tuple(base[4:])   # the call changed exactly this field
    return ("field", base, i)


def mk_deref(base):
    if base[0] == "ref":
        return base[1]
    if base[0] == "phi":
        return mk_phi([mk_deref(a) for a in base[1]])
    return ("deref", base)


def mk_ref(base):
    if base[0] == "deref":
        return base[1]
    return ("ref", base)


def mk_variant(base, name):
    if base[0] == "agg" and "::" in str(base[1]):
        # aggregate of an enum variant: the downcast is the aggregate itself
        if str(base[1]).endswith("::" + str(name)):
            return base
    return ("variant", base, name)


def mk_phi(alts):
    flat = []
    for a in alts:
        if a[0] == "phi":
            flat.extend(a[1])
        else:
            flat.append(a)
    uniq = []
    for a in flat:
        if a not in uniq:
            uniq.append(a)
    if len(uniq) == 1:
        return uniq[0]
    return ("phi", tuple(sorted(uniq, key=repr)))


def mk_bin(op, a, b):
    if op in COMMUTATIVE and repr(b) < repr(a):
        a, b = b, a
    return ("bin", op, a, b)


_REF_PARAMS = None


def _ref_param_names():
    global _REF_PARAMS
    if _REF_PARAMS is None:
        import os
        _REF_PARAMS = {}
        fn = os.path.join(os.path.dirname(os.path.dirname(os.path.dirname(os.path.abspath(__file__)))), "rules", "reference_params.txt")
        if os.path.exists(fn):
            for l in open(fn):
                if l.startswith("#") or "\t" not in l:
                    continue
                k, v = l.rstrip("\n").split("\t", 1)
                _REF_PARAMS[k] = v.split(",")
    return _REF_PARAMS


class Origins:
    def __init__(self, fn, body=None, path=None):
        """path=None: all-paths mode (tokens are block ids, joins become phi).
        path=[b0,b1,..]: single-path mode (tokens are indices into path; no phi)."""
        self.fn = fn
        self.body = body or fn.body
        self.cfg = CFG(self.body)
        self.path = path
        self.track_mut = True
        self.inline_new = True   # look through pure helpers that do not exist in the reference tree
        self.depth = 0
        self.argc = self.body["argc"]
        self.memo = {}
        self.active = set()
        self.upvar_names = {}
        for u in self.body.get("upvars", []):
            pl = u["place"]
            if pl["l"] == 1:
                fs = [e["f"] for e in pl["p"] if isinstance(e, dict) and "f" in e]
                if fs:
                    self.upvar_names[fs[0]] = u["name"]

    # ---- public -------------------------------------------------------------------------
    def operand(self, o, bb, i):
        """Origin of operand `o` evaluated at statement index i of block bb (i=len → terminator)."""
        if "const" in o:
            c = o["const"]
            if "promoted" in c and c.get("of") == self.fn.id and c["promoted"] < len(self.fn.promoted) and self.body is not self.fn.promoted[c["promoted"]]:
                try:
                    return Origins(self.fn, body=self.fn.promoted[c["promoted"]]).return_origin()
                except Exception:
                    return const_tree(c)
            return const_tree(c)
        pl = o.get("copy") or o.get("move")
        if pl is None:
            return ("unknown", "operand")
        return self.place(pl, bb, i)

    def place(self, pl, bb, i):
        return self._place(pl["l"], tuple(_pe(e) for e in pl["p"]), bb, i)

    def _blk(self, tok):
        return self.path[tok] if self.path is not None else tok

    def _preds(self, tok):
        if self.path is not None:
            return [tok - 1] if tok > 0 else []
        return [p for p in self.cfg.pred[tok] if p in self.cfg.live_blocks()]

    def _is_entry(self, tok):
        return tok == 0

    def term_args(self, bb):
        t = self.body["blocks"][self._blk(bb)]["t"]
        n = len(self.body["blocks"][self._blk(bb)]["s"])
        return [self.operand(a, bb, n) for a in t["args"]]

    def end(self, tok):
        return len(self.body["blocks"][self._blk(tok)]["s"])

    def return_origin(self):
        if self.path is not None:
            k = len(self.path) - 1
            return self._place(0, (), k, self.end(k))
        alts = []
        for e in self.cfg.exits():
            n = len(self.body["blocks"][e]["s"])
            alts.append(self._place(0, (), e, n))
        return mk_phi(alts) if alts else ("unknown", "no return")

    # ---- core ---------------------------------------------------------------------------
    def _place(self, local, proj, bb, i):
        """Value of local.proj just before position (bb, i)."""
        # resolve leading derefs through the origin of the pointer
        base = self._local(local, proj, bb, i)
        return base

    def _apply(self, tree, proj):
        for e in proj:
            if e == "*":
                tree = mk_deref(tree)
            elif e[0] == "f":
                tree = mk_field(tree, e[1])
            elif e[0] == "down":
                tree = mk_variant(tree, e[1])
            elif e[0] == "idx":
                tree = ("index", tree, ("local", e[1]))
            elif e[0] == "cidx":
                tree = ("index", tree, ("const", e[1], True) if len(e) > 2 and e[2] else ("const", e[1]))
            else:
                tree = ("proj", tree, e)
        return tree

    def _local(self, local, proj, bb, i):
        key = (local, proj, bb, i)
        if key in self.memo:
            return self.memo[key]
        if key in self.active:
            return ("loop", local)
        self.active.add(key)
        try:
            r = self._search(local, proj, bb, i)
        finally:
            self.active.discard(key)
        self.memo[key] = r
        return r

    def _search(self, local, proj, bb, i):
        blocks = self.body["blocks"]
        stmts = blocks[self._blk(bb)]["s"]
        for j in range(min(i, len(stmts)) - 1, -1, -1):
            s = stmts[j]
            if s["k"] == "assign":
                q = s["place"]
                if q["l"] != local:
                    continue
                qp = tuple(_pe(e) for e in q["p"])
                if proj[:len(qp)] == qp:
                    val = self._rvalue(s["rv"], bb, j)
                    return self._apply(val, proj[len(qp):])
                if qp[:len(proj)] == proj:
                    # a sub-part of what we read was overwritten: combine
                    before = self._local(local, proj, bb, j)
                    val = self._rvalue(s["rv"], bb, j)
                    return ("update", before, qp[len(proj):], val)
                # disjoint fields unless a deref/index is involved
                continue
            elif s["k"] == "setdiscr" and s["place"]["l"] == local:
                return ("unknown", "setdiscr")
        # block start: predecessors
        hv = getattr(self, "havoc", None)
        if hv and self.path is not None and bb > 0 and local in hv.get(self._blk(bb), ()) and self._blk(bb - 1) not in hv.get(("body", self._blk(bb)), ()):
            # single-path mode, loop walked once: the search leaves the loop through its head, but the local is assigned
            # somewhere in the loop body — in an arbitrary iteration its value is not the one from before the loop
            return self._apply(("loopvar", local, self.body["locals"][local].get("name") or "_%d" % local), proj)
        alts = []
        if self._is_entry(bb):
            alts.append(self._entry(local, proj))
        for p in self._preds(bb):
            t = blocks[self._blk(p)]["t"]
            if t["k"] == "call" and t["dest"]["l"] == local:
                qp = tuple(_pe(e) for e in t["dest"]["p"])
                if proj[:len(qp)] == qp:
                    alts.append(self._apply(self._call(t, p), proj[len(qp):]))
                    continue
            if t["k"] == "call" and self.track_mut:
                # a call that receives `&mut local…` may modify it: ('mut', value before, call)
                hit = None
                pend = len(blocks[self._blk(p)]["s"])
                for a in t["args"]:
                    pl = a.get("move") or a.get("copy")
                    if pl is None or pl["p"]:
                        continue
                    tgt = self._mut_ref_target(pl["l"], p, pend, 0)
                    if tgt is not None and tgt[0] == local:
                        tp = tgt[1]
                        n = min(len(tp), len(proj))
                        if tp[:n] == proj[:n]:
                            hit = tp
                if hit is not None:
                    before = self._local(local, hit if len(hit) <= len(proj) else proj, p, pend)
                    node = ("mut", before, self._call(t, p), len(hit) > len(proj) and hit[len(proj):] or ())
                    alts.append(self._apply(node, proj[len(hit):]) if len(hit) <= len(proj) else node)
                    continue
            alts.append(self._local(local, proj, p, len(blocks[self._blk(p)]["s"])))
        if not alts:
            return ("unknown", "unreachable")
        alts = [a for a in alts if not (a[0] == "loop" and a[1] == local)] or alts
        return mk_phi(alts)

    def _mut_ref_target(self, l, tok, i, depth):
        """If local l (at position tok,i) holds `&mut place`, return (base local, proj) of place.
        The defining statement is searched backwards, through chains of single predecessors."""
        if depth > 8:
            return None
        ty = self.body["locals"][l]["ty"]
        if not (isinstance(ty, dict) and "ref" in ty and ty.get("mut")):
            return None
        blocks = self.body["blocks"]
        hops = 0
        while hops < 12:
            stmts = blocks[self._blk(tok)]["s"]
            for j in range(min(i, len(stmts)) - 1, -1, -1):
                s = stmts[j]
                if s["k"] == "assign" and s["place"]["l"] == l and not s["place"]["p"]:
                    rv = s["rv"]
                    if rv["k"] == "ref" and rv.get("mut"):
                        pl = rv["place"]
                        pp = tuple(_pe(e) for e in pl["p"])
                        if pp and pp[0] == "*":
                            inner = self._mut_ref_target(pl["l"], tok, j, depth + 1)
                            if inner is None:
                                if 1 <= pl["l"] <= self.argc and self.fn.kind != "closure":
                                    # `&mut (*param).field`: the target is the parameter's pointee itself
                                    return (pl["l"], pp)
                                return None
                            return (inner[0], inner[1] + pp[1:])
                        return (pl["l"], pp)
                    if rv["k"] in ("use", "cast"):
                        pl = rv["a"].get("move") or rv["a"].get("copy")
                        if pl is not None and not pl["p"]:
                            return self._mut_ref_target(pl["l"], tok, j, depth + 1)
                    return None
            preds = self._preds(tok)
            if len(preds) != 1:
                return None
            pt = blocks[self._blk(preds[0])]["t"]
            if pt["k"] == "call" and pt["dest"]["l"] == l:
                return None
            tok = preds[0]
            i = len(blocks[self._blk(tok)]["s"])
            hops += 1
        return None

    def _entry(self, local, proj):
        if 1 <= local <= self.argc:
            name = self.body["locals"][local].get("name")
            if self.fn.kind == "closure" and local == 1:
                # closure environment: (*_1).k or _1.k are upvars
                rest = list(proj)
                if rest and rest[0] == "*":
                    rest = rest[1:]
                if rest and rest[0][0] == "f":
                    k = rest[0][1]
                    t = ("upvar", k, self.upvar_names.get(k))
                    return self._apply(t, tuple(rest[1:]))
                return self._apply(("param", 1, "env"), proj)
            ref = _ref_param_names().get(self.fn.path) if self.fn.kind in ("fn", "assoc_fn") else None
            if ref is not None and len(ref) == self.argc:
                name = ref[local - 1]   # the parameter's name in the reference tree: a rename does not change the trees
            return self._apply(("param", local, name), proj)
        return ("uninit", local)

    def _call(self, t, bb):
        n = len(self.body["blocks"][self._blk(bb)]["s"])
        f = t["f"]
        if "indirect" in f:
            return ("callind", self.operand(f["indirect"], bb, n), tuple(self.operand(a, bb, n) for a in t["args"]))
        r = f.get("resolved") or f
        gargs = tuple(ty_str(a) for a in r.get("args", []))
        node = ("call", r["path"], gargs, tuple(self.operand(a, bb, n) for a in t["args"]))
        # calls that receive a `&mut` may observe/modify state: successive calls are different
        # values, so the node carries its call site
        for a in t["args"]:
            pl = a.get("move") or a.get("copy")
            if pl is not None and not pl["p"]:
                ty = self.body["locals"][pl["l"]]["ty"]
                if isinstance(ty, dict) and "ref" in ty and ty.get("mut"):
                    return node + ("@bb%d" % self._blk(bb),)
        if self.inline_new and self.depth < 3:
            inl = self._inline_helper(r["path"], node)
            if inl is not None:
                return inl
        return node

    def _inline_helper(self, path, node):
        """A call to a pure crate-local function that does not exist in the reference tree (a helper
        introduced by an edit) is replaced by the helper's own return origin with the arguments substituted.
        Helpers returning bool stay calls (guard utilities expand them with their conditions)."""
        prog = getattr(self.fn, "prog", None)
        if prog is None:
            return None
        cands = [g for g in prog.by_path.get(path, []) if g.body and g.kind in ("fn", "assoc_fn")]
        if len(cands) != 1:
            return None
        g = cands[0]
        if g.id == self.fn.id or not prog.is_new(g) or g.body["locals"][0]["ty"] == "bool":
            return None
        key = ("inl", g.id)
        try:
            sub = Origins(g)
            sub.depth = self.depth + 1
            ret = sub.return_origin()
        except RecursionError:
            return None
        bad = [x for x in walk(ret) if x[0] in ("loop", "unknown", "uninit")]
        if bad:
            return None
        args = node[3]

        def rep(x):
            if x[0] == "param" and 1 <= x[1] <= len(args):
                return args[x[1] - 1]
            return None
        out = subst(ret, rep)
        # a generic helper (`fn luma_of<C>(c: C) where Rgb888: From<C>`): calls inside it mention its own type
        # parameters; put the type arguments of this call in their place and resolve From / Into to the impl they select
        names = [x_["name"] for x_ in g.generics if x_.get("kind", "type") != "lifetime"]
        cg = [a for a in node[2] if a != "'_"]
        if names and len(names) == len(cg):
            gmap = dict(zip(names, cg))

            def fixg(x):
                if x[0] == "call" and x[2] and any(a in gmap for a in x[2]):
                    ng = tuple(gmap.get(a, a) for a in x[2])
                    path = x[1]
                    if path in ("core::convert::From::from", "core::convert::Into::into") and len(ng) >= 2:
                        tgt, src = (ng[0], ng[1]) if path.endswith("From::from") else (ng[1], ng[0])
                        for i_ in prog.impls.values():
                            if i_.get("trait") == "core::convert::From" and "from" in i_["fns"] and ty_str(i_["self_ty"]) == tgt \
                                    and len(i_.get("trait_args", [])) >= 2 and ty_str(i_["trait_args"][1]) == src:
                                return ("call", prog.fns[i_["fns"]["from"]].path, ng) + tuple(x[3:])
                    return ("call", path, ng) + tuple(x[3:])
                return None
            out = subst(out, fixg)
        return out

    def _rvalue(self, rv, bb, j):
        k = rv["k"]
        if k == "use":
            return self.operand(rv["a"], bb, j)
        if k == "ref":
            return mk_ref(self.place(rv["place"], bb, j))
        if k == "rawptr":
            return mk_ref(self.place(rv["place"], bb, j))
        if k == "cast":
            a = self.operand(rv["a"], bb, j)
            if rv["cast"].startswith("PointerCoercion") or rv["cast"] in ("PtrToPtr", "Transmute") and False:
                return a
            return ("cast", a, ty_str(rv["ty"]))
        if k == "bin":
            return mk_bin(rv["op"], self.operand(rv["a"], bb, j), self.operand(rv["b"], bb, j))
        if k == "un":
            return ("un", rv["op"], self.operand(rv["a"], bb, j))
        if k == "discr":
            return ("discr", self.place(rv["place"], bb, j))
        if k == "agg":
            if rv["agg"] == "adt":
                name = rv["adt"] + "::" + rv["variant"]
            elif rv["agg"] == "closure":
                name = "closure:" + rv["closure"]
            else:
                name = rv["agg"]
            return ("agg", name, tuple(self.operand(o, bb, j) for o in rv["ops"]))
        if k == "repeat":
            return ("repeat", self.operand(rv["a"], bb, j), const_str(rv["n"]))
        return ("unknown", k)


def _pe(e):
    if e == "*":
        return "*"
    if isinstance(e, dict):
        if "f" in e:
            return ("f", e["f"])
        if "down" in e:
            return ("down", e.get("name") or e["down"])
        if "idx" in e:
            return ("idx", e["idx"])
        if "cidx" in e:
            return ("cidx", e["cidx"], e.get("from_end", False))
        if "sub" in e:
            return ("sub", e["sub"], e["to"], e.get("from_end", False))
    return ("other", str(e))


# ---- tree utilities ---------------------------------------------------------------------
def walk(t):
    yield t
    if not isinstance(t, tuple):
        return
    for x in t[1:]:
        if isinstance(x, tuple):
            if x and isinstance(x[0], str):
                yield from walk(x)
            else:
                for y in x:
                    if isinstance(y, tuple):
                        yield from walk(y)


def subst(t, f):
    """Bottom-up rewrite: f(node) -> node or None (keep)."""
    if not isinstance(t, tuple) or not t:
        return t
    if isinstance(t[0], str):
        new = [t[0]]
        for x in t[1:]:
            if isinstance(x, tuple) and x and isinstance(x[0], str):
                new.append(subst(x, f))
            elif isinstance(x, tuple):
                new.append(tuple(subst(y, f) if isinstance(y, tuple) else y for y in x))
            else:
                new.append(x)
        n = tuple(new)
        # re-simplify
        if n[0] == "field":
            n = mk_field(n[1], n[2])
        elif n[0] == "deref":
            n = mk_deref(n[1])
        elif n[0] == "phi":
            n = mk_phi(list(n[1]))
        elif n[0] == "bin":
            n = mk_bin(n[1], n[2], n[3])
        elif n[0] == "variant":
            n = mk_variant(n[1], n[2])
        r = f(n)
        return n if r is None else r
    return t


def calls_in(t):
    return [n for n in walk(t) if isinstance(n, tuple) and n and n[0] == "call"]


def leaves(t):
    return [n for n in walk(t) if isinstance(n, tuple) and n and n[0] in ("param", "upvar", "const", "unknown", "loop", "uninit")]


def show(t, depth=0, maxd=12):
    """Compact rendering for reports."""
    if not isinstance(t, tuple) or not t:
        return repr(t)
    if depth > maxd:
        return "…"
    k = t[0]
    if k == "param":
        return "%s" % (t[2] or "arg%d" % t[1])
    if k == "upvar":
        return "^%s" % (t[2] or t[1])
    if k == "const":
        return repr(t[1]) if not isinstance(t[1], str) else t[1]
    if k == "call":
        short = t[1].split("::")[-1] if not t[1].startswith("<") else t[1]
        return "%s(%s)" % (_short(t[1]), ", ".join(show(a, depth + 1, maxd) for a in t[3]))
    if k == "bin":
        return "%s(%s, %s)" % (t[1], show(t[2], depth + 1, maxd), show(t[3], depth + 1, maxd))
    if k == "un":
        return "%s(%s)" % (t[1], show(t[2], depth + 1, maxd))
    if k == "cast":
        return "(%s as %s)" % (show(t[1], depth + 1, maxd), t[2])
    if k == "agg":
        return "%s{%s}" % (_short(str(t[1])), ", ".join(show(a, depth + 1, maxd) for a in t[2]))
    if k == "field":
        return "%s.%d" % (show(t[1], depth + 1, maxd), t[2])
    if k == "variant":
        return "(%s as %s)" % (show(t[1], depth + 1, maxd), t[2])
    if k == "deref":
        return "*%s" % show(t[1], depth + 1, maxd)
    if k == "ref":
        return "&%s" % show(t[1], depth + 1, maxd)
    if k == "phi":
        return "φ{%s}" % " | ".join(show(a, depth + 1, maxd) for a in t[1])
    if k == "discr":
        return "discr(%s)" % show(t[1], depth + 1, maxd)
    if k == "index":
        return "%s[%s]" % (show(t[1], depth + 1, maxd), show(t[2], depth + 1, maxd) if isinstance(t[2], tuple) else t[2])
    return "%s(%s)" % (k, ", ".join(show(a, depth + 1, maxd) if isinstance(a, tuple) and a and isinstance(a[0], str) else str(a) for a in t[1:]))


def _short(p):
    if p.startswith("<"):
        return p
    parts = p.split("::")
    return "::".join(parts[-2:]) if len(parts) > 1 else p


# ---- decision extraction (A.7) -----------------------------------------------------------
def enum_paths(cfg, start=0, stop=None, limit=256):
    """All acyclic paths from `start` to blocks satisfying stop(b) (default: return blocks).
    Raises TooManyPaths beyond `limit`."""
    body = cfg.body
    if stop is None:
        stop = lambda b: body["blocks"][b]["t"] and body["blocks"][b]["t"]["k"] == "return"
    out = []

    def rec(b, path, onpath):
        if len(out) > limit:
            raise TooManyPaths()
        path.append(b)
        onpath.add(b)
        if stop(b):
            out.append(list(path))
        else:
            for s in cfg.succ[b]:
                if s not in onpath:
                    rec(s, path, onpath)
        path.pop()
        onpath.discard(b)

    rec(start, [], set())
    return out


class TooManyPaths(Exception):
    pass


def path_conditions(fn, path, po=None):
    """Literals (discriminant origin tree, value-or-'otherwise:{excluded}') along a path."""
    po = po or Origins(fn, path=path)
    lits = []
    blocks = fn.body["blocks"]
    for k in range(len(path) - 1):
        t = blocks[path[k]]["t"]
        if t["k"] == "switch":
            nxt = path[k + 1]
            d = po.operand(t["d"], k, po.end(k))
            vals = [v for v, b in t["targets"] if b == nxt]
            if vals and nxt != t["otherwise"]:
                lits.append((d, tuple(vals)))
            elif vals:
                lits.append((d, ("any",)))
            else:
                lits.append((d, ("not",) + tuple(v for v, _ in t["targets"])))
        elif t["k"] == "assert":
            pass
    return lits


def decisions(fn, limit=256):
    """[(literals, return_origin)] for every entry→return path of a small acyclic function."""
    cfg = CFG(fn.body)
    out = []
    for path in enum_paths(cfg, 0, None, limit):
        po = Origins(fn, path=path)
        out.append((path_conditions(fn, path, po), po.return_origin(), path))
    return out


def dominating_guards(fn, org, B):
    """Literals (discriminant origin, values) of switch edges that every entry→B path takes.
    `org` is an all-paths Origins of fn."""
    cfg = org.cfg
    out = []
    blocks = fn.body["blocks"]
    for S in sorted(cfg.live_blocks()):
        t = blocks[S]["t"]
        if not t or t["k"] != "switch" or S == B and False:
            continue
        succs = {}
        for v, b in t["targets"]:
            succs.setdefault(b, []).append(v)
        succs.setdefault(t["otherwise"], [])
        for tgt, vals in succs.items():
            if tgt == B or cfg.dominates(tgt, B) or True:
                if cfg.edge_dominates(S, tgt, B) and S != B:
                    d = org.operand(t["d"], S, len(blocks[S]["s"]))
                    if tgt == t["otherwise"] and not vals:
                        lit = ("not",) + tuple(v for v, _ in t["targets"])
                    elif tgt == t["otherwise"]:
                        lit = ("any",)
                    else:
                        lit = tuple(vals)
                    out.append((d, lit))
    return out


def lit_truth(lit):
    """Interpret a switch literal on a boolean discriminant: True / False / None."""
    if lit == (0,):
        return False
    if lit == (1,) or lit == ("not", 0):
        return True
    if lit == ("not", 1):
        return False
    return None


def discr_guards_typed(fn, org, B):
    """Like dominating_guards but only for switches on `discriminant(local)` of a projection-free local:
    returns [(adt path of the local's type, literal)]."""
    cfg = org.cfg
    blocks = fn.body["blocks"]
    out = []
    for S in sorted(cfg.live_blocks()):
        t = blocks[S]["t"]
        if not t or t["k"] != "switch" or S == B:
            continue
        pl = t["d"].get("move") or t["d"].get("copy")
        if pl is None or pl["p"]:
            continue
        src = None
        for s in reversed(blocks[S]["s"]):
            if s["k"] == "assign" and s["place"]["l"] == pl["l"] and not s["place"]["p"]:
                if s["rv"]["k"] == "discr" and not s["rv"]["place"]["p"]:
                    src = s["rv"]["place"]["l"]
                break
        if src is None:
            continue
        ty = fn.body["locals"][src]["ty"]
        adt = ty.get("adt") if isinstance(ty, dict) else None
        if adt is None:
            continue
        succs = {}
        for v, b in t["targets"]:
            succs.setdefault(b, []).append(v)
        succs.setdefault(t["otherwise"], [])
        for tgt, vals in succs.items():
            if cfg.edge_dominates(S, tgt, B):
                if tgt == t["otherwise"] and not vals:
                    lit = ("not",) + tuple(v for v, _ in t["targets"])
                elif tgt == t["otherwise"]:
                    lit = ("any",)
                else:
                    lit = tuple(vals)
                out.append((adt, lit))
    return out
