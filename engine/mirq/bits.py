"""D2 — bit-provenance abstract domain evaluated over origin trees (DESIGN.md A.5).

Each bit of an integer is 0, 1, ('in', name, j) (a copy of bit j of input `name`) or 'T' (unknown).
Exact for the shift/mask/cast straight-line code of the pixel colour types; anything else yields 'T'
bits, which leave the obligation that needs them undischarged (never silently accepted)."""
import json
from .origin import Origins

T = "T"


import sys as _sys
NATIVE_ENDIAN = "le" if _sys.byteorder == "little" else "be"


class BV:
    def __init__(self, bits, width=None):
        self.bits = list(bits)
        self.width = width
        if width is not None:
            self.bits = (self.bits + [0] * width)[:width]

    @staticmethod
    def const(v, width=None):
        bits = []
        n = width if width is not None else max(v.bit_length(), 1)
        for j in range(n):
            bits.append((v >> j) & 1)
        return BV(bits, width)

    @staticmethod
    def inp(name, width):
        return BV([("in", name, j) for j in range(width)], width)

    def bit(self, j):
        if j < len(self.bits):
            return self.bits[j]
        return 0

    def resized(self, width):
        return BV(self.bits[:width], width)

    def as_int(self):
        v = 0
        for j, b in enumerate(self.bits):
            if b == 1:
                v |= 1 << j
            elif b != 0:
                return None
        return v

    def __repr__(self):
        def s(b):
            return str(b) if b in (0, 1, T) else "%s[%d]" % (b[1], b[2])
        return "BV%s<%s>" % (self.width or "", " ".join(s(b) for b in reversed(self.bits)))

    def __eq__(self, o):
        if not isinstance(o, BV):
            return False
        n = max(len(self.bits), len(o.bits))
        return all(self.bit(j) == o.bit(j) for j in range(n))


class Struct:
    def __init__(self, ty, fields):
        self.ty = ty
        self.fields = fields

    def __repr__(self):
        return "%s{%s}" % (self.ty.split("::")[-1], ", ".join("%s" % v for v in self.fields.values()))


class Arr:
    def __init__(self, items):
        self.items = list(items)

    def __repr__(self):
        return "[%s]" % ", ".join(repr(x) for x in self.items)


class Unknown:
    def __init__(self, why):
        self.why = why

    def __repr__(self):
        return "?(%s)" % self.why


def _w(a, b):
    return a.width if a.width is not None else b.width


def b_and(x, y):
    if x == 0 or y == 0:
        return 0
    if x == 1:
        return y
    if y == 1:
        return x
    if x == y:
        return x
    return T


def b_or(x, y):
    if x == 1 or y == 1:
        return 1
    if x == 0:
        return y
    if y == 0:
        return x
    if x == y:
        return x
    return T


def b_xor(x, y):
    if x == 0:
        return y
    if y == 0:
        return x
    if x in (0, 1) and y in (0, 1):
        return x ^ y
    return T


def bitwise(op, a, b):
    w = _w(a, b)
    n = w if w is not None else max(len(a.bits), len(b.bits))
    return BV([op(a.bit(j), b.bit(j)) for j in range(n)], w)


WIDTHS = {"u8": 8, "u16": 16, "u32": 32, "u64": 64, "usize": 64, "i8": 8, "i16": 16, "i32": 32, "i64": 64, "isize": 64, "u128": 128, "bool": 1}


class BitEval:
    def __init__(self, prog):
        self.prog = prog
        self._ret = {}
        self.notes = []

    def ret(self, f):
        if f.id not in self._ret:
            self._ret[f.id] = Origins(f).return_origin()
        return self._ret[f.id]

    # ---- inputs from types ---------------------------------------------------------------
    def input_of(self, ty, name):
        if isinstance(ty, str):
            if ty in WIDTHS:
                return BV.inp(name, WIDTHS[ty])
            return Unknown("type " + ty)
        if isinstance(ty, dict) and "adt" in ty:
            adt = self.prog.adts.get(ty["adt"])
            if adt and adt["kind"] == "struct":
                fs = adt["variants"][0]["fields"]
                return Struct(ty["adt"], {i: self.input_of(f["ty"], name + "." + str(i)) for i, f in enumerate(fs)})
            return Unknown("adt " + ty["adt"])
        if isinstance(ty, dict) and "ref" in ty:
            return self.input_of(ty["ref"], name)
        return Unknown("type")

    def call_fn(self, f, args, depth=0):
        if depth > 12:
            return Unknown("depth")
        env = {i + 1: a for i, a in enumerate(args)}
        v = self.eval(self.ret(f), env, f, depth)
        if isinstance(v, Unknown) and "phi" in str(getattr(v, "why", v)):
            # a branch on a compile-time constant (`if cfg!(..)`, `if O::IS_ALTERNATE_ORDER` after instantiation) joins two
            # values in the all-paths tree; the path summaries keep only the branch the constant selects
            try:
                from .paths import Paths
                if not hasattr(self.prog, "_bits_paths"):
                    self.prog._bits_paths = Paths(self.prog, inline=lambda g: False)
                ss = self.prog._bits_paths.of(f)
                if len(ss) == 1 and not ss[0].effects and not ss[0].facts:
                    v2 = self.eval(ss[0].ret, env, f, depth)
                    if not isinstance(v2, Unknown):
                        return v2
            except Exception:
                pass
        return v

    # ---- evaluation -----------------------------------------------------------------------
    def eval(self, t, env, fn, depth=0):
        k = t[0]
        if k == "param":
            return env.get(t[1], Unknown("param %d" % t[1]))
        if k in ("ref", "deref"):
            return self.eval(t[1], env, fn, depth)
        if k == "const":
            v = t[1]
            if isinstance(v, bool):
                return BV.const(int(v), 1)
            if isinstance(v, int):
                return BV.const(v)
            if isinstance(v, str) and v.startswith("val:"):
                return self.from_json(json.loads(v[4:]))
            return Unknown("const %r" % (v,))
        if k == "cast":
            a = self.eval(t[1], env, fn, depth)
            if isinstance(a, BV) and t[2] in WIDTHS:
                return a.resized(WIDTHS[t[2]])
            return Unknown("cast to " + str(t[2]))
        if k == "bin":
            a, b = self.eval(t[2], env, fn, depth), self.eval(t[3], env, fn, depth)
            if not (isinstance(a, BV) and isinstance(b, BV)):
                return Unknown("bin operand")
            op = t[1]
            if op == "BitAnd":
                return bitwise(b_and, a, b)
            if op == "BitOr":
                return bitwise(b_or, a, b)
            if op == "BitXor":
                return bitwise(b_xor, a, b)
            if op in ("Shl", "ShlUnchecked", "Shr", "ShrUnchecked"):
                n = b.as_int()
                if n is None:
                    return BV([T] * (a.width or len(a.bits)), a.width)
                if op.startswith("Shl"):
                    bits = [0] * n + a.bits
                    return BV(bits, a.width) if a.width is not None else BV(bits)
                return BV(a.bits[n:] or [0], a.width)
            if op in ("Add", "Sub", "Mul"):
                ia, ib = a.as_int(), b.as_int()
                w = _w(a, b)
                if ia is not None and ib is not None:
                    v = {"Add": ia + ib, "Sub": ia - ib, "Mul": ia * ib}[op]
                    if w is not None:
                        v &= (1 << w) - 1
                    return BV.const(v, w) if v >= 0 else Unknown("negative")
                if op == "Add":
                    n = w if w is not None else max(len(a.bits), len(b.bits))
                    if all(a.bit(j) == 0 or b.bit(j) == 0 for j in range(n)):
                        return bitwise(b_or, a, b)
                n = w if w is not None else max(len(a.bits), len(b.bits))
                return BV([T] * n, w)
            n = _w(a, b) or max(len(a.bits), len(b.bits))
            return BV([T] * n, _w(a, b))
        if k == "un":
            a = self.eval(t[2], env, fn, depth)
            if isinstance(a, BV) and t[1] == "Not" and a.width is not None:
                return BV([1 - x if x in (0, 1) else T for x in a.bits], a.width)
            return Unknown("un " + t[1])
        if k == "field":
            a = self.eval(t[1], env, fn, depth)
            if isinstance(a, Struct):
                return a.fields.get(t[2], Unknown("field"))
            return Unknown("field of %r" % (a,))
        if k == "agg":
            name = str(t[1])
            ops = [self.eval(o, env, fn, depth) for o in t[2]]
            if name == "array":
                return Arr(ops)
            if name == "tuple":
                return Struct("tuple", dict(enumerate(ops)))
            if "::" in name and not name.startswith("closure:"):
                adt = name.rsplit("::", 1)[0]
                return Struct(adt, dict(enumerate(ops)))
            return Unknown("agg " + name)
        if k == "phi":
            vals = [self.eval(a, env, fn, depth) for a in t[1]]
            return self.join(vals)
        if k == "repeat":
            a = self.eval(t[1], env, fn, depth)
            try:
                return Arr([a] * int(t[2]))
            except Exception:
                return Unknown("repeat")
        if k == "mut":
            call = t[2]
            if call[0] == "call" and call[1].endswith("copy_from_slice"):
                return self.eval(call[3][1], env, fn, depth)
            return Unknown("mutation by " + (call[1] if call[0] == "call" else "?"))
        if k == "call":
            return self.call(t, env, fn, depth)
        if k == "index":
            # constant index into an array value (array patterns `let [_, b2, b1, b0] = x.to_be_bytes()`)
            a = self.eval(t[1], env, fn, depth)
            i = t[2]
            if isinstance(a, Arr) and isinstance(i, tuple) and i and i[0] == "const" and isinstance(i[1], int) and not isinstance(i[1], bool):
                n = len(a.items)
                j = n - i[1] if (len(i) > 2 and i[2]) else i[1]
                if 0 <= j < n:
                    return a.items[j]
            return Unknown("index")
        return Unknown("node " + k)

    def join(self, vals):
        if all(isinstance(v, BV) for v in vals):
            out = vals[0]
            for v in vals[1:]:
                w = _w(out, v)
                n = w if w is not None else max(len(out.bits), len(v.bits))
                out = BV([out.bit(j) if out.bit(j) == v.bit(j) else T for j in range(n)], w)
            return out
        return Unknown("phi of non-integers")

    def from_json(self, v):
        if isinstance(v, bool):
            return BV.const(int(v), 1)
        if isinstance(v, int):
            return BV.const(v)
        if isinstance(v, dict) and "struct" in v:
            adt = self.prog.adts.get(v["struct"])
            fs = {}
            for i, (name, val) in enumerate(v["fields"].items()):
                x = self.from_json(val)
                if isinstance(x, BV) and adt:
                    ft = adt["variants"][0]["fields"][i]["ty"]
                    if isinstance(ft, str) and ft in WIDTHS:
                        x = x.resized(WIDTHS[ft])
                fs[i] = x
            return Struct(v["struct"], fs)
        return Unknown("const value")

    def call(self, t, env, fn, depth):
        path, gargs, targs = t[1], t[2], t[3]
        args = [self.eval(a, env, fn, depth) for a in targs]
        name = path.split("::")[-1]
        # crate-local function with a body
        cands = [f for f in self.prog.by_path.get(path, []) if f.body and f.kind in ("fn", "assoc_fn")]
        if len(cands) == 1 and not cands[0].d.get("trait_def"):
            return self.call_fn(cands[0], args, depth + 1)
        # lossless integer / bool widening: `u8::from(flag)`, `u16::from(byte)`
        if name == "from" and "convert::num" in path and len(args) == 1 and isinstance(args[0], BV):
            import re as _re
            m_ = _re.search(r"for (u|i)(8|16|32|64|128|size)>", path)
            if m_ and m_.group(1) == "u":
                w_ = 64 if m_.group(2) == "size" else int(m_.group(2))
                bits_ = list(args[0].bits)[:w_]
                return BV(bits_ + [0] * (w_ - len(bits_)), w_)
        # core integer byte (de)serialisers
        if path.startswith("core::num::") and name in ("to_be_bytes", "to_le_bytes", "to_ne_bytes") and isinstance(args[0], BV) and args[0].width:
            a = args[0]
            by = [BV(a.bits[8 * i:8 * i + 8], 8) for i in range(a.width // 8)]
            if name == "to_ne_bytes":        # the facts are extracted by a host build: native order = the host's
                name = "to_%s_bytes" % NATIVE_ENDIAN
            return Arr(by if name == "to_le_bytes" else list(reversed(by)))
        if name == "index" and len(args) == 2 and isinstance(args[0], Arr) and isinstance(args[1], Struct):
            lo, hi = args[1].fields.get(0), args[1].fields.get(1)
            if isinstance(lo, BV) and isinstance(hi, BV) and lo.as_int() is not None and hi.as_int() is not None:
                return Arr(args[0].items[lo.as_int():hi.as_int()])
        # trait methods resolved by the receiver's value type
        recv = args[0] if args else None
        if isinstance(recv, Struct):
            f = self.resolve_by_receiver(path, name, recv, gargs)
            if f is not None:
                return self.call_fn(f, args, depth + 1)
        if name in ("clone",) and args:
            return args[0]
        return Unknown("call " + path)

    def resolve_by_receiver(self, path, name, recv, gargs):
        prog = self.prog
        rty = recv.ty
        if name in ("into", "from") and ("convert::Into" in path or "convert::From" in path):
            # colour -> its Raw type, or Raw -> colour: pick the unique From impl between rty and its partner
            raw = self.raw_of(rty)
            targets = []
            for i in prog.impls.values():
                if i.get("trait") == "core::convert::From" and "from" in i["fns"]:
                    src = i["trait_args"][1]
                    if isinstance(src, dict) and src.get("adt") == rty:
                        dst = i["self_ty"].get("adt") if isinstance(i["self_ty"], dict) else None
                        if raw is not None and dst == raw:
                            targets.append(prog.fns[i["fns"]["from"]])
            if len(targets) == 1:
                return targets[0]
            return None
        for i in prog.impls.values():
            st = i["self_ty"]
            if isinstance(st, dict) and st.get("adt") == rty and name in i["fns"]:
                tr = i.get("trait") or ""
                if tr and tr.split("::")[-1] in path:
                    return prog.fns[i["fns"][name]]
        return None

    def raw_of(self, adt):
        for i in self.prog.impls.values():
            if i.get("trait") == "embedded_graphics_core::pixelcolor::PixelColor" and isinstance(i["self_ty"], dict) and i["self_ty"].get("adt") == adt:
                r = i["types"].get("Raw")
                if isinstance(r, dict):
                    return r.get("adt")
        return None
