"""Obligation bookkeeping, known findings, evidence and replay files."""
import json, os, re, sys, time

VERIF = os.path.dirname(os.path.dirname(os.path.abspath(__file__)))
KNOWN_FILE = os.path.join(VERIF, "KNOWN_FINDINGS.txt")


def load_known():
    """known: property=<id> key=<key> <what fails>   /   fixed: property=<id> <commit> <what>"""
    known = {}
    if not os.path.exists(KNOWN_FILE):
        return known
    for line in open(KNOWN_FILE):
        line = line.strip()
        m = re.match(r"known:\s+property=(\S+)\s+key=(\S+)\s+(.*)$", line)
        if m:
            known[(m.group(1), m.group(2))] = m.group(3)
    return known


class Report:
    def __init__(self, pid, tier, seed=0):
        self.pid = pid
        self.tier = tier
        self.seed = seed
        self.t0 = time.time()
        self.obligations = []  # dicts: rule,key,status(discharged|refuted|undecided),why,at,fn,detail,nontrivial
        self.samples = []
        self.assumptions = []
        self.analysed = {}
        self.configs = []
        self.notes = []
        self.known = load_known()

    # ---- recording ------------------------------------------------------------------
    def ok(self, rule, key, detail=None, nontrivial=True, at="", fn=""):
        self.obligations.append(dict(rule=rule, key=key, status="discharged", detail=detail, nontrivial=nontrivial, at=at, fn=fn, why="", pack=getattr(self, "pack", None)))

    def fail(self, rule, key, why, status="refuted", at="", fn="", detail=None):
        assert status in ("refuted", "undecided")
        self.obligations.append(dict(rule=rule, key=key, status=status, why=why, at=at, fn=fn, detail=detail, nontrivial=True, pack=getattr(self, "pack", None)))

    def check(self, cond, rule, key, why, at="", fn="", detail=None, status="refuted", nontrivial=True):
        if cond:
            self.ok(rule, key, detail=detail, at=at, fn=fn, nontrivial=nontrivial)
        else:
            self.fail(rule, key, why, status=status, at=at, fn=fn, detail=detail)
        return cond

    def floor(self, rule, what, count, minimum):
        """Fail closed when an instance count falls below what was confirmed by hand."""
        self.analysed["%s:%s" % (rule, what)] = count
        if count < minimum:
            self.fail(rule, "floor:%s" % what, "instance count %d below confirmed floor %d (anchor lost?)" % (count, minimum), status="undecided")
        else:
            self.ok(rule, "floor:%s" % what, detail="%d >= %d" % (count, minimum), nontrivial=False)

    def sample(self, s):
        if len(self.samples) < 12:
            self.samples.append(s)

    def assume(self, a):
        if a not in self.assumptions:
            self.assumptions.append(a)

    # ---- finishing ------------------------------------------------------------------
    def finish(self, level, explanation, trusted_base, checker_cmd):
        pid = self.pid
        # a rule pack shared between properties may run twice inside one check: one obligation per (rule, key, status)
        uniq, seen_o = [], {}
        for o in self.obligations:
            k_ = (o["rule"], o["key"], o["status"])
            if k_ in seen_o and seen_o[k_] != o.get("pack"):
                continue
            seen_o.setdefault(k_, o.get("pack"))
            uniq.append(o)
        self.obligations = uniq
        viol = []
        known_hit = []
        seen_keys = set()
        for o in self.obligations:
            if o["status"] == "discharged":
                continue
            k = ("%s:%s" % (o["rule"], o["key"])).replace(" ", "_")
            o["fullkey"] = k
            if k in seen_keys:
                continue
            seen_keys.add(k)
            if (pid, k) in self.known:
                known_hit.append((k, self.known[(pid, k)], o))
            else:
                viol.append(o)
        ev_dir = os.environ.get("VERIF_EVIDENCE_DIR") or os.path.join(VERIF, "evidence")
        rp_dir = os.path.join(ev_dir, "replay")
        os.makedirs(rp_dir, exist_ok=True)
        for k, what, o in known_hit:
            print("KNOWN-FINDING: property=%s %s [%s]" % (pid, what, k))
        for o in viol:
            import hashlib
            safe = re.sub(r"[^A-Za-z0-9_.-]+", "_", o["fullkey"])[:110] + "-" + hashlib.sha1(o["fullkey"].encode()).hexdigest()[:8]
            path = os.path.join(rp_dir, "%s-%s.txt" % (pid, safe))
            with open(path, "w") as fh:
                fh.write("property=%s\nrule=%s\nkey=%s\nstatus=%s\nat=%s\nfn=%s\nwhy=%s\n" % (
                    pid, o["rule"], o["fullkey"], o["status"], o.get("at", ""), o.get("fn", ""), o["why"]))
                if o.get("detail") is not None:
                    fh.write("detail=%s\n" % (o["detail"] if isinstance(o["detail"], str) else json.dumps(o["detail"], default=str)))
            sys.stderr.write("rule=%s key=%s at=%s fn=%s why=%s: %s\n" % (o["rule"], o["fullkey"], o.get("at", ""), o.get("fn", ""), o["status"], o["why"]))
            print("VIOLATION property=%s replay=%s" % (pid, path))
        n_obl = len(self.obligations)
        n_dis = sum(1 for o in self.obligations if o["status"] == "discharged")
        nontriv = len({(o["rule"], o["key"]) for o in self.obligations if o.get("nontrivial")})
        by_rule = {}
        for o in self.obligations:
            r = by_rule.setdefault(o["rule"], dict(obligations=0, discharged=0))
            r["obligations"] += 1
            r["discharged"] += o["status"] == "discharged"
        if not self.samples:
            for o in self.obligations[:8]:
                self.samples.append({"rule": o["rule"], "key": o["key"], "status": o["status"], "detail": o.get("detail")})
        # for a proof-level claim, known findings mean obligations != discharged; report honestly
        cov = {
            "obligations": n_obl,
            "discharged": n_dis,
            "evaluations": n_obl,
            "distinct_nontrivial": nontriv,
            "rule": "one obligation per rule instance (function, call site, table entry, instantiation); non-trivial = instance needed analysis beyond an anchor/floor lookup; distinct by (rule,key)",
            "checker_cmd": checker_cmd,
            "trusted_base": trusted_base,
            "explanation": explanation,
            "samples": self.samples,
            "by_rule": by_rule,
            "analysed": self.analysed,
            "configs": self.configs,
            "known_findings_reported": [k for k, _, _ in known_hit],
            "unlisted_violations": [o["fullkey"] for o in viol],
            "exhaustive": True,
        }
        ev = {
            "property_id": pid,
            "tier": self.tier,
            "seed": self.seed,
            "level": level,
            "coverage": cov,
            "assumptions": self.assumptions,
            "wall_s": round(time.time() - self.t0, 2),
            "violations": len(viol),
        }
        with open(os.path.join(ev_dir, pid + ".json"), "w") as fh:
            json.dump(ev, fh, indent=1, default=str)
        print("%s: %d obligations, %d discharged, %d known findings, %d violations (%.1fs)" % (
            pid, n_obl, n_dis, len(known_hit), len(viol), time.time() - self.t0))
        return 1 if viol else 0
