"""E4 — run the compile-fail witnesses of /verif/witness against the tree being analysed."""
import hashlib, os, re, shutil, subprocess, sys
import extract

EXPECT = {"W10TooSmall": "compile fail", "W10Exact": "ok", "W10Oversized": "ok", "W10SubByteTooSmall": "compile fail", "W10SubByteExact": "ok",
          "W09Short": "compile fail", "W09Long": "compile fail", "W09Exact": "ok"}


def run():
    """-> {witness name: (kind, 'ok'|'FAILED')} ; raises SystemExit if the harness cannot run"""
    src = os.path.join(extract.VERIF, "witness")
    d = os.path.join(extract.WORK, "witness_build", hashlib.sha1(extract.REPO.encode()).hexdigest()[:10])
    os.makedirs(os.path.join(d, "src"), exist_ok=True)
    shutil.copy(os.path.join(src, "src", "lib.rs"), os.path.join(d, "src", "lib.rs"))
    with open(os.path.join(src, "Cargo.toml")) as fh:
        toml = fh.read().replace('"/repo"', '"%s"' % extract.REPO)
    with open(os.path.join(d, "Cargo.toml"), "w") as fh:
        fh.write(toml)
    lock = os.path.join(extract.REPO, "Cargo.lock")
    if not os.path.exists(lock):
        lock = "/repo/Cargo.lock"
    if os.path.exists(lock):
        shutil.copy(lock, os.path.join(d, "Cargo.lock"))
    env = dict(os.environ, CARGO_NET_OFFLINE="true", CARGO_TARGET_DIR=os.path.join(extract.WORK, "target", "witness"))
    env.pop("RUSTC_WORKSPACE_WRAPPER", None)
    env.pop("RUSTFLAGS", None)
    env["CARGO_INCREMENTAL"] = "0"
    import fcntl
    os.makedirs(extract.WORK, exist_ok=True)
    with open(os.path.join(extract.WORK, "facts.lock"), "w") as lk:  # one cargo at a time in the shared target directories
        fcntl.flock(lk, fcntl.LOCK_EX)
        extract.trim_target(env["CARGO_TARGET_DIR"])
        r = subprocess.run(["cargo", "+nightly", "test", "--doc", "--offline"], cwd=d, env=env, stdout=subprocess.PIPE, stderr=subprocess.STDOUT, text=True)
    out = {}
    for m in re.finditer(r"test src/lib\.rs - (\w+) \(line \d+\)( - compile fail| - compile)? \.\.\. (\w+)", r.stdout):
        out[m.group(1)] = ("compile fail" if (m.group(2) or "").endswith("fail") else "ok", m.group(3))
    if not out:
        sys.stderr.write(r.stdout[-3000:])
        raise SystemExit("witness harness did not run")
    return out


def check(rep, rule, names):
    res = run()
    for nm in names:
        kind, verdict = res.get(nm, (None, None))
        want = EXPECT[nm]
        ok = kind == want and verdict == "ok"
        if want == "compile fail":
            why = "the violating program %s builds (or fails with a different error than E0080): the compile-time guard does not stop it" % nm
        else:
            why = "the twin %s (which must build) does not build: the witness pair no longer isolates the guard" % nm
        rep.check(ok, rule, "witness:" + nm, why, detail={"kind": kind, "verdict": verdict})


if __name__ == "__main__":
    print(run())
