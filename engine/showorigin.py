#!/usr/bin/env python3
"""debug: print return origin + call arg origins of functions matching substrings"""
import sys, os
sys.path.insert(0, os.path.dirname(os.path.abspath(__file__)))
from mirq import Program
from mirq.origin import Origins, show
from mirq.pp import callee_s
p = Program(os.environ.get("CFG", "default"))
for f in p.fns.values():
    if f.body and all(x in f.id or x in f.path for x in sys.argv[1:]):
        o = Origins(f)
        print("==", f.path, f.span)
        print("  return:", show(o.return_origin()))
        for i, b in enumerate(f.body["blocks"]):
            t = b["t"]
            if t and t["k"] == "call" and i in o.cfg.live_blocks():
                print("  bb%d %s(%s)" % (i, callee_s(t["f"]), "; ".join(show(a) for a in o.term_args(i))))
            if t and t["k"] == "switch" and i in o.cfg.live_blocks():
                print("  bb%d switch %s" % (i, show(o.operand(t["d"], i, len(b["s"])))))
        if os.environ.get("DEC"):
            from mirq.origin import decisions
            for lits, ret, path in decisions(f):
                print("   PATH", path); 
                for d, v in lits: print("      if", show(d), "==", v)
                print("      =>", show(ret))
