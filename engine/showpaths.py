#!/usr/bin/env python3
"""debug: print the path summaries of functions matching substrings   (EG_REPO / CFG honoured; ALL=1 inlines every crate-local callee)"""
import sys, os
sys.path.insert(0, os.path.dirname(os.path.abspath(__file__)))
from mirq import Program
from mirq.paths import Paths, Unsupported, show_fact, show_eff
from mirq.origin import show
p = Program(os.environ.get("CFG", "default"))
inl = (lambda g: True) if os.environ.get("ALL") else None
P = Paths(p, inline=inl, loops="once" if os.environ.get("ONCE") else "refuse")
for f in p.fns.values():
    if f.body and all(x in f.id or x in f.path for x in sys.argv[1:]):
        print("==", f.path, f.span)
        try:
            for s in P.of(f):
                print("  if  ", "; ".join(show_fact(x) for x in s.facts))
                for e in s.effects:
                    print("    do", show_eff(e))
                print("    =>", show(s.ret, maxd=8) if s.ret is not None else "(next iteration)")
        except Unsupported as e:
            print("  unsupported:", e)
