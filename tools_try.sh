#!/bin/bash
# usage: tools_try.sh <patch.diff> <ID>...   apply patch to /repo, run checks, revert
P=$(realpath $1); shift
git -C /repo apply "$P" 2>/dev/null || git -C /repo apply --3way "$P" 2>&1 | tail -2
if [ -z "$(git -C /repo status --short)" ]; then echo "PATCH FAILED TO APPLY"; exit 3; fi
for id in "$@"; do ./check $id > /tmp/try.out 2>&1; rc=$?; grep -c "^VIOLATION" /tmp/try.out | sed 's/^/violations: /'; grep "^rule=" /tmp/try.out | cut -c1-${W:-420} | head -${N:-4}; tail -1 /tmp/try.out; echo "exit=$rc"; done
git -C /repo reset -q; git -C /repo checkout -- . ; git -C /repo status --short | head
