#!/bin/bash
# usage: tools_try.sh <patch.diff> <ID>...   apply patch to /repo, run checks, revert
P=$1; shift
git -C /repo apply "$(realpath $P)" || { echo "patch failed"; exit 3; }
for id in "$@"; do ./check $id 2>&1 | cut -c1-700 | grep -v "^KNOWN" ; echo "exit=${PIPESTATUS[0]}"; done
git -C /repo checkout -- . ; git -C /repo status --short | head
