#!/bin/bash
# dev helper: sd.sh <seed> <ID…> — run checks against a seeded change kept in /tmp/sdw/<seed>
cd /verif
name=$1; shift
WT=/tmp/sdw/$name
if [ ! -d $WT ]; then
  mkdir -p /tmp/sdw; git -C /repo worktree prune
  git -C /repo worktree add --detach $WT HEAD >/dev/null 2>&1
  cp /repo/Cargo.lock $WT/ 2>/dev/null
  P=/verif/seeded/$name/patch.diff
  [ -f $P ] || P=/verif/seeded/_incoming/${name%-*}/${name#*-}/patch.diff
  [ -f /verif/seeded/_incoming/${name%-*}/${name#*-}/patch.rebased.diff ] && P=/verif/seeded/_incoming/${name%-*}/${name#*-}/patch.rebased.diff
  ( cd $WT && (git apply $P 2>/dev/null || git apply --3way $P >/dev/null 2>&1) ) || { echo PATCH-FAILED; exit 2; }
fi
for c in "$@"; do
  EG_REPO=$WT VERIF_EVIDENCE_DIR=/tmp/sdw/ev-$name ./check $c 2>&1 | grep -a -E "^rule=|^VIOLATION|^KNOWN|Traceback|Error|^C[0-9]+:" | grep -a -v "^VIOLATION\|^KNOWN" | cut -c1-${W:-300} | head -${N:-30}
done
