#!/bin/bash
# dev helper: bn.sh <variant> <ID…> — run checks against a behaviour-preserving variant kept in /tmp/bnw/<variant>
cd /verif
name=$1; shift
WT=/tmp/bnw/$name
if [ ! -d $WT ]; then
  mkdir -p /tmp/bnw; git -C /repo worktree prune
  git -C /repo worktree add --detach $WT HEAD >/dev/null 2>&1
  cp /repo/Cargo.lock $WT/ 2>/dev/null
  ( cd $WT && (git apply /verif/benign/$name/patch.diff 2>/dev/null || git apply --3way /verif/benign/$name/patch.diff >/dev/null 2>&1) ) || { echo PATCH-FAILED; exit 2; }
fi
for c in "$@"; do
  EG_REPO=$WT VERIF_EVIDENCE_DIR=/tmp/bnw/ev-$name ./check $c 2>&1 | grep -a -E "^rule=|^VIOLATION|^KNOWN|Traceback|Error" | cut -c1-${W:-300} | head -${N:-30}
done
