#!/bin/bash
# usage: [OUT=file] benign.sh [dir...] — run every check against every behaviour-preserving variant; any alarm is a false alarm
ROOT=$(cd "$(dirname "$0")/.." && pwd)
cd $ROOT
OUT=${OUT:-$ROOT/benign/result.tsv}
BN=/tmp/bn$$
mkdir -p $BN
[ -x engine/egfacts/target/release/egfacts ] || (cd engine/egfacts && CARGO_NET_OFFLINE=true cargo +nightly build --release --offline >/dev/null 2>&1)
IDS=$(python3 -c "import json;print(' '.join(c['property_id'] for c in json.load(open('MANIFEST.json'))['checks']))")
DIRS=${@:-$(ls -d benign/*/)}
echo $DIRS | tr ' ' '\n' | awk -v n=${WORKERS:-6} "{print NR%n, \$0}" > $BN/jobs.txt
: > $BN/result.tsv
for w in $(seq 0 $((${WORKERS:-6}-1))); do
 ( grep "^$w " $BN/jobs.txt | while read _ job; do
     name=$(basename $job)
     WT=$BN/wt$w; rm -rf $WT; git -C /repo worktree prune; git -C /repo worktree add --detach $WT HEAD >/dev/null 2>&1
     cp /repo/Cargo.lock $WT/ 2>/dev/null
     ( cd $WT && (git apply $ROOT/$job/patch.diff 2>/dev/null || git apply --3way $ROOT/$job/patch.diff >/dev/null 2>&1) ) || { echo -e "$name\tPATCH-FAILED" >> $BN/result.tsv; git -C /repo worktree remove --force $WT; continue; }
     for c in $IDS; do
        out=$(EG_REPO=$WT VERIF_EVIDENCE_DIR=$BN/ev$w ./check $c 2>&1); rc=$?
        if [ $rc -ne 0 ]; then
           echo "$out" | grep "^rule=" | sed "s/^rule=\([^ ]*\) key=\([^ ]*\) at=\([^ ]*\) .*why=\(.*\)/$name\t$c\t\2\t\4/" | cut -c1-420 >> $BN/result.tsv
        fi
     done
     echo -e "$name\tDONE" >> $BN/result.tsv
     git -C /repo worktree remove --force $WT
   done ) &
done
wait
sort $BN/result.tsv > $OUT
rm -rf $BN
