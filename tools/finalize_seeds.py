#!/usr/bin/env python3
"""Build seeded/<id>/ (patch.diff, demo.rs, notes.md, meta.json) from seeded/_incoming and seeded/matrix.tsv,
and print the markdown table for DESIGN.md section 9."""
import collections, json, os, re, shutil
V = "/verif/seeded"
props = {json.loads(l)["id"]: json.loads(l) for l in open("/verif/properties.jsonl")}
mx = collections.defaultdict(dict)
for l in open(os.path.join(V, "matrix.tsv")):
    r = l.rstrip("\n").split("\t")
    if len(r) >= 3 and r[2] not in ("DONE", "PATCH-FAILED"):
        mx[(r[0], r[1])][r[2]] = (r[3] if len(r) > 3 else "").strip()
RECT = "missed — rounding of the rectangle's left/right border width (numeric four-border arithmetic with floor division: outside the family, DESIGN.md section 6)"
NOTES = {
    ("C01", "B"): RECT, ("C01", "C"): RECT, ("C01", "F"): RECT, ("C06", "A"): RECT, ("C06", "C"): RECT, ("C06", "E"): RECT,
    ("C07", "E"): "missed — round-half-away-from-zero at thick joins (numeric; equivariance through the join arithmetic is outside the domain, section 6)",
    ("C17", "A"): "missed — the `flip` flag of the parallels (thick-line phase arithmetic, not claimed, section 6)",
    ("C17", "C"): "missed — the `flip` flag of the parallels (thick-line phase arithmetic, not claimed, section 6)",
    ("C20", "C"): "missed — number of rows printed by Debug (iterator adaptor semantics, section 6)",
    ("C08", "H"): "missed — the underflow needs the relational invariant `nb_dots >= 1 whenever the dotted branch runs` (outside the interval domain; the site is in the unclaimed baseline, section 6)",
    ("C16", "H"): "missed — a new `Iterator::nth` override whose result must equal n+1 calls of `next` (an inductive relation between two functions, not a shape of either; section 6)",
    ("C17", "H"): "own check silent (a new `nth` override, as C16-H); the division by zero it introduces is reported by C08",
    ("C17", "J"): "own check silent — tie bias in the phase arithmetic of the parallels (numeric, not claimed, section 6); C08 reports the new unchecked `+ 1` only incidentally",
    ("C07", "M"): "missed — absolute instead of relative dot coordinates of the dotted rectangle border: float rounding half away from zero differs for negative coordinates (numeric, `Real` values are opaque to the degree domain; section 6)",
    ("C16", "N"): "missed — `width * height == 0` as the emptiness test of rectangle::Points::new overflows only for areas of 2^32 pixels and more, outside the display-scale contracts of C08 (section 6)",
    ("C17", "M"): "missed — `Line::perpendicular` scaled down for lines of 1024 px and more: the parallels count 2*|perpendicular| against a threshold computed from the unscaled line (a numeric relation between two functions, not claimed; section 6)",
    ("C18", "H"): "missed — a reduced scan area for arc points that is right for every sweep below 360 degrees (needs angle arithmetic on runtime values, section 6)",
}
rows = []
for p in sorted(os.listdir(os.path.join(V, "_incoming"))):
    for v in "ABCDEFGHIJKLMNOPQRSTUVWXYZ":
        src = os.path.join(V, "_incoming", p, v)
        if not os.path.isdir(src):
            continue
        sid = "%s-%s" % (p, v)
        dst = os.path.join(V, sid)
        os.makedirs(dst, exist_ok=True)
        reb = os.path.join(src, "patch.rebased.diff")
        if os.path.exists(reb):
            shutil.copy(reb, os.path.join(dst, "patch.diff"))
            shutil.copy(os.path.join(src, "patch.diff"), os.path.join(dst, "patch.original.diff"))
        else:
            shutil.copy(os.path.join(src, "patch.diff"), os.path.join(dst, "patch.diff"))
        shutil.copy(os.path.join(src, "demo.rs"), os.path.join(dst, "demo.rs"))
        notes = open(os.path.join(src, "notes.md")).read() if os.path.exists(os.path.join(src, "notes.md")) else ""
        open(os.path.join(dst, "notes.md"), "w").write(notes)
        conf = open(os.path.join(src, "confirm.txt")).read() if os.path.exists(os.path.join(src, "confirm.txt")) else ""
        def grab(k):
            m = re.search(k + r"=(\S+)", conf)
            return m.group(1) if m else None
        files = sorted(set(re.findall(r"^\+\+\+ b/(\S+)", open(os.path.join(dst, "patch.diff")).read(), re.M)))
        # what it needs: the paragraph(s) of the notes mentioning manifest/trigger/needs
        needs = []
        # the section of the notes headed "What is needed for it to manifest" (or the paragraphs that say so)
        msec = re.search(r"^#+[^\n]*(needed|manifest|trigger)[^\n]*\n(.*?)(?=^#+ |\Z)", notes, re.I | re.M | re.S)
        if msec and msec.group(2).strip():
            needs.append(" ".join(msec.group(2).split())[:700])
        else:
            for para in re.split(r"\n\s*\n", notes):
                if re.search(r"manifest|trigger|needs|only when|requires", para, re.I) and not para.lstrip().startswith("#"):
                    needs.append(" ".join(para.split())[:600])
        caught = mx.get((p, v), {})
        meta = {
            "id": sid, "breaks_property": p, "property_title": props[p]["title"], "files_changed": files,
            "needs_to_manifest": needs[:2] or [" ".join(notes.split())[:400]],
            "origin": "written by an independent sub-agent that was given only the property text and a scratch worktree",
            "rebased": os.path.exists(reb),
            "confirmed_by_me": {
                "how": "tools/confirm_seed.sh %s %s  (scratch git worktree of /repo outside /repo and /verif, removed afterwards)" % (p, v),
                "commands": ["cargo test --offline --test seed_demo   # without the change", "git apply patch.diff; cargo test --offline --test seed_demo   # with the change",
                             "cargo test --workspace --no-fail-fast --offline   # existing suite with the change, demo removed"],
                "demo_without_change_exit": grab("demo_without_patch_exit"), "demo_with_change_exit": grab("demo_with_patch_exit"),
                "suite_with_change_exit": grab("suite_with_patch_exit"), "suite_passed": grab("suite_passed"), "suite_failed": grab("suite_failed"),
            },
            "checks_run": "tools/matrix.sh: every registered quick check against a scratch worktree with the change applied (EG_REPO)",
            "caught_by": {c: k for c, k in sorted(caught.items())},
            "note": NOTES.get((p, v), ""),
        }
        json.dump(meta, open(os.path.join(dst, "meta.json"), "w"), indent=1)
        one = " ".join(notes.split())
        rows.append((sid, files, caught, NOTES.get((p, v), "")))
out = ["# Seeded changes and the checks that catch them", "",
       "Generated by `tools/finalize_seeds.py` from `seeded/matrix.tsv` (every registered quick check run against every change in a scratch worktree). Bold = the check; after it the first rule key that fired. The check of the property the change was written against is listed first when it fired.", "",
       "| change | files | caught by (first rule keys) |", "|---|---|---|"]
for sid, files, caught, note in rows:
    own = sid.split("-")[0]
    if caught:
        ks = sorted(caught, key=lambda k: (k != own, k))
        c = "; ".join("**%s** %s" % (k, " ".join(x.split(":", 1)[0] for x in caught[k].split()[:1])) for k in ks)
        if own not in caught and note:
            c += " — " + note
    else:
        c = note or "missed"
    out.append("| %s | %s | %s |" % (sid, ", ".join(f.replace("src/", "").replace("core/", "core:") for f in files), c))
open(os.path.join(V, "TABLE.md"), "w").write("\n".join(out) + "\n")
print("wrote %d rows to seeded/TABLE.md" % len(rows))
