#!/usr/bin/env python3
"""gen_seed_prompts.py <wave> <VA> <VB> [ID...] — write the prompts for a wave of independent seed-writing sub-agents to
/tmp/prompts<wave>/seed_<ID>.txt and create their scratch worktrees /tmp/seedw<wave>/<ID> (outputs: /tmp/seedout<wave>/<ID>/<V>/).
The agents get the property text only (nothing from /verif); the list of places already used is derived from the patches
of earlier waves so that new changes exercise different code."""
import glob, json, os, re, subprocess, sys

T = '''You are helping to evaluate a verification tool by writing realistic *faulty* changes to a Rust library. Work ONLY inside the scratch git worktree {wt} (a checkout of the embedded-graphics workspace: no_std 2D graphics library; root crate `embedded-graphics` in ./src, core crate `embedded-graphics-core` in ./core). Do not touch /repo or /verif, and do not read anything under /verif. The sandbox is offline: always pass --offline to cargo. Use `CARGO_TARGET_DIR={wt}/target`.

The property under study:

  {pid} — {title}
  {statement}

Your job: produce TWO independent changes (call them {va} and {vb}) to the library source, each of which
  (1) BREAKS this property for some input,
  (2) still compiles (default features) and PASSES THE WHOLE EXISTING TEST SUITE unchanged: `cargo test --workspace --no-fail-fast --offline` must be green with the change applied (unit tests, integration tests and doctests — do not edit, delete or add any existing test; the only new file is your demonstration),
  (3) looks like something a maintainer could plausibly commit (a refactor gone slightly wrong, an "optimisation", an off-by-one, a swapped pair, a dropped guard, a wrong constant in a table, a helper reused in the wrong place…) — not sabotage with special-cased magic inputs,
  (4) needs something SPECIFIC to manifest — an unusual input (particular size/parity/alignment/stroke/feature combination, a particular data order or colour depth, a target that returns an error at a particular call, a nested adapter, a multi-step sequence of operations), or two cooperating sites that each look fine alone — so that ordinary use and the existing tests do not expose it at once.
The two changes must be in DIFFERENT functions (preferably different files) and exercise different mechanisms behind the property. Prefer small diffs (1–15 changed lines). Read the code that implements the property first (start from README.md / src/lib.rs docs, then the modules the property talks about) and pick places where the existing tests are thin.
{extra}
For each change also write a demonstration: a self-contained Rust integration test file for the root crate (it will be copied to {wt}/tests/seed_demo.rs and run with `cargo test --offline --test seed_demo`) that uses only the public API of embedded-graphics (the `MockDisplay`, custom DrawTarget impls written in the test file, etc. are fine), FAILS with the change applied and PASSES on the pristine tree. The test should check the property as stated (e.g. compare against the behaviour the property promises), not merely pin today's output bytes.

Procedure for each change:
  a. make the edit in {wt}; run the full suite: `cd {wt} && CARGO_TARGET_DIR={wt}/target cargo test --workspace --no-fail-fast --offline 2>&1 | grep -E "^test result|FAILED|failed|error" | head -40` — everything must pass. If an existing test fails, pick a different change.
  b. put your demo at {wt}/tests/seed_demo.rs, run it with the change (must fail), then save your library edit with `git diff -- src core > {out}/tmp.diff`, run `git checkout -- src core`, and run the demo again on the pristine source (must pass). Do not use `git stash` (it is shared between worktrees).
  c. save into {out}/{va}/ (resp. {out}/{vb}/): `patch.diff` (output of `git diff` for the library edit ONLY — not the demo file — taken from the worktree root so it applies with `git apply` at the repository root), `demo.rs` (the demonstration test file), and `notes.md` with the sections: "## What the change does", "## Why it breaks {pid}", "## What is needed for it to manifest", "## Why the existing tests miss it", "## Commands run and their results".
  d. revert the worktree to pristine (`git checkout -- . && rm -f tests/seed_demo.rs`) before starting the next change.

If, while reading, you notice that the pristine code ALREADY violates the property for some input, do not use that as your change; describe the input in {out}/observations.md instead.

When both are done, leave the worktree pristine and reply with a short summary (files touched, one line per change, and the pass/fail results you observed). Do not remove the worktree.'''

STYLE = {
    "default": "",
}


def touched(pid):
    t = {}
    for d in glob.glob('/verif/seeded/_incoming/%s/*/patch.diff' % pid):
        cur = None
        for line in open(d).read().splitlines():
            m = re.match(r'^\+\+\+ b/(\S+)', line)
            if m:
                cur = m.group(1)
                t.setdefault(cur, set())
            m = re.match(r'^@@.*@@\s*(.*)$', line)
            if m and cur and m.group(1).strip():
                t[cur].add(m.group(1).strip()[:70])
    return "\n".join("  - %s: %s" % (f, "; ".join(sorted(v)) or "(top of file)") for f, v in sorted(t.items()))


def main():
    wave, va, vb = sys.argv[1:4]
    props = {json.loads(l)["id"]: json.loads(l) for l in open('/verif/properties.jsonl')}
    ids = sys.argv[4:] or sorted(props)
    os.makedirs('/tmp/prompts%s' % wave, exist_ok=True)
    for pid in ids:
        p = props[pid]
        wt = '/tmp/seedw%s/%s' % (wave, pid)
        out = '/tmp/seedout%s/%s' % (wave, pid)
        os.makedirs(out + '/' + va, exist_ok=True)
        os.makedirs(out + '/' + vb, exist_ok=True)
        extra = ("\nEarlier rounds already produced changes at the following places (file: enclosing items of the changed hunks). Do NOT change "
                 "these functions again and do not repeat these ideas — find DIFFERENT functions, clauses and mechanisms of the property. This "
                 "round is about *cooperating sites and secondary paths*: a change split over two functions that each look fine alone (a "
                 "constructor and its consumer, a writer and a reader, a helper and one of several callers); an invariant established in one "
                 "module and relied on in another; the second of several implementations of one trait (the less common primitive, colour type, "
                 "font target or adapter); a fast path / early return for a special case; default trait methods versus their overrides; secondary "
                 "iterator methods; multi-step sequences (translate then resize then draw; sub image of a sub image; clipped of a translated "
                 "target):\n%s\nAlso avoid: the rounding of the rectangle's left/right border width in Rectangle::draw_styled, and the `flip` flag "
                 "in ParallelsIterator::new (both were used several times already).\n" % touched(pid))
        s = T.format(wt=wt, out=out, pid=pid, title=p['title'], statement=p['statement'], va=va, vb=vb, extra=extra)
        open('/tmp/prompts%s/seed_%s.txt' % (wave, pid), 'w').write(s)
        if not os.path.isdir(wt):
            os.makedirs(os.path.dirname(wt), exist_ok=True)
            subprocess.run(['git', '-C', '/repo', 'worktree', 'prune'])
            subprocess.run(['git', '-C', '/repo', 'worktree', 'add', '--detach', wt, 'HEAD'], stdout=subprocess.DEVNULL, stderr=subprocess.DEVNULL)
            subprocess.run(['cp', '/repo/Cargo.lock', wt + '/'])
    print("prompts in /tmp/prompts%s" % wave)


if __name__ == '__main__':
    main()
