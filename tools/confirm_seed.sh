#!/bin/bash
# usage: confirm_seed.sh <ID> <variant> <worker>   — confirm a seeded change in a scratch worktree of /repo
# writes seeded/_incoming/<ID>/<variant>/confirm.txt: suite_with_patch / demo_with_patch / demo_without_patch
ID=$1; V=$2; W=${3:-0}
D=/verif/seeded/_incoming/$ID/$V
WT=/tmp/confirm/wt$W
TGT=/tmp/confirm/tgt$W
mkdir -p /tmp/confirm
rm -rf $WT; git -C /repo worktree prune; git -C /repo worktree add --detach $WT HEAD >/dev/null 2>&1 || exit 9
P=$D/patch.diff; [ -f $D/patch.rebased.diff ] && P=$D/patch.rebased.diff
OUT=$D/confirm.txt; : > $OUT
cd $WT
cp /repo/Cargo.lock $WT/Cargo.lock 2>/dev/null
# 1. demo without the patch must pass
mkdir -p tests; cp $D/demo.rs tests/seed_demo.rs
CARGO_TARGET_DIR=$TGT cargo test --offline --test seed_demo > /tmp/confirm/log$W.a 2>&1; echo "demo_without_patch_exit=$?" >> $OUT
grep -E "^test result" /tmp/confirm/log$W.a | head -1 >> $OUT
# 2. apply; demo must fail
if ! git apply $P 2>/dev/null; then git apply --3way $P >/dev/null 2>&1 || { echo "patch_applies=no" >> $OUT; cd /; git -C /repo worktree remove --force $WT; exit 1; }; fi
echo "patch_applies=yes ($(basename $P))" >> $OUT
CARGO_TARGET_DIR=$TGT cargo test --offline --test seed_demo > /tmp/confirm/log$W.b 2>&1; echo "demo_with_patch_exit=$?" >> $OUT
grep -E "^test result" /tmp/confirm/log$W.b | head -1 >> $OUT
# 3. full existing suite with the patch (demo removed) must pass
rm -f tests/seed_demo.rs
CARGO_TARGET_DIR=$TGT cargo test --workspace --no-fail-fast --offline > /tmp/confirm/log$W.c 2>&1; echo "suite_with_patch_exit=$?" >> $OUT
grep -E "^test result" /tmp/confirm/log$W.c | awk '{p+=$4; f+=$6} END {print "suite_passed="p" suite_failed="f}' >> $OUT
cd /; git -C /repo worktree remove --force $WT
