#!/bin/bash
# intake.sh <wave> — copy finished seeds of a wave from /tmp/seedout<wave>/<ID>/<V> to seeded/_incoming/<ID>/<V> (new ones only) and print them
W=$1
for d in /tmp/seedout$W/*/[A-Z]; do
  [ -f $d/patch.diff ] && [ -f $d/demo.rs ] && [ -f $d/notes.md ] || continue
  id=$(basename $(dirname $d)); v=$(basename $d)
  dst=/verif/seeded/_incoming/$id/$v
  [ -d $dst ] && continue
  mkdir -p $dst; cp $d/patch.diff $d/demo.rs $d/notes.md $dst/
  [ -f /tmp/seedout$W/$id/observations.md ] && cp /tmp/seedout$W/$id/observations.md /verif/seeded/_incoming/$id/observations_w$W.md
  echo "$id-$v"
done
