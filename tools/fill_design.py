#!/usr/bin/env python3
"""fill_design.py — replace the @PLACEHOLDERS@ of DESIGN.md sections 4 and 9 with the counts of seeded/matrix.tsv and benign/result.tsv"""
import collections
mx = collections.defaultdict(dict); done = set()
for l in open('/verif/seeded/matrix.tsv'):
    r = l.rstrip('\n').split('\t')
    if len(r) < 3: continue
    if r[2] == 'DONE': done.add((r[0], r[1]))
    elif r[2] != 'PATCH-FAILED': mx[(r[0], r[1])][r[2]] = r[3] if len(r) > 3 else ''
own = sorted(k for k in done if k[0] in mx.get(k, {}))
anyc = sorted(k for k in done if mx.get(k))
missed = sorted(k for k in done if not mx.get(k))
cross = sorted(k for k in done if mx.get(k) and k[0] not in mx[k])
al = collections.defaultdict(set); bd = set()
for l in open('/verif/benign/result.tsv'):
    r = l.rstrip('\n').split('\t')
    if len(r) >= 2 and r[1] == 'DONE': bd.add(r[0])
    elif len(r) >= 3 and r[1] != 'PATCH-FAILED': al[r[0]].add(r[1])
per = collections.Counter(k[0] for k in done)
perown = collections.Counter(k[0] for k in own)
summary = ["| property | changes | caught by its own check | caught by another check only | missed |", "|---|---|---|---|---|"]
for p in sorted(per):
    summary.append("| %s | %d | %d | %s | %s |" % (p, per[p], perown[p], ", ".join("%s-%s (%s)" % (k[0], k[1], "/".join(sorted(mx[k]))) for k in cross if k[0] == p) or "–",
                                               ", ".join("%s-%s" % k for k in missed if k[0] == p) or "–"))
summary.append("| **all** | **%d** | **%d** | **%d** | **%d** |" % (len(done), len(own), len(cross), len(missed)))
s = open('/verif/DESIGN.md').read()
rep = {"@SEEDS@": str(len(done)), "@ANY@": str(len(anyc)), "@OWN@": str(len(own)), "@MISSED@": str(len(missed)), "@BENIGN@": str(len(bd)), "@BALARM@": str(len(al)),
       "@BLIST@": ", ".join("%s (%s)" % (k, "/".join(sorted(v))) for k, v in sorted(al.items())), "@SUMMARY@": "\n".join(summary)}
for k, v in rep.items():
    s = s.replace(k, v)
open('/verif/DESIGN.md', 'w').write(s)
print({k: v for k, v in rep.items() if k not in ("@SUMMARY@", "@BLIST@")})
