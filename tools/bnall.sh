#!/bin/bash
# dev helper: bnall.sh <ID…> — run the given checks over all benign variants (4 at a time), print alarms
cd /verif
ls benign | grep -v tsv | xargs -P 6 -I{} sh -c 'out=$(W=${W:-260} N=${N:-12} tools/bn.sh {} '"$*"' | grep "^rule=" | sed "s/^/{}: /"); [ -n "$out" ] && echo "$out"' 
