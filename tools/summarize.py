#!/usr/bin/env python3
"""summarize.py [matrix.tsv] [benign.tsv] — counts for DESIGN.md sections 4 and 9"""
import collections, sys
mxf = sys.argv[1] if len(sys.argv) > 1 else '/verif/seeded/matrix.tsv'
bnf = sys.argv[2] if len(sys.argv) > 2 else '/verif/benign/result.tsv'
mx = collections.defaultdict(dict); done = set(); pf = []
for l in open(mxf):
    r = l.rstrip('\n').split('\t')
    if len(r) < 3: continue
    if r[2] == 'DONE': done.add((r[0], r[1]))
    elif r[2] == 'PATCH-FAILED': pf.append((r[0], r[1]))
    else: mx[(r[0], r[1])][r[2]] = r[3] if len(r) > 3 else ''
own = [k for k in done if k[0] in mx.get(k, {})]
anyc = [k for k in done if mx.get(k)]
print("seeds run: %d  caught by some check: %d  by the own check: %d  patch failed: %s" % (len(done), len(anyc), len(own), pf))
print("missed by all:", sorted(k for k in done if not mx.get(k)))
print("own check silent, others fire:", sorted((k, sorted(mx[k])) for k in done if mx.get(k) and k[0] not in mx[k]))
try:
    al = collections.defaultdict(set); bd = set(); bpf = []
    for l in open(bnf):
        r = l.rstrip('\n').split('\t')
        if len(r) >= 2 and r[1] == 'DONE': bd.add(r[0])
        elif len(r) >= 2 and r[1] == 'PATCH-FAILED': bpf.append(r[0])
        elif len(r) >= 3: al[r[0]].add((r[1], r[2][:60]))
    print("benign variants run: %d  alarming: %d  patch failed: %s" % (len(bd), len(al), bpf))
    for k in sorted(al): print("  ", k, sorted(al[k])[:4])
except FileNotFoundError:
    pass
