#!/bin/bash
# confirm every incoming seed, 5 workers in parallel
cd /verif/seeded/_incoming
ls -d */[A-Z] | while read j; do [ -f $j/confirm.txt ] && grep -q suite_with_patch_exit $j/confirm.txt || echo $j; done | awk '{print NR%5, $0}' > /tmp/confirm_jobs.txt 2>/dev/null || true
mkdir -p /tmp/confirm
for w in 0 1 2 3 4; do
  ( grep "^$w " /tmp/confirm_jobs.txt | while read _ job; do id=${job%/*}; v=${job#*/}; /verif/tools/confirm_seed.sh $id $v $w; done ) &
done
wait
rm -rf /tmp/confirm
