#!/bin/bash
# usage: matrix.sh  — run every check against every incoming seed in scratch worktrees; writes seeded/matrix.tsv
cd /verif
mkdir -p /tmp/mx
IDS=$(python3 -c "import json;print(' '.join(c['property_id'] for c in json.load(open('MANIFEST.json'))['checks']))")
ls -d seeded/_incoming/*/[AB] | awk '{print NR%4, $0}' > /tmp/mx/jobs.txt
: > /tmp/mx/result.tsv
for w in 0 1 2 3; do
 ( grep "^$w " /tmp/mx/jobs.txt | while read _ job; do
     id=$(basename $(dirname $job)); v=$(basename $job)
     WT=/tmp/mx/wt$w; rm -rf $WT; git -C /repo worktree prune; git -C /repo worktree add --detach $WT HEAD >/dev/null 2>&1
     cp /repo/Cargo.lock $WT/ 2>/dev/null
     P=$job/patch.diff; [ -f $job/patch.rebased.diff ] && P=$job/patch.rebased.diff
     ( cd $WT && (git apply /verif/$P 2>/dev/null || git apply --3way /verif/$P >/dev/null 2>&1) ) || { echo -e "$id\t$v\tPATCH-FAILED" >> /tmp/mx/result.tsv; continue; }
     for c in $IDS; do
        out=$(EG_REPO=$WT VERIF_EVIDENCE_DIR=/tmp/mx/ev$w ./check $c 2>&1); rc=$?
        if [ $rc -ne 0 ]; then
           keys=$(echo "$out" | grep "^rule=" | sed 's/^rule=\([^ ]*\) key=\([^ ]*\).*/\2/' | cut -c1-90 | head -3 | tr '\n' ' ')
           echo -e "$id\t$v\t$c\t$keys" >> /tmp/mx/result.tsv
        fi
     done
     echo -e "$id\t$v\tDONE" >> /tmp/mx/result.tsv
     git -C /repo worktree remove --force $WT
   done ) &
done
wait
sort /tmp/mx/result.tsv > /verif/seeded/matrix.tsv
rm -rf /tmp/mx
