#!/bin/bash
# usage: matrix.sh [out.tsv] — run every check against every incoming seed in scratch worktrees; writes seeded/matrix.tsv
# ONLY=<regex> restricts the seeds (matched against seeded/_incoming/<ID>/<V>)
# (runs from whatever copy of /verif it lives in, so it can be started with `vp run` from a snapshot)
ROOT=$(cd "$(dirname "$0")/.." && pwd)
cd $ROOT
OUT=${1:-$ROOT/seeded/matrix.tsv}
MX=/tmp/mx$$
mkdir -p $MX
[ -x engine/egfacts/target/release/egfacts ] || (cd engine/egfacts && CARGO_NET_OFFLINE=true cargo +nightly build --release --offline >/dev/null 2>&1)
IDS=$(python3 -c "import json;print(' '.join(c['property_id'] for c in json.load(open('MANIFEST.json'))['checks']))")
ls -d seeded/_incoming/*/[A-Z] | grep -E "${ONLY:-.}" | awk -v n=${WORKERS:-5} '{print NR%n, $0}' > $MX/jobs.txt
: > $MX/result.tsv
for w in $(seq 0 $((${WORKERS:-5}-1))); do
 ( grep "^$w " $MX/jobs.txt | while read _ job; do
     id=$(basename $(dirname $job)); v=$(basename $job)
     WT=$MX/wt$w; rm -rf $WT; git -C /repo worktree prune; git -C /repo worktree add --detach $WT HEAD >/dev/null 2>&1
     cp /repo/Cargo.lock $WT/ 2>/dev/null
     P=$job/patch.diff; [ -f $job/patch.rebased.diff ] && P=$job/patch.rebased.diff
     ( cd $WT && (git apply $ROOT/$P 2>/dev/null || git apply --3way $ROOT/$P >/dev/null 2>&1) ) || { echo -e "$id\t$v\tPATCH-FAILED" >> $MX/result.tsv; continue; }
     for c in $IDS; do
        out=$(EG_REPO=$WT VERIF_EVIDENCE_DIR=$MX/ev$w ./check $c 2>&1); rc=$?
        if [ $rc -ne 0 ]; then
           keys=$(echo "$out" | grep "^rule=" | sed 's/^rule=\([^ ]*\) key=\([^ ]*\).*/\2/' | cut -c1-90 | head -3 | tr '\n' ' ')
           echo -e "$id\t$v\t$c\t$keys" >> $MX/result.tsv
        fi
     done
     echo -e "$id\t$v\tDONE" >> $MX/result.tsv
     git -C /repo worktree remove --force $WT
   done ) &
done
wait
sort $MX/result.tsv > $OUT
rm -rf $MX
git -C /repo worktree prune
