#!/usr/bin/env python3
"""gen_benign_prompts.py <wave> <VA> <VB> ID:focus ... — prompts for sub-agents that write behaviour-preserving refactorings
(/tmp/bprompts<wave>/benign_<ID>.txt, worktrees /tmp/benw<wave>/<ID>, outputs /tmp/benout<wave>/<ID>/<V>/patch.diff + notes.md).
The agents see the property text only."""
import json, os, subprocess, sys
T = '''You are helping to evaluate a static verification tool by writing BEHAVIOUR-PRESERVING refactorings of a Rust library. Work ONLY inside the scratch git worktree {wt} (a checkout of the embedded-graphics workspace: no_std 2D graphics library; root crate `embedded-graphics` in ./src, core crate `embedded-graphics-core` in ./core). Do not touch /repo or /verif, and do not read anything under /verif. The sandbox is offline: always pass --offline to cargo. Use `CARGO_TARGET_DIR={wt}/target`. Never use `git stash`.

The property the tool checks for this code:

  {pid} — {title}
  {statement}

Your job: produce TWO independent refactorings (call them {va} and {vb}) of the code that implements this property, each of which
  (1) does NOT change the behaviour of the library for any input (same results, same panics, same order of calls to the draw target) — the property must hold exactly as before;
  (2) compiles without new warnings and passes the whole existing test suite unchanged: `cd {wt} && CARGO_TARGET_DIR={wt}/target cargo test --workspace --no-fail-fast --offline 2>&1 | grep -E "^test result|FAILED|failed|error" | head -40`;
  (3) is something a maintainer could plausibly commit as a clean-up: extract or inline private helpers (also generic ones, also helpers taking closures), loops <-> iterator chains (`for` <-> `try_for_each`/`find`/`fold`), `match` <-> `if let` <-> `let else` <-> Option/Result combinators <-> `?`, early returns <-> nested conditions, reordered independent statements, renamed locals / private fields / private functions, destructuring, `Range::contains` / `min` / `max` / `clamp` spellings of comparisons, moving a private function to another module;
  (4) does not change any public API and does not touch tests, docs examples or Cargo files;
  (5) is of medium size (roughly 20-80 changed lines) and concentrates on: {focus}. {va} and {vb} must use different refactoring styles and overlap as little as possible.
Read the code first. Be careful with subtle behaviour (evaluation order of calls on the draw target, integer overflow, empty ranges, `Option` short-circuits): when in doubt, keep it.

For each refactoring: make the edit, run the full suite (must be green), then save into {out}/{va}/ (resp. {out}/{vb}/): `patch.diff` (output of `git diff -- src core`, taken at the worktree root) and `notes.md` (what was refactored and why it cannot change behaviour). Then revert the worktree (`git checkout -- .`) before the next one.

When both are done, leave the worktree pristine and reply with a short summary (files touched, one line per refactoring, test results). Do not remove the worktree.'''
wave, va, vb = sys.argv[1:4]
props = {json.loads(l)["id"]: json.loads(l) for l in open('/verif/properties.jsonl')}
os.makedirs('/tmp/bprompts%s' % wave, exist_ok=True)
for spec in sys.argv[4:]:
    pid, focus = spec.split(":", 1)
    p = props[pid]
    wt = '/tmp/benw%s/%s' % (wave, pid); out = '/tmp/benout%s/%s' % (wave, pid)
    os.makedirs(out + '/' + va, exist_ok=True); os.makedirs(out + '/' + vb, exist_ok=True)
    open('/tmp/bprompts%s/benign_%s.txt' % (wave, pid), 'w').write(T.format(wt=wt, out=out, pid=pid, title=p['title'], statement=p['statement'], va=va, vb=vb, focus=focus))
    if not os.path.isdir(wt):
        os.makedirs(os.path.dirname(wt), exist_ok=True)
        subprocess.run(['git', '-C', '/repo', 'worktree', 'prune'])
        subprocess.run(['git', '-C', '/repo', 'worktree', 'add', '--detach', wt, 'HEAD'], stdout=subprocess.DEVNULL, stderr=subprocess.DEVNULL)
        subprocess.run(['cp', '/repo/Cargo.lock', wt + '/'])
print("ok")
