//! Compile-fail witnesses (E4): each violating program must fail to build with the stated error code; its
//! twin, which differs only in the offending constant, must build.  Run by `engine/witness.py` with
//! `cargo +nightly test --doc` (error codes are only honoured on nightly).
#![no_std]

/// W10: a framebuffer whose buffer is too small for WIDTH x HEIGHT must not build (C10, R10.5).
///
/// ```compile_fail,E0080
/// use embedded_graphics::{framebuffer::Framebuffer, pixelcolor::{Rgb565, raw::{LittleEndianMsb0, RawU16}}};
/// // 9 x 2 pixels of 16 bit need 36 bytes
/// let _fb = Framebuffer::<Rgb565, RawU16, LittleEndianMsb0, 9, 2, 35>::new();
/// ```
pub struct W10TooSmall;

/// W10 twin: exactly the required size builds.
///
/// ```no_run
/// use embedded_graphics::{framebuffer::Framebuffer, pixelcolor::{Rgb565, raw::{LittleEndianMsb0, RawU16}}};
/// let _fb = Framebuffer::<Rgb565, RawU16, LittleEndianMsb0, 9, 2, 36>::new();
/// ```
pub struct W10Exact;

/// W10 twin: an oversized buffer builds.
///
/// ```no_run
/// use embedded_graphics::{framebuffer::Framebuffer, pixelcolor::{Rgb565, raw::{LittleEndianMsb0, RawU16}}};
/// let _fb = Framebuffer::<Rgb565, RawU16, LittleEndianMsb0, 9, 2, 64>::new();
/// ```
pub struct W10Oversized;

/// W10: sub-byte depth, padded rows: 9 x 2 pixels of 1 bit need 2 bytes per row = 4 bytes.
///
/// ```compile_fail,E0080
/// use embedded_graphics::{framebuffer::Framebuffer, pixelcolor::{BinaryColor, raw::{BigEndianLsb0, RawU1}}};
/// let _fb = Framebuffer::<BinaryColor, RawU1, BigEndianLsb0, 9, 2, 3>::new();
/// ```
pub struct W10SubByteTooSmall;

/// W10 twin.
///
/// ```no_run
/// use embedded_graphics::{framebuffer::Framebuffer, pixelcolor::{BinaryColor, raw::{BigEndianLsb0, RawU1}}};
/// let _fb = Framebuffer::<BinaryColor, RawU1, BigEndianLsb0, 9, 2, 4>::new();
/// ```
pub struct W10SubByteExact;

/// W09: `ImageRaw::new_const` with a buffer one byte short must not build (C09, R09.2).
///
/// ```compile_fail,E0080
/// use embedded_graphics::{image::ImageRaw, pixelcolor::BinaryColor, prelude::*};
/// // 9 x 3 pixels of 1 bit: 2 bytes per padded row, 6 bytes
/// const IMG: ImageRaw<'static, BinaryColor> = ImageRaw::new_const(&[0u8; 5], Size::new(9, 3));
/// let _ = IMG;
/// ```
pub struct W09Short;

/// W09: one byte too long must not build either.
///
/// ```compile_fail,E0080
/// use embedded_graphics::{image::ImageRaw, pixelcolor::BinaryColor, prelude::*};
/// const IMG: ImageRaw<'static, BinaryColor> = ImageRaw::new_const(&[0u8; 7], Size::new(9, 3));
/// let _ = IMG;
/// ```
pub struct W09Long;

/// W09 twin: the exact length builds.
///
/// ```no_run
/// use embedded_graphics::{image::ImageRaw, pixelcolor::BinaryColor, prelude::*};
/// const IMG: ImageRaw<'static, BinaryColor> = ImageRaw::new_const(&[0u8; 6], Size::new(9, 3));
/// let _ = IMG;
/// ```
pub struct W09Exact;
