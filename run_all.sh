#!/bin/bash
# run every registered quick check on the current tree (rewrites evidence/*.json)
cd "$(dirname "$0")"
rc=0
for id in $(python3 -c "import json;print(' '.join(c['property_id'] for c in json.load(open('MANIFEST.json'))['checks']))"); do
  ./check $id --tier ${1:-quick} 2>/dev/null | grep -E "^(VIOLATION|KNOWN-FINDING|C[0-9]+:)" | cut -c1-220
  [ ${PIPESTATUS[0]} -ne 0 ] && rc=1
done
exit $rc
