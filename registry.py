"""Property -> rule packs, level and wording used in evidence files."""
TB = ["rustc type checker, MIR construction and constant evaluator (nightly 1.97)",
      "egfacts fact extractor (serialiser of rustc's own data)",
      "mirq analysis library (CFG, carrier propagation, origin trees)",
      "hand-confirmed instance tables and floors in /verif/rules"]

SOURCE_COMMITS = []
NOT_APPLICABLE = {
    "C17": "Bresenham end points, step shape, half-pixel distance and thickness bounds are inductive numeric invariants over runtime values; no sound static abstraction in reach decides them (DESIGN.md section 6)",
}

CHECKS = {
    "C04": dict(
        packs=["c04"], level="proof",
        claim="For every analysed feature configuration, every call site in non-test library code that can yield a DrawTarget error is proved to return that error at once and unchanged, with no further effectful call: decided for all targets, drawables and fault positions by dataflow over the compiler's MIR plus parametricity in the associated Error type.",
        note="Trusted: rustc's MIR, the fact extractor, the carrier-propagation rules and the list of accepted consumer idioms (Try::branch/from_residual, match+return Err, tail return, Result::map/and_then). Undecided flows fail closed. Panics (C08) and non-termination are out of scope.",
        technique="MIR dataflow (error-carrier propagation + must-not-pass-through on error edges), parametricity argument",
        explanation="Error-flow analysis over the MIR of every non-test library function in every analysed feature configuration: "
                    "each call producing Result<_, <X as DrawTarget>::Error> must be consumed at once (returned, or switched on with "
                    "the Err edge returning the payload unchanged), with no effectful call between production and consumption or on the "
                    "error path (R04.1-R04.4). By parametricity in the unconstrained associated type Error this decides the property for "
                    "every target, fault position and drawable.",
        trusted_base=TB,
        assumptions=["targets are deterministic and reveal nothing but Ok/Err (the DrawTarget contract)",
                     "panics are out of scope here (C08)"],
    ),
}
