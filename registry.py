"""Property -> rule packs, level and wording used in evidence files."""
TB = ["rustc type checker, MIR construction and constant evaluator (nightly 1.97)",
      "egfacts fact extractor (serialiser of rustc's own data)",
      "mirq analysis library (CFG, carrier propagation, origin trees, path summaries)",
      "hand-confirmed instance tables and floors in /verif/rules"]

SOURCE_COMMITS = []
NOT_APPLICABLE = {
}

CHECKS = {
    "C17": dict(
        packs=["c17"], level="other",
        explanation="Structural clauses of thin lines (Line::points()), decided for all inputs on path summaries of Points::{new, next}, major_length, Bresenham::{new, next} and BresenhamParameters::new: "
                    "R17.1 the iterator yields exactly major_length(line) = max(|dx|, |dy|) + 1 points (counter argument: every call with points to go lowers the counter by one and returns one walker step, a call at zero ends); "
                    "R17.2 the walk starts at line.start with error 0; R17.3 one walker step is exactly one major move preceded by at most one minor move and returns the position between them, the step without a minor move being the one taken for error <= threshold (so the first point is start itself); "
                    "R17.4 in all 8 octants the major axis is that of the larger |delta|, both steps are unit vectors (Point::x_axis / y_axis of a (+-1, +-1) direction) pointing from start to end, the threshold is the non-negative major delta; "
                    "R17.5 (stroked lines, one structural clause) in everything reachable from the line's own styled code the stroke offset that reaches ParallelsIterator::new and Line::extents is the constant StrokeOffset::None, traced through parameters to every caller: the stroke is centred on the line whatever the style's stroke alignment says.",
        claim="Decides for thin lines: number of points, first point, shape of every step (one pixel along the major axis, at most one along the minor axis), axis assignment and step directions. NOT decided: that the minor coordinate arrives at `end`, the half-pixel distance bound (both inductive numeric invariants of the error accumulator), and the numeric clauses about stroked lines of width > 1 (perpendicular Bresenham walks with thickness accumulators, phase of the parallels); of those only the centring of the stroke (R17.5) is decided.",
        note="Necessary conditions only; the numeric clauses of the property are outside static analysis (DESIGN.md section 6).",
        technique="path-sensitive dataflow summaries over MIR (effects per path), counter/potential argument, complete decision table over the 8 octants",
        trusted_base=TB,
        assumptions=["coordinates at display scale (no i32 overflow in end - start)"],
    ),
    "C04": dict(
        packs=["c04"], level="proof",
        claim="For every analysed feature configuration, every call site in non-test library code that can yield a DrawTarget error is proved to return that error at once and unchanged, with no further effectful call: decided for all targets, drawables and fault positions by dataflow over the compiler's MIR plus parametricity in the associated Error type.",
        note="Trusted: rustc's MIR, the fact extractor, the carrier-propagation rules and the list of accepted consumer idioms (Try::branch/from_residual, match+return Err, tail return, Result::map/and_then). Undecided flows fail closed. Panics (C08) and non-termination are out of scope.",
        technique="MIR dataflow (error-carrier propagation + must-not-pass-through on error edges), parametricity argument",
        explanation="Error-flow analysis over the MIR of every non-test library function in every analysed feature configuration: "
                    "each call producing Result<_, <X as DrawTarget>::Error> must be consumed at once (returned, or switched on with "
                    "the Err edge returning the payload unchanged), with no effectful call between production and consumption or on the "
                    "error path (R04.1-R04.4). By parametricity in the unconstrained associated type Error this decides the property for "
                    "every target, fault position and drawable.",
        trusted_base=TB,
        assumptions=["targets are deterministic and reveal nothing but Ok/Err (the DrawTarget contract)",
                     "panics are out of scope here (C08)"],
    ),
    "C11": dict(
        packs=["c11", "c12_o0"], level="other",
        explanation="Structural necessary conditions of the raw load/store round trip, decided on the MIR of all 7 LoadStore impls and the raw iterator: "
                    "R11.1 type-parameter dependence (store depends on the data order iff load does - exact by parametricity), R11.2 endianness pairing per "
                    "branch of IS_ALTERNATE_ORDER incl. the RawU24 sub-range, R11.3 size_hint = (8/bpp)*len saturating-minus index for all 7 widths, "
                    "R11.5 documented sub-byte bit position table, R11.6 iterator = load at a running index (per-path effects of next/nth), R11.7 slot agreement on path summaries: every accepting path of load/store has established exactly the pixel's own byte slot (offset, length, minimal buffer length, all linear in the index), every rejecting path is free of effects, store writes only through the slot. The bit-exact store/load identity itself is not decided here.",
        claim="Decides the structural clauses (order dependence, endianness pairing, documented bit positions, size_hint form, iterator stepping) for every raw type and both data orders; not the full bit-level round trip.",
        note="Necessary conditions only; trusted: rustc MIR, dependence analysis (over-approximate 'uses'), decision extraction on small acyclic functions.",
        technique="type-parameter dependence analysis + path-sensitive dataflow summaries (facts / effects / result per path, combinators and helpers expanded) over MIR",
        trusted_base=TB,
        assumptions=["usize is 64 bit on the analysis host"],
    ),
    "C10": dict(
        packs=["c10", "c12_o0", "c09", "c11", "c03"], level="other",
        explanation="Structural necessary conditions of framebuffer read-after-write, decided on the MIR of all set_pixel impls, as_image, pixel, BUFFER_SIZE and CHECK_N: "
                    "R10.1 the writer depends on the data order iff the reader's load does (parametricity), R10.2 endianness / documented bit position pairing, "
                    "R10.3 every path of set_pixel that stores has established 0<=x<WIDTH and 0<=y<HEIGHT and every path that does not store has established the negation of one of them (writes exactly inside), the stored byte of sub-byte depths is a read-modify-write of the same byte with mask 2^bpp-1, R10.6 the byte index has the padded-row layout ImageRaw reads, "
                    "R10.4 as_image views data[0..BUFFER_SIZE] with the same colour type/order and pixel() goes through it, R10.5 N>=BUFFER_SIZE is forced at compile time. R10.7 who-may-write: only the set_pixel impls (and helpers new to the tree that only they call) assign into or mutably borrow the backing array, data_mut() hands it out by contract and is not used by the library; R10.8 axis consistency of the index arithmetic.",
        claim="Decides layout agreement between writer and reader for all 7 depths x 2 orders (order dependence, endianness, bit position, padded row stride, guards, compile-time size check); histories as such follow from these but are not enumerated.",
        note="Necessary conditions; index forms are compared with the canonical padded-row formula after constant folding, other equivalent arithmetic is reported as undecided.",
        technique="type-parameter dependence + path-sensitive dataflow summaries (guard sets, stores and their index per path) + polynomial normal forms of index expressions over MIR",
        trusted_base=TB,
        assumptions=["usize is 64 bit on the analysis host"],
    ),
    "C14": dict(
        packs=["c14", "c03", "x_images"], level="other",
        explanation="R14.1 table check over every MonoFont constant as evaluated by rustc's const evaluator (atlas size, character size, data length, glyph count of the expanded NUL-marker mapping and replacement index versus the number of cells, unique characters): decides the clause 'each mapped character has its own index whose cell lies completely inside the font image' for every built-in font. "
                    "R14.2 decoration pairing and width, R14.3 colour roles of the three MonoFontDrawTarget flavours and their construction in draw_string, R14.4 the two decoders of the mapping grammar and index(), R14.5 glyph() cell arithmetic and guards, who-may-call SubImage::new_unchecked. R14.2 also: the effective_color table, and every successful path of draw_string / draw_whitespace that advanced has called draw_decorations with exactly its advance and position (must-pass-through).",
        claim="Decides the built-in font/mapping table clause for all fonts and the structural wiring of glyph lookup, colour roles and decorations; not the per-character advance arithmetic nor the bitmap contents.",
        note="Necessary conditions plus one exhaustive table clause; trusted: rustc const evaluation of the font constants, the checker's own copy of the documented mapping grammar (cross-checked against the two in-tree decoders by R14.4).",
        technique="constant-table lint over compiler-evaluated consts + path-sensitive dataflow summaries (closures of the glyph colour streams and the mapping decoders summarised per path) over MIR",
        trusted_base=TB,
        assumptions=[],
    ),
    "C02": dict(
        packs=["c02", "c16", "degree_c16"], level="other",
        explanation="R02.1 the text box height covers the glyph cell and the underline on every path of measure_string (with the table obligation over all built-in fonts where the code relies on it), R02.2 decoration/baseline table over every MonoFont constant, "
                    "R02.3 the six closed shapes grow their box by exactly stroke_area's growth, R02.4 min/max pairing of the text union and same (line, position) pairs for measuring and drawing, R02.5 the thick-segment box spans exactly the end points of the rasterised edges, R02.6 axis consistency (no definite x-quantity meets a y-quantity in sums, min/max or Point/Size components) in the styled/text/image code, R02.7 the triangle's hole test is existential over the joins of all three corners, each against its opposite edge. R02.5 also fixes which corners edges() joins (each edge line on its own side, between start_join.second_edge_start and end_join.first_edge_end); R02.8 a path of measure_string whose box leaves the underline rows out has established that no underline can be drawn (underline_color None, or TextColor with no text colour).",
        claim="Decides the font-table clauses for all built-in fonts and the structural wiring of styled/text/thick-segment boxes; pixel-exact containment for lines, triangles and polylines (join arithmetic) is not decided.",
        note="Necessary conditions; trusted: rustc const evaluation of font constants; equivalent-but-different arithmetic is reported as undecided.",
        technique="constant-table lint + origin-tree comparison, path summaries and an axis (dimension) analysis over MIR",
        trusted_base=TB,
        assumptions=[],
    ),
    "C20": dict(
        packs=["c20", "c03"], level="other",
        explanation="R20.1 the 12 ColorMapping tables are extracted completely from the MIR switch tables (constant patterns are compiled to switches on evaluated values) and checked to be mutually inverse, injective, '?' only outside the table and to name the documented colours; gray radix/scale pairing; ' ' <-> None. "
                    "R20.2 complete decision table of draw_pixel over (inside, allow_oob, allow_overdraw, occupied) compared with the specification on all 16 valuations. R20.3 one cell index formula for get/set, affected_area min/max pairing, diff table, element-wise eq. R20.5 who-may-write: the cell array is stored only by set_pixel/set_pixel_unchecked and the DrawTarget methods change cells only through draw_pixel (which applies the checks).",
        claim="Decides the character tables and the panic/store decision table of draw_pixel exhaustively, plus structural pairing of the area/diff/index code; histories as such follow from the single store site but are not enumerated.",
        note="Necessary conditions plus exhaustive finite tables; trusted: rustc's lowering of constant patterns, decision extraction on acyclic CFGs.",
        technique="decision-table extraction from MIR switch tables and path summaries + field write-site inventory (who-may-write)",
        trusted_base=TB,
        assumptions=[],
    ),
    "C03": dict(
        packs=["c03", "c16", "degree_c16"], level="other",
        explanation="Wiring rules over the MIR of the four adapters, their constructors, the pixel-translating iterator and the three DrawTarget default methods: R03.1 every geometric argument reaching Clipped's parent is sanitised (filter by clip_area.contains, intersection, or equality with its intersection; the re-cut path builds Cropped::new(colors, area.size, intersection.translate(-area.top_left))), "
                    "R03.2 single constructors that confine the area once, R03.3 one shift with opposite sign for the reported box, R03.4 colours only through Into, R03.5 pass-through of Cropped, R03.6 trait defaults keep their geometry and every fill_contiguous in the library pairs the caller's colour stream with the caller's area. R03.7 axis consistency of the iterator / draw-target code (colours to skip are counted in rows of the area width).",
        claim="Decides the structural exactness of adapters and defaults (what is forwarded, shifted, clipped, converted); the skip arithmetic of the cropping colour iterator and deep nestings are not decided.",
        note="Necessary conditions; idioms other than the enumerated ones are reported as violations (fail closed).",
        technique="origin-tree wiring comparison (canonical forms) + guard extraction and path summaries over MIR",
        trusted_base=TB,
        assumptions=[],
    ),
    "C13": dict(
        packs=["c13"], level="other",
        explanation="R13.1 channel wiring of every From conversion and with_rgb888 (channel k of the result = convert_channel::<SRC::MAX_k, DST::MAX_k>(src.k()), const generics compared with the impl tables' evaluated constants), R13.2 identity path of convert_channel for equal maxima and the round-half-up fixed-point form, "
                    "R13.3 luma coefficients sum to the divisor with rounding constant div/2, R13.4 binary thresholds (rounded luma >= 128, GRAY_50 = (MAX+1)/2), map_color and bool tables, BLACK/WHITE constants.",
        claim="Decides the wiring/maxima/threshold/table clauses for all ~180 conversion functions; nearest-value rounding and monotonicity of the fixed-point reciprocal over all value pairs are not decided.",
        note="Necessary conditions; trusted: rustc's evaluation of const generics and associated consts.",
        technique="origin-tree wiring comparison against compiler-evaluated constant tables + path summaries (threshold and table functions as fact/result pairs)",
        trusted_base=TB,
        assumptions=[],
    ),
    "C07": dict(
        packs=["c07", "degree_c07", "c15", "x_images", "c03"], level="other",
        explanation="R07.1 per-field effect summaries of the 12 Transform impls from MIR def-use (with mutation through &mut tracked): translate and translate_mut shift exactly the same fields, those are the position-carrying fields of the confirmed anchor table, every other field is copied unchanged, translate_mut returns self. "
                    "R07.3 the polyline consumers apply the extra Polyline::translate offset. R07.2 translation-degree abstract interpretation (positions degree 1, sizes/differences 0, doubled centres 2) of 36 query functions of the primitives (center, center_2x, bounding_box, contains, offset, styled_bounding_box, …) with callees inlined: no truncating division, |.|, variable scaling or mixed-degree comparison touches a position-dependent value and results have the degree of their role, hence these queries commute with translation for all inputs.",
        claim="Decides 'translate_mut has the same effect as translate', that exactly the anchors move, and translation-equivariance of bounding boxes / contains / centres of the listed primitives (and of the whole Rectangle API in C16); equivariance of rasterisation through the thick-join arithmetic and triangle area products is outside the domain (listed exclusions).",
        note="Necessary conditions. Known deviation of the pristine tree outside this rule's reach: thick miter joins round a position-dependent numerator (IntersectionParams::intersection), see DESIGN.md section 7.",
        technique="per-field effect summaries from path summaries (loops walked once) compared between sibling methods and with an anchor table; translation-degree abstract domain",
        trusted_base=TB,
        assumptions=[],
    ),
    "C15": dict(
        packs=["c15"], level="other",
        explanation="R15.1 on every path of Text::lines the string measured for alignment is the string yielded for drawing/boxing; R15.2 complete baseline_offset table; R15.3 draw_string/draw_whitespace subtract (0, baseline_offset) and add it back on every successful return path, measure_string predicts position + (width, 0); "
                    "R15.4 alignment table (Left/Right/Center forms over next_position measured at zero), one line_height() advance per split item on every path, LineHeight::to_absolute table, Text::line_height wiring. R15.5 the position returned by draw_string_binary / draw_string / draw_whitespace / Text::draw does not depend on the draw target (non-interference: the target occurs only as an argument of drawing calls, in their success tests and inside the payload of renderer calls).",
        claim="Decides the table/wiring clauses of text layout for every alignment, baseline and line-height variant; that the returned position is independent of the target is decided (R15.5); equality of summed advances (draw = measure on x, chaining) is arithmetic and not decided.",
        note="Necessary conditions; equivalent-but-different arithmetic is reported as undecided.",
        technique="path-sensitive dataflow summaries and per-path origin trees over MIR compared with specification tables",
        trusted_base=TB,
        assumptions=[],
    ),
    "C06": dict(
        packs=["c06", "c05", "c16", "c07", "degree_c07"], level="other",
        explanation="R06.1 complete inside/outside split tables over StrokeAlignment (outside + inside = width, larger half inside), R06.2 fill_area/stroke_area offsets (solid: -inside / +outside, non-solid fill: 0) and Styled forwards, "
                    "R06.3 segment/colour pairing: draw path (draw_stroke, draw_stroke_and_fill) and pixel path (three StyledPixelsIterator::next) assign the same colour role to the same scanline segment, segment accessors span the documented ranges, "
                    "R06.4 both renderers of rectangle/circle/ellipse/rounded rectangle take their areas from style.stroke_area/fill_area of the unmodified primitive (call sites followed through helpers introduced by an edit), R06.5 axis consistency of the stroke/fill area code, R06.6 a row of the rounded rectangle's fill area in which the column search finds nothing carries no fill range. and a non-empty fill range starts at a column found by searching the stroke scanline with fill_area.contains().",
        claim="Decides the split tables (the statement's own wording) and the structural agreement of the two renderers with fill_area()/stroke_area(); that the scanline generators realise exactly contains() of those areas, and the rectangle's four-border arithmetic, are not decided.",
        note="Necessary conditions; fail closed on unrecognised idioms.",
        technique="decision-table extraction + origin-tree wiring comparison + axis (dimension) analysis over MIR",
        trusted_base=TB,
        assumptions=[],
    ),
    "C01": dict(
        packs=["c01", "c03", "c05", "c17"], level="other",
        explanation="Renderer-agreement rules over MIR: R01.1 segment/colour pairing of the draw path and the three pixel paths, triangle colour-by-type tables in new/next/draw_styled; R01.2 both renderers of all nine primitives are fed the same geometry by role (areas of the unmodified primitive, identical ScanlineIterator arguments, draw = draw_iter(pixels iterator) for line/arc/sector, polyline translate handling); "
                    "R01.3/R03.6 the trait defaults and every native fill_contiguous pair the caller's colour stream with the caller's area; R14.3 font target colour roles equal between fill_contiguous and fill_solid; R01.4 scanline -> 1px rectangle; R01.5 image draw wiring.",
        claim="Decides that the alternative drawing paths are wired to the same generators, geometry inputs and colour roles; pixel-map equality itself (scanline/rectangle arithmetic, thin corners, collapsed fills) is not decided.",
        note="Necessary conditions; fail closed on unrecognised idioms.",
        technique="sibling-implementation agreement via origin-tree comparison, decision tables and path summaries (loop bodies walked once) over MIR",
        trusted_base=TB,
        assumptions=[],
    ),
    "C09": dict(
        packs=["c09", "c11", "c03"], level="other",
        explanation="R09.1 every SubImage area is confined (single confining constructor, who-may-call new_unchecked, unconditional forwards that compose for nesting), R09.2 ImageRaw::new accepts exactly bytes_per_row*height with padded rows, data_width table, new_const, "
                    "R09.3 pixel()/draw_sub_image guard sets on path summaries (lookup/draw exactly when inside) and the index/skip forms, R09.4 colour count of ContiguousPixels by a potential function: remaining_x + remaining_y*width drops by exactly 1 on every pulling path of next(), stops only at 0, and new() must initialise it to width*height. R09.5 axis consistency of the image code (index = row * width + column).",
        claim="Decides length acceptance, guard placement, index/skip forms and the exact colour count of the stream (for an underlying iterator that does not run dry); colour order inside a row is inherited from C11's iterator rules.",
        note="Necessary conditions plus one invariant (potential function) check by polynomial identity on each path; trusted: path enumeration of small acyclic functions.",
        technique="path-sensitive dataflow summaries (guard sets: acting paths establish every guard, idle paths violate one), origin-tree comparison and a potential-function (ranking) check by polynomial identities per path",
        trusted_base=TB,
        assumptions=["the raw data iterator yields an item for every in-range index (C11)"],
    ),
    "C19": dict(
        packs=["c19", "c07"], level="other",
        explanation="R19.1 on every path of Triangle::scanline_intersection the set of rasterised edges is exactly (p1,p2),(p1,p3),(p2,p3) of the (y,x)-sorted vertices (only (p1,p3) in the colinear case), Triangle::contains walks the same canonical edges, sorted_yx is a 3-step compare-exchange network; "
                    "R19.3 winding symmetry of Triangle::contains: the inside test is invariant under (s, t, area) -> (-s, -t, -area), decided in the sign domain over all 18 sign cases; R19.2 polyline Points::next loads Line(start+translate, end+translate) of the next two vertices, drops one vertex per segment, and re-enters the polyline iterator with the shared joint skipped so that zero-length segments fall through. R19.4 the outline rows of a stroked triangle keep every edge: each edge intersection is merged into / becomes the left run, or after the left run refused it the right run, on every loop path of edge_intersections.",
        claim="Decides the canonical-edge clause (shared edges rasterise identically, result independent of vertex order as far as edge direction is concerned) and the segment-chaining structure of thin polylines; interior coverage, one-pixel tolerance and gap-freedom are geometry and not decided.",
        note="Necessary conditions; fail closed on unrecognised idioms.",
        technique="per-path origin trees and path summaries over MIR (edge-set extraction, per-path effects of the polyline iterator) compared with the canonical edge table",
        trusted_base=TB,
        assumptions=[],
    ),
    "C12": dict(
        packs=["c12", "c11", "c10"], level="proof",
        explanation="Bit-provenance abstract interpretation (each result bit is 0, 1, a copy of one input bit, or unknown) of new / channel accessors / From<Raw> / Into<Raw> / into_storage / to_be_bytes / to_le_bytes for all 14 colour types, callees inlined from their MIR. "
                    "Obligations per type: O1 raw->colour->raw only clears unused bits, O2 colour->raw->colour is the identity on every value a constructor can produce (class invariant computed from the constructors), O3 the raw value fits BITS_PER_PIXEL and every constructor (incl. From<Raw>) clears the bits above the channels, "
                    "O4 new keeps each channel modulo its width in disjoint contiguous fields and the accessors return it, O5 documented Rgb/Bgr bit order, O6 storage and both byte serialisations expose the same bit vector. The domain is exact for this shift/mask/cast code, so the verdict covers all values; an unknown bit leaves the obligation undischarged.",
        claim="Proves the raw round-trip, masking, channel layout and serialisation clauses for every colour type and every value.",
        note="Trusted: rustc's MIR and evaluated constants, the bit-domain transfer functions (and/or/xor/shift/cast/add on disjoint supports, byte (de)composition), inlining of crate-local callees; BinaryColor (a two-valued enum) is decided by complete decision tables.",
        technique="abstract interpretation with a bit-provenance domain over inlined MIR origin trees",
        trusted_base=TB,
        assumptions=[],
    ),
    "C08": dict(
        packs=["c08", "x_scanline"], level="other",
        explanation="R08.1 (exact) no allocator in the program: the crate graphs of both library crates in every analysed feature configuration contain neither alloc nor std and no type/callee path lives there. R08.2 every explicit panic entry point reachable from non-test, non-mock library code is in an audited table with its reason; the six unreachable!() of the font adapter are proved unreachable on the monomorphic instance closure of text drawing. "
                    "R08.5 the zero-extent guards at the two anchored sites by dominance. R08.3/R08.4 interval abstract interpretation of every library body under display-scale input contracts, with private field ranges inferred from all write sites and the parameter ranges of crate-private functions inferred from all their call sites: every overflow/zero-divisor/bounds assert must be proved dead, be a recorded finding, or be counted in the reviewed outside-the-claim baseline.",
        claim="Decides the allocation clause exactly and the explicit-panic discipline; arithmetic overflow is decided only inside the kernel table under the stated contracts; termination of iterators is not decided.",
        note="Host assumption: usize is 64 bit. Interval results are sound only relative to the input contracts listed in the evidence file.",
        technique="crate-graph and whole-program path scan, audited panic-site inventory, monomorphic reachability, dominance guards, interval abstract interpretation",
        trusted_base=TB,
        assumptions=["usize is 64 bit on the analysis host", "display-scale contracts: coordinates within +-4096 after offsets, sizes <= 2560, stroke widths <= 128"],
    ),
    "C16": dict(
        packs=["c16", "degree_c16"], level="other",
        explanation="R16.1 the two public definitions of Rectangle::contains and Rectangle::offset (core inherent vs. embedded-graphics trait impl) have identical decision structures; R16.3 no library logic compares whole Point/Size values with the derived lexicographic order; R16.4 component_min/component_max are component-wise and intersection/envelope build top-left/bottom-right from max/min resp. min/max; "
                    "R16.5 translation-degree analysis of the Rectangle API: positions have degree 1, sizes and differences degree 0, no truncating division or variable scaling is applied to a position-dependent value and comparisons relate values of equal degree. R16.6 axis consistency of the rectangle and geometry operations. R16.7 value and decision tables of bottom_right, both contains, is_zero_sized, anchor_x/y, resize_*_mut, rows/columns, center/with_center and with_corners against the point-set meaning of top-left plus size (polynomial normal forms of values and comparison facts with all crate-local callees inlined).",
        claim="Decides agreement of duplicate definitions, absence of lexicographic point logic, the min/max roles of the corner arithmetic and translation-equivariance (hence rounding independent of position) of the Rectangle operations; set-theoretic exactness of the accessor / constructor functions is decided by R16.7 for sizes below 2^31; the interval case analysis inside intersection() (overlaps) is not decided.",
        note="Necessary conditions.",
        technique="sibling-implementation agreement (decision signatures), typed call-site lint, translation-degree abstract domain, axis (dimension) analysis over MIR",
        trusted_base=TB,
        assumptions=[],
    ),
    "C05": dict(
        packs=["c05", "c18", "c16"], level="other",
        explanation="Predicate agreement between contains() and the search behind points(): R05.1 circle (same strict squared-distance comparison against the same circle's center_2x/threshold), ellipse (both through EllipseContains::new(size).contains(2p - center_2x)), sector (circle test and PlaneSector::new(angle_start, angle_sweep) on 2p - center_2x, scanning the whole circle's distance iterator; Sector::center_2x agrees with Circle::center_2x), "
                    "R05.2 rounded rectangle: the quadrant/row-guard table of RoundedRectangleContains::contains equals the one of the row search (with find/rfind per side) and only the fall-through accepts without consulting a corner; R19.1 triangle canonical edges in contains() and in the scanline intersection; R05.3 rectangle iterator corners; R05.4 a row in which the search accepts no column does not end the enumeration (ellipse, rounded rectangle; the circle exempt with its reason).",
        claim="Decides that both sides evaluate the same membership predicate on the same arguments for circle, ellipse, sector, rounded rectangle and triangle edges; that the per-row searches enumerate exactly the accepted points (mirrored runs, rows without hit, order, uniqueness) is numeric and not decided.",
        note="Necessary conditions; a divergence is reported as undecided unless one side is visibly a different function.",
        technique="sibling-implementation agreement: acceptance conditions of the searches (loops / find / rfind walked once) and decision tables from path summaries over MIR",
        trusted_base=TB,
        assumptions=[],
    ),
    "C18": dict(
        packs=["c18", "c05"], level="other",
        explanation="R18.1 the circle and ellipse hit tests use the centre offset only through even functions (x*x + y*y, pow(2)): mirror symmetry about both centre lines for all inputs; R18.2/R18.4 under width == height the ellipse threshold is the circle's diameter_to_threshold and the test is x^2 + y^2 < threshold, a = width^2, b = height^2, both doubled-centre formulas are top_left*2 + (size-1); "
                    "R18.3 in the float and the fixed_point build PlaneSector::new selects EntirePlane exactly under |sweep| >= ANGLE_360DEG (= 2*pi), which accepts every point; R05.2 the corner-quadrant tables of rounded rectangles. R18.5 complete decision tables of Operation::execute (and / or / true), PlaneSector::contains (left half plane on its Left side, right on its Right side, combined by the operation for all three operations x four outcomes) and point_type (None / Stroke / Fill). R18.6 axis consistency of corner radii, quadrants and centres. R18.7 CornerRadii::confine measures the overlap along each of the four sides with the two corners of that side and scales all corners by extent / radii sum of one side.",
        claim="Decides the symmetry, circle-equals-ellipse, full-sweep, plane-sector combination and corner-table clauses structurally; half-pixel accuracy, contiguity, bounding-box contact and angular tolerances are numeric and not decided.",
        note="Necessary conditions; overflow of the squared terms is C08's concern.",
        technique="parity (even-function) analysis, complete decision tables from path summaries and axis (dimension) analysis over MIR in two feature configurations",
        trusted_base=TB,
        assumptions=[],
    ),
}

# rules added after the texts above were written (kept separate so the per-property texts stay readable)
EXTRA = {
    "C09": "R09.6 potential-function rule for ContiguousPixels::next: every pulling path consumes exactly S(after) - S(before) raw items with S = -(remaining_y*(width + row_skip) + remaining_x); a row change happens only at remaining_x = 0.",
    "C01": "R01.6 StyledPixelsIterator::next of the triangle returns None only on paths on which lines_iter.next() is exhausted (found and fixed a defect). R01.5 every path of Image::draw / SubImage drawing passes through the one draw call of the wrapped image on the target translated by the offset (must-pass-through on path summaries). R01.7 no renderer (draw / draw_styled / text and image renderers, their closures and new helpers) asks the DrawTarget-bounded value for bounding_box() / size().",
    "C03": "R03.8 Translated, ColorConverted and Cropped forward every call: on every path of draw_iter / fill_contiguous / fill_solid / clear the parent's method of the same name is called once on self.parent and its outcome returned (must-pass-through). R03.9 iterator::contiguous::Cropped::new discards exactly S = crop.y * size.width + crop.x source colours (nth(S - 1) under 0 < S, nothing under S = 0). R03.6 stream forwarding: a fill_contiguous that forwards the caller's colour stream uncut hands on the caller's area or a translation of it; delegated pairing follows (area, colors) into helpers new to the tree. R03.10 potential-function rule for contiguous::Cropped::next: every pulling path consumes exactly S(after) - S(before) source items with S = y*(size.width + row_skip) + x, pulls once and returns that pull.",
    "C05": "R05.4 also: a row of the ellipse / rounded rectangle is given up only after an exhausted column search (no second, shortcut membership test). R05.5 a corner row of the rounded rectangle in which the corner search accepts no column starts / ends at the corner's own box edge, never at the rectangle's first / last column (contains() rejects the corner's columns of such a row). R05.6 rounded_rectangle::Points::next ends only when the scanline source is exhausted, not at an empty scanline. R05.7 RoundedRectangle::contains is RoundedRectangleContains::new(self).contains(point) on every path.",
    "C07": "R07.5 on every path of Polyline::bounding_box the result is the documented empty box or every use of the vertex slice has self.translate added.",
    "C14": "R14.5 builder integrity: every MonoTextStyleBuilder method that returns the builder keeps each style field in place unless it sets it from its arguments or a constant; no field receives a different field of the incoming style; From<&Style> carries every field. R14.6 all font constants of one glyph subset module use the same glyph mapping.",
    "C15": "R15.6 builder integrity of TextStyleBuilder (as R14.5). R15.7 sibling agreement: the font constants of one name carry the same metrics (size, spacing, baseline, underline, strikethrough) in every glyph subset.",
    "C20": "R20.6 every returning path of from_pattern has established width <= SIZE and height <= SIZE and no other condition on the pattern's dimensions. R20.5 also counts mutable borrows of the cell array through a &mut MockDisplay as stores (a display the function itself is building is exempt).",
    "C02": "R02.10 every path of Polyline::draw_styled that touches the target with the raw stroke colour has excluded stroke_width == 0. R02.9 Line::styled_bounding_box is with_corners over exactly the four end points of extents(stroke_width, StrokeOffset::None) (a fold over the literal array of the four points is expanded). R02.11 the collapsed-triangle special case of ScanlineIntersections::new depends on the geometry alone (is_collapsed(..) && offset == Right): a path storing false has refuted one of the two, a path storing true established both. R02.12 Triangle::styled_bounding_box builds its thick segments from sorted_clockwise() vertices, style.stroke_width and StrokeOffset::from(style.stroke_alignment) on every path.",
    "C06": "R01.4 (shared with C01) Scanline::draw is one fill_solid of exactly the run's columns iff the run is not empty. R06.7 the fill range of a styled scanline (circle, ellipse, rounded rectangle) is searched over the stroke scanline's own column range from its first column; a skipped or shifted range is reported.",
    "C11": "R11.8 layout form: load/store of the sub-byte types with every helper inlined, evaluated in the bit domain for both data orders and every pixel index of two bytes against the documented layout (independent of the bit_position helper). R11.6 construction: RawDataSlice::into_iter starts with data = self.data and index = 0. R11.9 the public RawData::load/store of all 7 types hand (self,) buffer, index to LoadStore and return its outcome on every path; a path answering by itself must have established load(buffer, index) is Some(self) (Ok without a store) or is None (Err/None).",
    "C12": "O6 also covers to_ne_bytes (native order of the analysed host build). O0 also: every direct construction of a raw tuple struct outside new / new_unmasked stores a value whose bits at and above BITS_PER_PIXEL are provably zero.",
    "C16": "R16.8 (decision by order types, mirq/orders.py) for non-empty rectangles Rectangle::intersection takes the corner-building exit exactly when column ranges and row ranges overlap: all 100 x 100 order types of the eight corner coordinates are read off the path summaries; arithmetic on a coordinate makes the rule undecided.",
    "C17": "R17.7 pixels(style) and draw_styled of a Line build StyledPixelsIterator::new(self, style) from the unmodified line on every path. R17.6 the styled line's pixel iterator pulls exactly one item of ThickPoints::next per call, ends iff the pull ends and returns Pixel(pulled point, colour): no filter or search over the point iterator.",
    "C18": "R18.9 the first / last column of a rounded-rectangle row is searched over the rectangle's whole column range (a corner can be wider than half the rectangle). R05.1 sector wiring (Sector::contains = circle test and PlaneSector test on 2p - center_2x; Sector::center_2x equals the circle's formula).",
    "C19": "R19.5 (decision by order types) Triangle::sorted_yx returns a permutation of the vertices ordered by (y, x) for all 729 order types of the six coordinates. R19.6 the triangle stored in ScanlineIntersections and asked is_collapsed is sorted_clockwise(..) on every path, traced through parameters to every call site. R19.7 a Pixel built from an item of polyline::Points in the polyline's styled code has that item itself as its point (no second translation), and every item reaches the pixel closure (no skip/filter/take). R19.8 the one-pixel case of ThickSegment::intersection intersects exactly edges().0 on every skeleton path. R19.9 Scanline::bresenham_intersection extends the scanline only with columns of items of line.points() (one rasteriser for edges). R19.10 ScanlineIntersections::next returns None only after all three slots were found empty and yields the internal part with internal_type, the border parts as Stroke.",
}
for _k, _v in EXTRA.items():
    CHECKS[_k]["explanation"] = CHECKS[_k]["explanation"].rstrip() + " " + _v
for _k in ("C16", "C19"):
    if "order types" not in CHECKS[_k]["technique"]:
        CHECKS[_k]["technique"] += ", exhaustive case analysis over order types of comparison-only code"


# rule packs of other properties that a property's behaviour depends on (DESIGN.md section 5, "Shared rule packs"):
# they run inside this property's check as further necessary conditions, with the same keys
DEPENDS = {
    "C01": "Also runs the adapter / trait-default rules of C03 (the drawing paths a target offers include the adapters' fill methods and the defaults), the membership rules of C05 (pixels() of the closed shapes is built on contains(), draw() on the scanline searches) and the line rules of C17 (draw() of a line is draw_iter over its pixels() on every path).",
    "C02": "Also runs the Rectangle rules of C16 (styled boxes are built with Rectangle::offset / with_corners / envelope).",
    "C03": "Also runs the Rectangle rules of C16 (clipping is Rectangle::intersection / contains / bottom_right).",
    "C05": "Also runs the corner rules of C18 (confined radii, quadrants) and the Rectangle rules of C16 (rectangle points / contains).",
    "C06": "Also runs the membership rules of C05 (the fill range of a styled scanline is fill_area.contains()) and the Rectangle rules of C16 (fill_area / stroke_area are Rectangle::offset), and the translation rules of C07 (the areas of circles, ellipses and rounded rectangles are rebuilt around center(): a centre that rounds differently at negative coordinates shifts them against the shape).",
    "C07": "Also runs the text layout rules of C15 (a text is positioned relative to its position on every path) and the image / polyline wiring R01.5, R01.2 (an image is drawn on target.translated(offset), a polyline adds its translate exactly once) and the adapter / trait-default rules of C03 (a translated drawable that is cut by the target's edge goes through them).",
    "C08": "Also runs R01.4 (an empty scanline never reaches the width subtraction).",
    "C09": "Also runs the raw load / iteration rules of C11 (pixel() and the colour stream read through RawDataSlice) and the adapter / trait-default rules of C03 (the image's colour stream reaches the target through fill_contiguous of the adapters and the default).",
    "C10": "Also runs O0 of C12 (raw values are masked by construction: set_pixel ORs them in unmasked), the ImageRaw rules of C09 (as_image() / pixel() read through ImageRaw) and the raw load / iteration rules of C11, and the trait-default rules of C03 (Framebuffer relies on the default fill methods).",
    "C11": "Also runs O0 of C12 (raw values are masked by construction).",
    "C12": "Also runs the raw load / store rules of C11 and the framebuffer rules of C10 (into_storage / to_bytes and the raw types are what they store).",
    "C18": "Also runs the membership rules of C05 (the curved shapes are drawn from their row searches: a search that ends at the first empty row loses the rest of a narrow ellipse).",
    "C19": "Also runs the Transform rules of C07 (a polyline is drawn at vertices + translate: translate and translate_mut must accumulate the offset) and R01.7 (no renderer asks the target for its size).",
    "C20": "Also runs the adapter / trait-default rules of C03 (MockDisplay inherits the default fill_contiguous / fill_solid / clear: every pixel of a fill must reach draw_iter for the out-of-bounds and overdraw checks to see it).",
    "C14": "Also runs the adapter / trait-default rules of C03 (glyphs reach the target through fill_contiguous / fill_solid of the font draw targets and the defaults) and the image wiring R01.5 (every glyph is drawn as an Image of a sub image).",
}
for _k, _v in DEPENDS.items():
    CHECKS[_k]["explanation"] = CHECKS[_k]["explanation"].rstrip() + " " + _v
