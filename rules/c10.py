"""C10 — Framebuffer reads back what was written, in the layout of ImageRaw (structural part)."""
from mirq import ty_str
from mirq.cfg import CFG
from mirq.depend import Dependence
from mirq.origin import Origins, show, walk, dominating_guards, lit_truth, decisions, subst, mk_bin
from mirq.pat import match, strip_casts, find
from rules.c11 import RAW_BITS, LOADSTORE, order_param, short_raw, ALT, _eval_int
from mirq.paths import Paths, Unsupported, check_guarded, show_fact, show_eff, UNIT, strip_casts as pstrip

FB = "embedded_graphics::framebuffer::Framebuffer"
ORDERS = {"LittleEndianMsb0": "le", "BigEndianLsb0": "be"}


def fold(t):
    """Fold constant integer subtrees and strip integer casts."""
    def r(n):
        if n[0] == "cast":
            return n[1]
        if n[0] == "bin" and n[2][0] == "const" and n[3][0] == "const" and all(isinstance(x[1], int) and not isinstance(x[1], bool) for x in (n[2], n[3])):
            a, b = n[2][1], n[3][1]
            try:
                v = {"Add": a + b, "Sub": a - b, "Mul": a * b, "Div": a // b if b else None, "Rem": a % b if b else None}.get(n[1])
            except Exception:
                v = None
            if v is not None:
                return ("const", v)
        return None
    return subst(t, r)


def C(v):
    return ("const", v)


def expected_index(bits, X, Y):
    W = C("WIDTH")
    if bits < 8:
        stride = mk_bin("Div", mk_bin("Add", mk_bin("Mul", W, C(bits)), C(7)), C(8))
        return mk_bin("Add", mk_bin("Mul", stride, Y), mk_bin("Div", X, C(8 // bits)))
    if bits == 8:
        return mk_bin("Add", mk_bin("Mul", Y, W), X)
    return mk_bin("Mul", mk_bin("Add", mk_bin("Mul", Y, W), X), C(bits // 8))


def coord_facts(guards, px, py):
    """From dominating guards derive which of the four bounds 0<=x, x<WIDTH, 0<=y, y<HEIGHT hold.
    Recognised idioms: usize::try_from(e) is Ok (lower bound) + payload < LIMIT; e >= 0 / !(e < 0);
    e < LIMIT as i32 (upper only); (e as u32|usize) < LIMIT (both)."""
    facts = set()
    for d, lit in guards:
        for axis, e, lim in (("x", px, "WIDTH"), ("y", py, "HEIGHT")):
            tf = ("call", "*::try_from", "_", (e,))
            if match(d, ("discr", tf)) is not None and lit == (0,):
                facts.add(axis + ">=0")
            truth = lit_truth(lit)
            if truth is None:
                continue
            payload = ("field", ("variant", tf, "Ok"), 0)
            for op, t_needed in (("Lt", True), ("Ge", False)):
                if match(d, ("bin", op, payload, C(lim))) is not None and truth == t_needed:
                    facts.add(axis + "<" + lim)
                    facts.add(axis + ">=0")  # payload exists only when try_from was Ok
                if match(d, ("bin", op, e, ("cast", C(lim), "_"))) is not None and truth == t_needed:
                    facts.add(axis + "<" + lim)
                if match(d, ("bin", op, ("cast", e, {"u32", "usize", "u64"}), {C(lim), ("cast", C(lim), "_")})) is not None and truth == t_needed:
                    facts.add(axis + "<" + lim)
                    facts.add(axis + ">=0")
            if match(d, ("bin", "Ge", e, C(0))) is not None and truth is True:
                facts.add(axis + ">=0")
            if match(d, ("bin", "Lt", e, C(0))) is not None and truth is False:
                facts.add(axis + ">=0")
    return facts


def data_writes(f, org, data_idx):
    """[(block, kind, index_tree)] for every write into self.data in f."""
    out = []
    self_data = ("field", ("deref", ("param", 1, "self")), data_idx)
    blocks = f.body["blocks"]
    for bi in sorted(org.cfg.live_blocks()):
        blk = blocks[bi]
        for si, s in enumerate(blk["s"]):
            if s["k"] != "assign":
                continue
            pl = s["place"]
            if pl["l"] == 1 and "*" in pl["p"] and any(isinstance(e, dict) and e.get("f") == data_idx for e in pl["p"]):
                idx = [e for e in pl["p"] if isinstance(e, dict) and "idx" in e]
                itree = org._local(idx[0]["idx"], (), bi, si) if idx else None
                out.append((bi, "assign", itree, blk["s"][si].get("sp", "")))
            elif "*" in pl["p"] and pl["l"] != 1:
                base = org._local(pl["l"], (), bi, si)
                if any(n == self_data for n in walk(base)):
                    out.append((bi, "assign-through", base, s.get("sp", "")))
        t = blk["t"]
        if t and t["k"] == "call":
            args = org.term_args(bi)
            for a in args:
                if any(n == ("ref", self_data) or n == self_data for n in walk(a)):
                    tyl = None
                    ol = t["args"][args.index(a)]
                    l = (ol.get("move") or ol.get("copy") or {}).get("l")
                    ty = f.body["locals"][l]["ty"] if l is not None else None
                    if isinstance(ty, dict) and ty.get("mut"):
                        out.append((bi, "call:" + t["f"].get("name", "?"), a, t.get("sp", "")))
                    break
    return out


def run(ctx, rep):
    prog = ctx.program("default")
    rep.configs.append(getattr(ctx, "alias", "default"))
    dep = Dependence(prog)
    adt = prog.adts[FB]
    gen = [g["name"] for g in adt["generics"]]
    fidx = {f["name"]: i for i, f in enumerate(adt["variants"][0]["fields"])}
    DATA = fidx["data"]
    load_dep = {}
    for impl in prog.impls.values():
        if impl.get("trait") == LOADSTORE:
            load_dep[short_raw(impl)] = dep.fn_uses(prog.fns[impl["fns"]["load"]], order_param(impl))

    P_ = Paths(prog)
    sps = [f for f in prog.fns.values() if f.name == "set_pixel" and f.impl and prog.impls[f.impl]["self_ty"].get("adt") == FB]
    rep.floor("R10", "set_pixel impls", len(sps), 10)
    seen_raw = {}
    for f in sorted(sps, key=lambda f: f.path):
        impl = prog.impls[f.impl]
        a = impl["self_ty"]["args"]
        raw = ty_str(a[1]).split("::")[-1]
        bits = RAW_BITS.get(raw)
        order = a[2]
        oname = ty_str(order).split("::")[-1]
        key = "%s/%s" % (raw, oname if "adt" in order else "any-order")
        if bits is None:
            rep.fail("R10.1", key, "set_pixel impl for an unknown raw type", status="undecided", at=f.span, fn=f.path)
            continue
        seen_raw.setdefault(raw, []).append(oname)
        specialised = isinstance(order, dict) and "adt" in order
        wdep = specialised or dep.fn_uses(f, order.get("param"))
        rdep = load_dep.get(raw)
        rep.check(wdep == rdep, "R10.1", key,
                  "the reader (pixel()/as_image() -> %s::load::<O>) %s the data order but this set_pixel %s: one of the two data orders reads back wrong pixels"
                  % (raw, "depends on" if rdep else "ignores", "depends on it" if wdep else "is parametric in it"),
                  at=f.span, fn=f.path, detail={"writer_uses": sorted(dep.uses[f.id]), "specialised_on_order": specialised})
        rep.sample({"rule": "R10.1", "impl": key, "reader_depends_on_order": rdep, "writer_depends_on_order": wdep})
        set_pixel_paths(prog, rep, P_, f, key, bits, oname, specialised, DATA)

    for raw, n in RAW_BITS.items():
        os_ = seen_raw.get(raw, [])
        full = (len(os_) == 1 and os_[0] not in ORDERS) or set(os_) == set(ORDERS)
        rep.check(full, "R10.1", raw + ":coverage", "set_pixel for %s must exist for both data orders (found %s)" % (raw, os_), status="undecided")

    check_as_image(prog, rep, DATA)
    check_check_n(prog, rep)
    check_writers(prog, rep, DATA, sps)
    from rules import axis
    axis.run_for(prog, rep, 'R10.8', ['src/framebuffer.rs'], 'framebuffer bytes are addressed as row * bytes-per-row + column')
    # W10: the compile-time size guard really stops the build (compile_fail witnesses with building twins)
    import witness
    witness.check(rep, "W10", ["W10TooSmall", "W10Exact", "W10Oversized", "W10SubByteTooSmall", "W10SubByteExact"])


def set_pixel_paths(prog, rep, P_, f, key, bits, oname, specialised, DATA):
    """R10.2 / R10.3 / R10.6 on the path summaries of one set_pixel: which paths write, under which conditions, where
    and what."""
    try:
        summs = P_.of(f)
    except Unsupported as e:
        rep.fail("R10.3", key + ":paths", "cannot summarise set_pixel: %s" % e, status="undecided", at=f.span, fn=f.path)
        return
    px = ("field", ("param", 2, "p"), 0)
    py = ("field", ("param", 2, "p"), 1)
    self_data = ("field", ("param", 1, "self"), DATA)
    Z = C(0)
    tfp = lambda e: ("payload", ("call", "core::convert::num::ptr_try_from_impls::<impl core::convert::TryFrom<i32> for usize>::try_from", (), (e,)))

    def is_tf(t, e):
        return t[0] == "call" and t[1].endswith("::try_from") and len(t[3]) == 1 and t[3][0] == e

    def lower(e):
        # 0 <= e: tested directly, or established by usize::try_from(e) being Ok, or by comparing `e as unsigned`
        def g(facts):
            for fct in facts:
                if fct[0] == "variant" and is_tf(fct[1], e) and fct[2] == ("Ok",):
                    return True
                if fct[0] == "le" and fct[1] == Z and pstrip(fct[2]) == e:
                    return True
                if fct[0] == "lt" and fct[1][0] == "cast" and fct[1][1] == e and fct[1][2] in ("u32", "usize", "u64", "u16"):
                    return True
                if fct[0] == "lt" and fct[1][0] == "payload" and is_tf(fct[1][1], e):
                    return True
            return False
        return g

    def lower_violated(e):
        def g(facts):
            for fct in facts:
                if fct[0] == "variant" and is_tf(fct[1], e) and fct[2] == ("Err",):
                    return True
                if fct[0] == "lt" and pstrip(fct[1]) == e and fct[2] == Z:
                    return True
            return False
        return g

    def norm(t):
        """coordinates as X / Y: the try_from payload or the (cast) field"""
        def r(n):
            for e, name in ((px, "X"), (py, "Y")):
                if n == e or (n[0] == "payload" and (is_tf(n[1], e) or is_tf(n[1], C(name)))):
                    return C(name)
            return None
        return fold(subst(t, r))

    def upper(e, lim):
        def g(facts):
            for fct in facts:
                if fct[0] == "lt" and norm(fct[1]) == norm(e) and fold(fct[2]) == C(lim):
                    return True
            return False
        return g

    def upper_violated(e, lim):
        def g(facts):
            for fct in facts:
                if fct[0] == "le" and fold(fct[1]) == C(lim) and norm(fct[2]) == norm(e):
                    return True
            return False
        return g
    needs = {"x>=0": (lower(px), lower_violated(px)), "y>=0": (lower(py), lower_violated(py)),
             "x<WIDTH": (upper(px, "WIDTH"), upper_violated(px, "WIDTH")), "y<HEIGHT": (upper(py, "HEIGHT"), upper_violated(py, "HEIGHT"))}
    acting = [sm for sm in summs if sm.effects]
    rep.check(len(acting) >= 1, "R10.3", key + ":has-write", "no write into self.data found in set_pixel", status="undecided", at=f.span, fn=f.path)
    missing = sorted({k for sm in acting for k, (h, v) in needs.items() if not h(sm.facts)})
    rep.check(not missing, "R10.3", key + ":write0", "write into self.data is not guarded by %s (a point outside WIDTH x HEIGHT could modify a byte)" % ", ".join(missing), at=f.span, fn=f.path)
    idle = [sm for sm in summs if not sm.effects]
    unjust = [sm for sm in idle if not any(v(sm.facts) for h, v in needs.values())]
    bad = ["nothing is written although %s" % ("; ".join(show_fact(x) for x in sm.facts) or "nothing was tested") for sm in unjust]
    bad += ["set_pixel returns %s" % show(sm.ret, maxd=3) for sm in summs if sm.ret != UNIT]
    rep.check(not bad, "R10.3", key + ":writes-inside", "set_pixel must write for every point inside WIDTH x HEIGHT (pixel() returns the colour most recently written): " + "; ".join(bad[:2]), at=f.span, fn=f.path)
    ppb = 8 // bits if bits < 8 else 1
    for wi, sm in enumerate(acting):
        wkey = "%s:write%d" % (key, 0)
        alt = None
        for fct in sm.facts:
            if fct[0] in ("true", "false") and fct[1][0] == "const" and isinstance(fct[1][1], str) and fct[1][1].startswith(ALT):
                alt = fct[0] == "true"
        if len(sm.effects) != 1:
            rep.fail("R10.6", wkey + ":index", "a path of set_pixel has %d effects, expected one store: %s" % (len(sm.effects), "; ".join(show_eff(e) for e in sm.effects[:3])), status="undecided", at=f.span, fn=f.path)
            continue
        e = sm.effects[0]
        idx = val = None
        if e[0] == "write" and e[1][0] == "index" and e[1][1] == self_data:
            idx, val = e[1][2], e[2]
        elif e[0] == "call" and e[1][1].endswith("copy_from_slice") and len(e[1][3]) == 2:
            dst, val = e[1][3]
            base = dst
            while base[0] in ("payload",):
                base = base[1]
            rng = base[3][1] if base[0] == "call" and base[1].split("::")[-1] in ("index_mut", "get_mut") and len(base[3]) == 2 and base[3][0] == self_data else None
            if rng is not None and rng[0] == "agg" and rng[1].endswith("Range::Range"):
                idx = rng[2][0]
                s_, e_ = norm(rng[2][0]), norm(rng[2][1])
                rep.check(e_ == fold(mk_bin("Add", s_, C(bits // 8))), "R10.6", wkey + ":len", "the written slice must be exactly %d bytes long" % (bits // 8), at=f.span, fn=f.path, detail=show(e_))
        if idx is None:
            rep.fail("R10.6", wkey + ":index", "cannot derive the byte index of the write (%s)" % show_eff(e), status="undecided", at=f.span, fn=f.path)
            continue
        got = norm(idx)
        want = fold(expected_index(bits, C("X"), C("Y")))
        same = got == want
        if not same:
            # compare as functions on a grid of widths and coordinates (operand order, factoring)
            same = _same_fn(got, want, bits)
        rep.check(same, "R10.6", wkey + ":index",
                  "byte index %s differs from the layout ImageRaw reads (%s): rows are WIDTH pixels padded to whole bytes" % (show(got), show(want)),
                  at=f.span, fn=f.path, detail={"got": show(got), "want": show(want)}, status="undecided" if same is None else "refuted")
        if bits > 8:
            ends = sorted({n[1].split("::")[-1] for n in walk(val) if n[0] == "call" and n[1].split("::")[-1] in ("to_le_bytes", "to_be_bytes", "to_ne_bytes", "swap_bytes")})
            order = ORDERS.get(oname) if specialised else ({True: "be", False: "le"}.get(alt))
            want_e = ["to_%s_bytes" % order] if order else None
            rep.check(want_e is not None and ends == want_e, "R10.2", key, "set_pixel for %s must serialise with %s (load decodes %s); found %s" % (oname, want_e, order, ends),
                      at=f.span, fn=f.path, status="refuted" if want_e else "undecided")
        elif bits < 8:
            # the colour bits: Shl(into_inner(..), shift); shift per data order is the documented position
            shs = [n for n in walk(val) if n[0] == "bin" and n[1] == "Shl" and any(x[0] == "call" and x[1].endswith("into_inner") for x in walk(n[2]))]
            if len(shs) != 1:
                rep.fail("R10.2", key + ":bit-position", "no single shift of the colour bits found in the stored value %s" % show(val, maxd=4), status="undecided", at=f.span, fn=f.path)
                continue
            ok, why = True, ""
            for x in range(2 * ppb):
                try:
                    v = _eval_int(fold(subst(norm(shs[0][3]), lambda n: C(x) if n == C("X") else None)), {})
                except Exception as ex:
                    ok, why = None, "cannot evaluate shift %s" % show(shs[0][3], maxd=5)
                    break
                msb = (ppb - 1 - x % ppb) * bits
                lsb = (x % ppb) * bits
                o = ORDERS.get(oname) if specialised else ({True: "be", False: "le"}.get(alt))
                if o is None:
                    if msb != lsb:
                        ok, why = False, "the bit position does not depend on the data order"
                elif v != (lsb if o == "be" else msb):
                    ok, why = False, "%s pixel x=%d must sit at bit %d, found %s" % ("under IS_ALTERNATE_ORDER" if o == "be" else "for LittleEndianMsb0", x, lsb if o == "be" else msb, v)
            rep.check(bool(ok), "R10.2", key + ":bit-position", why, at=f.span, fn=f.path, status="undecided" if ok is None else "refuted")
            # read-modify-write: the other pixels of the byte are kept, the pixel's bits replaced
            rmw = _rmw_ok(val, e[1], shs[0], bits)
            rep.check(rmw is True, "R10.2", key + ":read-modify-write", "the stored byte must be (old & !(mask << shift)) | (value << shift) with mask = 2^bpp - 1 and old = the same byte; found %s" % show(val, maxd=5),
                      at=f.span, fn=f.path, status="undecided" if rmw is None else "refuted")


def _same_fn(a, b, bits):
    """Two index expressions over X, Y, WIDTH … denote the same function if their normal forms (polynomials over the
    named constants and the truncating quotients in them, mirq.poly.normal_form) coincide.  True / False (different
    normal forms: reported as not matching the layout) / None (not such an expression)."""
    from mirq.poly import normal_form
    na, nb = normal_form(a), normal_form(b)
    if na is None or nb is None:
        return None
    return na == nb


def _rmw_ok(val, lvalue, shl, bits):
    """val == BitOr(BitAnd(old, Not(Shl(mask, s))), Shl(v, s)), any operand order; mask evaluates to 2^bits - 1"""
    if val[0] != "bin" or val[1] != "BitOr":
        return None
    parts = [val[2], val[3]]
    if shl not in parts:
        return None
    other = parts[1] if parts[0] == shl else parts[0]
    if other[0] != "bin" or other[1] != "BitAnd":
        return None
    ops = [other[2], other[3]]
    old = [o for o in ops if o == lvalue]
    nots = [o for o in ops if o[0] == "un" and o[1] == "Not"]
    if len(old) != 1 or len(nots) != 1:
        return False if len(nots) == 1 else None
    m = nots[0][2]
    if m[0] != "bin" or m[1] != "Shl" or m[3] != shl[3]:
        return False
    try:
        mv = _eval_int(fold(subst(m[2], lambda n: C(2 ** n[3][1][1]) if n[0] == "call" and n[1].endswith("::pow") and n[3][0] == C(2) and n[3][1][0] == "const" else
                                 (n[1] if n[0] == "cast" else None))), {})
    except Exception:
        return None
    return mv == (1 << bits) - 1


def check_as_image(prog, rep, DATA):
    fs = [f for f in prog.fns.values() if f.name == "as_image" and f.impl and prog.impls[f.impl]["self_ty"].get("adt") == FB]
    if len(fs) != 1:
        rep.fail("R10.4", "as_image", "as_image anchor lost (%d)" % len(fs), status="undecided")
        return
    f = fs[0]
    impl = prog.impls[f.impl]
    a = impl["self_ty"]["args"]
    out = f.d["output"]
    good = out.get("adt") == "embedded_graphics::image::image_raw::ImageRaw" and [ty_str(x) for x in out["args"] if x != "'_"] == [ty_str(a[0]), ty_str(a[2])]
    rep.check(good, "R10.4", "as_image:type", "as_image must return ImageRaw<'_, C, O> with the framebuffer's own colour type and data order; returns %s" % ty_str(out), at=f.span, fn=f.path)
    org = Origins(f)
    ret = org.return_origin()
    self_data = ("field", ("deref", ("param", 1, "self")), DATA)
    news = find(ret, ("call", "*ImageRaw::<'a, C, O>::new", "_", ("?data", "?size")))
    good = len(news) >= 1
    d = s = None
    if good:
        d, s = news[0][1]["?data"], news[0][1]["?size"]
        rng = find(d, ("agg", "*Range::Range", (C(0), "?end"))) or find(d, ("agg", "*RangeTo::RangeTo", ("?end",)))   # 0..n or ..n
        good = bool(rng) and any(n == self_data for n in walk(d)) and isinstance(rng[0][1]["?end"][1], str) and "BUFFER_SIZE" in rng[0][1]["?end"][1]
        sz = fold(s)
        if sz[0] == "const" and isinstance(sz[1], str) and "<" in sz[1]:
            # a named constant of the framebuffer (`Self::SIZE`): its initialiser is the value
            cpath = sz[1]
            if cpath.endswith(">"):
                depth = 0
                for k_ in range(len(cpath) - 1, -1, -1):
                    depth += cpath[k_] == ">"
                    depth -= cpath[k_] == "<"
                    if depth == 0:
                        cpath = cpath[:k_]
                        break
            cs = [g for g in prog.by_path.get(cpath, []) if g.body and g.kind in ("assoc_const", "const")]
            if len(cs) == 1:
                from mirq.pat import strip_refs as _sr
                sz = fold(_sr(Origins(cs[0]).return_origin()))
        good_sz = match(sz, ("call", "*Size::new", "_", (C("WIDTH"), C("HEIGHT")))) is not None
        rep.check(good_sz, "R10.4", "as_image:size", "as_image must use Size::new(WIDTH, HEIGHT); found %s" % show(sz), at=f.span, fn=f.path)
    rep.check(good, "R10.4", "as_image:data", "as_image must view self.data[0..BUFFER_SIZE]; found %s" % show(d if d else ret), at=f.span, fn=f.path)
    # pixel() = as_image().pixel(p)
    ps = [g for g in prog.fns.values() if g.name == "pixel" and g.impl and prog.impls[g.impl]["self_ty"].get("adt") == FB]
    if len(ps) == 1:
        ro = Origins(ps[0]).return_origin()
        m = match(ro, ("call", "*::pixel", "_", ("?img", ("param", 2, "p"))))
        good = m is not None and any(n[0] == "call" and n[1].endswith("::as_image") for n in walk(m["?img"]))
        rep.check(good, "R10.4", "pixel", "Framebuffer::pixel(p) must be self.as_image().pixel(p); found %s" % show(ro), at=ps[0].span, fn=ps[0].path)
    else:
        rep.fail("R10.4", "pixel", "Framebuffer::pixel anchor lost", status="undecided")
    # BUFFER_SIZE = buffer_size::<C>(WIDTH, HEIGHT) = (w*bpp+7)/8*h
    bs = [g for g in prog.fns.values() if g.name == "BUFFER_SIZE" and g.kind == "assoc_const" and "framebuffer" in g.id]
    if len(bs) == 1:
        ro = Origins(bs[0]).return_origin()
        good = match(ro, ("call", "*framebuffer::buffer_size", "_", (C("WIDTH"), C("HEIGHT")))) is not None
        rep.check(good, "R10.5", "BUFFER_SIZE", "BUFFER_SIZE must be buffer_size::<C>(WIDTH, HEIGHT); found %s" % show(ro), at=bs[0].span, fn=bs[0].path)
        from mirq.expand import Expander
        ex = Expander(prog)
        full = fold(ex.inline(ro, only=lambda p: "framebuffer::buffer_size" in p))
        W, H = C("WIDTH"), C("HEIGHT")
        bpp = "_"
        want = ("bin", "Mul", ("bin", "Div", ("bin", "Add", ("bin", "Mul", W, "?bpp"), C(7)), C(8)), H)
        m = match(full, want)
        good = m is not None and m["?bpp"][0] == "const" and "BITS_PER_PIXEL" in str(m["?bpp"][1])
        rep.check(good, "R10.5", "buffer_size-form", "buffer_size must be (WIDTH*bpp+7)/8*HEIGHT (padded rows); found %s" % show(full), at=bs[0].span, fn=bs[0].path)
    else:
        rep.fail("R10.5", "BUFFER_SIZE", "BUFFER_SIZE anchor lost", status="undecided")


def check_check_n(prog, rep):
    """N >= BUFFER_SIZE is enforced at compile time in every instantiation: `new` is the only
    constructor, mentions CHECK_N, and CHECK_N's initialiser panics unless N >= BUFFER_SIZE."""
    cn = [g for g in prog.fns.values() if g.name == "CHECK_N" and "framebuffer" in g.id]
    if len(cn) != 1:
        rep.fail("R10.5", "CHECK_N", "CHECK_N anchor lost", status="undecided")
        return
    g = cn[0]
    org = Origins(g)
    cfg = org.cfg
    # the only switch: Ge(N, BUFFER_SIZE); the false edge must not reach return
    sw = [(bi, g.body["blocks"][bi]["t"]) for bi in sorted(cfg.live_blocks()) if g.body["blocks"][bi]["t"] and g.body["blocks"][bi]["t"]["k"] == "switch"]
    good = len(sw) == 1
    why = "CHECK_N must be a single comparison N >= BUFFER_SIZE guarding a panic"
    if good:
        bi, t = sw[0]
        d = org.operand(t["d"], bi, len(g.body["blocks"][bi]["s"]))
        m = match(d, ("bin", {"Ge", "Le", "Lt", "Gt"}, "?a", "?b"))
        good = m is not None
        if good:
            op = d[1]
            a, b = d[2], d[3]
            isN = lambda x: x == C("N")
            isB = lambda x: x[0] == "const" and "BUFFER_SIZE" in str(x[1])
            # which literal means N >= BUFFER_SIZE ?
            if op == "Ge" and isN(a) and isB(b):
                ok_truth = True
            elif op == "Le" and isB(a) and isN(b):
                ok_truth = True
            elif op == "Lt" and isN(a) and isB(b):
                ok_truth = False
            elif op == "Gt" and isB(a) and isN(b):
                ok_truth = False
            else:
                good = False
                ok_truth = None
            if good:
                exits = set(cfg.exits())
                for v, tgt in t["targets"] + [["otherwise", t["otherwise"]]]:
                    lit = (v,) if v != "otherwise" else ("not",) + tuple(x for x, _ in t["targets"])
                    truth = lit_truth(lit)
                    reach_ret = bool(cfg.reachable_from(tgt) & exits)
                    if truth == ok_truth:
                        good = good and reach_ret
                    else:
                        if reach_ret:
                            good = False
                            why = "CHECK_N: the initialiser can complete although N < BUFFER_SIZE"
    rep.check(good, "R10.5", "CHECK_N", why, at=g.span, fn=g.path)
    # constructors: aggregates of Framebuffer
    ctors = set()
    uses_check = {}
    for f in prog.fns.values():
        if not f.body:
            continue
        for b in f.body["blocks"]:
            for s in b["s"]:
                if s["k"] == "assign" and s["rv"]["k"] == "agg" and s["rv"].get("adt") == FB:
                    im = prog.impls.get(f.impl) if f.impl else None
                    if im and im.get("trait") == "core::clone::Clone":
                        continue  # derived Clone copies an existing (already checked) value
                    ctors.add(f.id)
                    uses_check[f.id] = any("const" in o and "CHECK_N" in str(o["const"].get("uneval", "")) for o in s["rv"]["ops"])
    names = sorted(prog.fns[c].path for c in ctors)
    good = len(ctors) == 1 and all(uses_check.values())
    rep.check(good, "R10.5", "constructors", "Framebuffer must be constructible only by `new`, which evaluates CHECK_N; constructors found: %s" % names,
              detail=names)


def _fb_local(f, l):
    ty = f.body["locals"][l]["ty"] if l < len(f.body["locals"]) else None
    while isinstance(ty, dict) and "ref" in ty:
        ty = ty["ref"]
    return isinstance(ty, dict) and ty.get("adt") == FB


def _through_data(f, pl, DATA):
    """does the place go through the `data` field of a Framebuffer?  -> None / 'whole' / 'part'"""
    if not _fb_local(f, pl["l"]):
        return None
    p = [e for e in pl["p"] if e != "*"]
    if p and isinstance(p[0], dict) and p[0].get("f") == DATA:
        return "whole" if len(p) == 1 else "part"
    return None


def check_writers(prog, rep, DATA, sps):
    """R10.7 (who may write): the backing array is mutated only by the set_pixel impls (whose writes R10.3/R10.6 bound and
    place), by helpers introduced for them, and handed out by the public data_mut accessor; nothing else in the library
    assigns into, mutably borrows or obtains (via data_mut) the array — such a writer could modify bytes beyond the used
    prefix or bytes of other pixels without any of the rules above seeing it."""
    verified = {f.id for f in sps}
    found = {}
    for f in prog.fns.values():
        if not f.body or "::tests::" in f.id or "::mock_display::" in f.id:
            continue
        for blk in f.body["blocks"]:
            for s_ in blk["s"]:
                if s_["k"] != "assign":
                    continue
                k = _through_data(f, s_["place"], DATA)
                if k:
                    found.setdefault(f.id, []).append(("assigns into the array", s_.get("sp", ""), "part"))
                rv = s_["rv"]
                if rv["k"] in ("ref", "addr_of", "raw") and rv.get("mut") and "place" in rv:
                    k = _through_data(f, rv["place"], DATA)
                    if k:
                        found.setdefault(f.id, []).append(("borrows the %s mutably" % ("whole array" if k == "whole" else "array (part)"), s_.get("sp", ""), k))
            t = blk["t"]
            if t and t["k"] == "call":
                r = t["f"].get("resolved") or t["f"]
                if r.get("path", "").endswith("Framebuffer::<C, R, BO, WIDTH, HEIGHT, N>::data_mut") or (t["f"].get("name") == "data_mut" and "framebuffer" in r.get("path", "")):
                    found.setdefault(f.id, []).append(("obtains the array through data_mut()", t.get("sp", ""), "whole"))
    callers = {}
    for g in prog.fns.values():
        if not g.body or "::tests::" in g.id:
            continue
        for blk in g.body["blocks"]:
            t = blk["t"]
            if t and t["k"] == "call":
                r = t["f"].get("resolved") or t["f"]
                for h in prog.by_path.get(r.get("path", ""), []):
                    callers.setdefault(h.id, set()).add(g.root_fn().id)

    def ok(fid, depth=0):
        f = prog.fns[fid].root_fn()
        if f.id in verified:
            return True
        if f.name == "data_mut" and f.impl and prog.impls[f.impl]["self_ty"].get("adt") == FB and not prog.impls[f.impl].get("trait"):
            return True   # the public accessor: hands the array to the caller by contract
        if prog.is_new(f) and depth < 3:
            cs = callers.get(f.id, set())
            return bool(cs) and all(ok(c, depth + 1) for c in cs)
        return False

    rep.floor("R10.7", "functions that mutate Framebuffer::data", len(found), 11)
    for fid in sorted(found):
        f = prog.fns[fid]
        if ok(fid):
            rep.ok("R10.7", "writer:" + f.key().replace(FB, "Framebuffer")[-90:], at=f.span, fn=f.path)
            continue
        what, sp, k = found[fid][0]
        whole_to_call = any(k_ == "whole" for _, _, k_ in found[fid])
        rep.check(False, "R10.7", "writer:" + f.key().replace(FB, "Framebuffer")[-90:],
                  "%s %s outside set_pixel: bytes beyond the used prefix (or of other pixels) can change without the bounds and layout rules seeing it" % (f.path.split("::")[-1], what),
                  status="refuted" if whole_to_call else "undecided", at=sp or f.span, fn=f.path)
