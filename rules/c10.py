"""C10 — Framebuffer reads back what was written, in the layout of ImageRaw (structural part)."""
from mirq import ty_str
from mirq.cfg import CFG
from mirq.depend import Dependence
from mirq.origin import Origins, show, walk, dominating_guards, lit_truth, decisions, subst, mk_bin
from mirq.pat import match, strip_casts, find
from rules.c11 import RAW_BITS, LOADSTORE, order_param, short_raw, ALT, _eval_int

FB = "embedded_graphics::framebuffer::Framebuffer"
ORDERS = {"LittleEndianMsb0": "le", "BigEndianLsb0": "be"}


def fold(t):
    """Fold constant integer subtrees and strip integer casts."""
    def r(n):
        if n[0] == "cast":
            return n[1]
        if n[0] == "bin" and n[2][0] == "const" and n[3][0] == "const" and all(isinstance(x[1], int) and not isinstance(x[1], bool) for x in (n[2], n[3])):
            a, b = n[2][1], n[3][1]
            try:
                v = {"Add": a + b, "Sub": a - b, "Mul": a * b, "Div": a // b if b else None, "Rem": a % b if b else None}.get(n[1])
            except Exception:
                v = None
            if v is not None:
                return ("const", v)
        return None
    return subst(t, r)


def C(v):
    return ("const", v)


def expected_index(bits, X, Y):
    W = C("WIDTH")
    if bits < 8:
        stride = mk_bin("Div", mk_bin("Add", mk_bin("Mul", W, C(bits)), C(7)), C(8))
        return mk_bin("Add", mk_bin("Mul", stride, Y), mk_bin("Div", X, C(8 // bits)))
    if bits == 8:
        return mk_bin("Add", mk_bin("Mul", Y, W), X)
    return mk_bin("Mul", mk_bin("Add", mk_bin("Mul", Y, W), X), C(bits // 8))


def coord_facts(guards, px, py):
    """From dominating guards derive which of the four bounds 0<=x, x<WIDTH, 0<=y, y<HEIGHT hold.
    Recognised idioms: usize::try_from(e) is Ok (lower bound) + payload < LIMIT; e >= 0 / !(e < 0);
    e < LIMIT as i32 (upper only); (e as u32|usize) < LIMIT (both)."""
    facts = set()
    for d, lit in guards:
        for axis, e, lim in (("x", px, "WIDTH"), ("y", py, "HEIGHT")):
            tf = ("call", "*::try_from", "_", (e,))
            if match(d, ("discr", tf)) is not None and lit == (0,):
                facts.add(axis + ">=0")
            truth = lit_truth(lit)
            if truth is None:
                continue
            payload = ("field", ("variant", tf, "Ok"), 0)
            for op, t_needed in (("Lt", True), ("Ge", False)):
                if match(d, ("bin", op, payload, C(lim))) is not None and truth == t_needed:
                    facts.add(axis + "<" + lim)
                    facts.add(axis + ">=0")  # payload exists only when try_from was Ok
                if match(d, ("bin", op, e, ("cast", C(lim), "_"))) is not None and truth == t_needed:
                    facts.add(axis + "<" + lim)
                if match(d, ("bin", op, ("cast", e, {"u32", "usize", "u64"}), {C(lim), ("cast", C(lim), "_")})) is not None and truth == t_needed:
                    facts.add(axis + "<" + lim)
                    facts.add(axis + ">=0")
            if match(d, ("bin", "Ge", e, C(0))) is not None and truth is True:
                facts.add(axis + ">=0")
            if match(d, ("bin", "Lt", e, C(0))) is not None and truth is False:
                facts.add(axis + ">=0")
    return facts


def data_writes(f, org, data_idx):
    """[(block, kind, index_tree)] for every write into self.data in f."""
    out = []
    self_data = ("field", ("deref", ("param", 1, "self")), data_idx)
    blocks = f.body["blocks"]
    for bi in sorted(org.cfg.live_blocks()):
        blk = blocks[bi]
        for si, s in enumerate(blk["s"]):
            if s["k"] != "assign":
                continue
            pl = s["place"]
            if pl["l"] == 1 and "*" in pl["p"] and any(isinstance(e, dict) and e.get("f") == data_idx for e in pl["p"]):
                idx = [e for e in pl["p"] if isinstance(e, dict) and "idx" in e]
                itree = org._local(idx[0]["idx"], (), bi, si) if idx else None
                out.append((bi, "assign", itree, blk["s"][si].get("sp", "")))
            elif "*" in pl["p"] and pl["l"] != 1:
                base = org._local(pl["l"], (), bi, si)
                if any(n == self_data for n in walk(base)):
                    out.append((bi, "assign-through", base, s.get("sp", "")))
        t = blk["t"]
        if t and t["k"] == "call":
            args = org.term_args(bi)
            for a in args:
                if any(n == ("ref", self_data) or n == self_data for n in walk(a)):
                    tyl = None
                    ol = t["args"][args.index(a)]
                    l = (ol.get("move") or ol.get("copy") or {}).get("l")
                    ty = f.body["locals"][l]["ty"] if l is not None else None
                    if isinstance(ty, dict) and ty.get("mut"):
                        out.append((bi, "call:" + t["f"].get("name", "?"), a, t.get("sp", "")))
                    break
    return out


def run(ctx, rep):
    prog = ctx.program("default")
    rep.configs.append(getattr(ctx, "alias", "default"))
    dep = Dependence(prog)
    adt = prog.adts[FB]
    gen = [g["name"] for g in adt["generics"]]
    fidx = {f["name"]: i for i, f in enumerate(adt["variants"][0]["fields"])}
    DATA = fidx["data"]
    load_dep = {}
    for impl in prog.impls.values():
        if impl.get("trait") == LOADSTORE:
            load_dep[short_raw(impl)] = dep.fn_uses(prog.fns[impl["fns"]["load"]], order_param(impl))

    sps = [f for f in prog.fns.values() if f.name == "set_pixel" and f.impl and prog.impls[f.impl]["self_ty"].get("adt") == FB]
    rep.floor("R10", "set_pixel impls", len(sps), 10)
    seen_raw = {}
    for f in sorted(sps, key=lambda f: f.path):
        impl = prog.impls[f.impl]
        a = impl["self_ty"]["args"]
        raw = ty_str(a[1]).split("::")[-1]
        bits = RAW_BITS.get(raw)
        order = a[2]
        oname = ty_str(order).split("::")[-1]
        key = "%s/%s" % (raw, oname if "adt" in order else "any-order")
        if bits is None:
            rep.fail("R10.1", key, "set_pixel impl for an unknown raw type", status="undecided", at=f.span, fn=f.path)
            continue
        seen_raw.setdefault(raw, []).append(oname)
        specialised = isinstance(order, dict) and "adt" in order
        wdep = specialised or dep.fn_uses(f, order.get("param"))
        rdep = load_dep.get(raw)
        rep.check(wdep == rdep, "R10.1", key,
                  "the reader (pixel()/as_image() -> %s::load::<O>) %s the data order but this set_pixel %s: one of the two data orders reads back wrong pixels"
                  % (raw, "depends on" if rdep else "ignores", "depends on it" if wdep else "is parametric in it"),
                  at=f.span, fn=f.path, detail={"writer_uses": sorted(dep.uses[f.id]), "specialised_on_order": specialised})
        rep.sample({"rule": "R10.1", "impl": key, "reader_depends_on_order": rdep, "writer_depends_on_order": wdep})
        org = Origins(f)
        # R10.2 endianness pairing
        if bits > 8:
            ends = set()
            for bi in org.cfg.live_blocks():
                t = f.body["blocks"][bi]["t"]
                if t and t["k"] == "call" and t["f"].get("name") in ("to_le_bytes", "to_be_bytes", "to_ne_bytes", "swap_bytes"):
                    ends.add(t["f"]["name"])
            if specialised:
                want = {"to_%s_bytes" % ORDERS.get(oname, "?")}
                rep.check(ends == want, "R10.2", key, "set_pixel for %s must serialise with %s (load decodes %s); found %s" % (oname, sorted(want), ORDERS.get(oname), sorted(ends)), at=f.span, fn=f.path)
            else:
                rep.fail("R10.2", key, "multi-byte set_pixel generic in the order: endianness selection not recognised", status="undecided", at=f.span, fn=f.path)
        # R10.3 guards + R10.6 layout for each data write
        ws = data_writes(f, org, DATA)
        rep.check(len(ws) >= 1, "R10.3", key + ":has-write", "no write into self.data found in set_pixel", status="undecided", at=f.span, fn=f.path)
        px = ("field", ("param", 2, "p"), 0)
        py = ("field", ("param", 2, "p"), 1)
        for wi, (bi, kind, itree, sp) in enumerate(ws):
            guards = dominating_guards(f, org, bi)
            facts = coord_facts(guards, px, py)
            missing = [x for x in ("x>=0", "x<WIDTH", "y>=0", "y<HEIGHT") if x not in facts]
            rep.check(not missing, "R10.3", "%s:write%d" % (key, wi),
                      "write into self.data is not guarded by %s (a point outside WIDTH x HEIGHT could modify a byte)" % ", ".join(missing),
                      at=sp, fn=f.path, detail={"guards": [(show(d), l) for d, l in guards][:8]})
            # index form
            if kind == "assign":
                idx = itree
            elif kind.startswith("call:index_mut") or kind.startswith("call:copy_from_slice") or kind.startswith("call:get_mut"):
                # range start of the slice taken from self.data
                rs = find(org.term_args(bi)[1] if kind.startswith("call:index_mut") and len(org.term_args(bi)) > 1 else itree, ("agg", "*Range::Range", ("?s", "?e")))
                idx = rs[0][1]["?s"] if rs else None
                if rs:
                    s_, e_ = fold(rs[0][1]["?s"]), fold(rs[0][1]["?e"])
                    rep.check(e_ == fold(mk_bin("Add", rs[0][1]["?s"], C(bits // 8))), "R10.6", "%s:write%d:len" % (key, wi),
                              "the written slice must be exactly %d bytes long" % (bits // 8), at=sp, fn=f.path, detail=show(e_))
            else:
                idx = None
            if idx is None:
                rep.fail("R10.6", "%s:write%d:index" % (key, wi), "cannot derive the byte index of the write (%s)" % kind, status="undecided", at=sp, fn=f.path)
                continue
            tf = lambda e: ("field", ("variant", ("call", "*::try_from", "_", (e,)), "Ok"), 0)
            got = fold(idx)
            # x / y may be the try_from payload or `p.x as usize` (cast stripped by fold)
            def norm(n):
                for e, name in ((px, "X"), (py, "Y")):
                    if n == e:
                        return ("const", name)
                    if match(n, tf(e)) is not None or match(n, tf(("const", name))) is not None:
                        return ("const", name)
                return None
            got = fold(subst(got, norm))
            want = fold(expected_index(bits, C("X"), C("Y")))
            rep.check(got == want, "R10.6", "%s:write%d:index" % (key, wi),
                      "byte index %s differs from the layout ImageRaw reads (%s): rows are WIDTH pixels padded to whole bytes" % (show(got), show(want)),
                      at=sp, fn=f.path, detail={"got": show(got), "want": show(want)}, status="undecided" if got[0] != "bin" else "refuted")
        # sub-byte bit index table (documented order) -- only meaningful once the writer follows the order
        if bits < 8:
            check_subbyte_bits(f, org, rep, key, bits, order, specialised)

    for raw, n in RAW_BITS.items():
        os_ = seen_raw.get(raw, [])
        full = (len(os_) == 1 and os_[0] not in ORDERS) or set(os_) == set(ORDERS)
        rep.check(full, "R10.1", raw + ":coverage", "set_pixel for %s must exist for both data orders (found %s)" % (raw, os_), status="undecided")

    check_as_image(prog, rep, DATA)
    check_check_n(prog, rep)
    # W10: the compile-time size guard really stops the build (compile_fail witnesses with building twins)
    import witness
    witness.check(rep, "W10", ["W10TooSmall", "W10Exact", "W10Oversized", "W10SubByteTooSmall", "W10SubByteExact"])


def check_subbyte_bits(f, org, rep, key, bits, order, specialised):
    """The shift applied to the colour bits, per branch of IS_ALTERNATE_ORDER, must be the documented
    position: (ppb-1 - x%ppb)*bpp for LittleEndianMsb0, (x%ppb)*bpp for BigEndianLsb0."""
    ppb = 8 // bits
    # find `Shl(value, shift)` feeding the stored byte: look at every Shl in the body
    shifts = {}
    blocks = f.body["blocks"]
    for bi in sorted(org.cfg.live_blocks()):
        for si, s in enumerate(blocks[bi]["s"]):
            if s["k"] == "assign" and s["rv"]["k"] == "bin" and s["rv"]["op"] in ("Shl", "ShlUnchecked"):
                sh = org.operand(s["rv"]["b"], bi, si)
                br = "uncond"
                for d, lit in dominating_guards(f, org, bi):
                    if d[0] == "const" and isinstance(d[1], str) and d[1].startswith(ALT):
                        br = lit_truth(lit)
                shifts.setdefault(br, set()).add(fold(sh))
    px = ("field", ("param", 2, "p"), 0)
    tfx = ("field", ("variant", ("call", "*::try_from", "_", (px,)), "Ok"), 0)

    def ev(tree, x):
        def r(n):
            if n == px or match(n, tfx) is not None or match(n, ("field", ("variant", ("call", "*::try_from", "_", (("const", x),)), "Ok"), 0)) is not None:
                return ("const", x)
            if n[0] == "phi":
                return None
            return None
        t2 = fold(subst(tree, r))
        return _eval_int(t2, {}) if t2[0] != "phi" else None
    ok = True
    why = ""
    for br, trees in shifts.items():
        for tree in trees:
            if tree[0] == "phi":
                # a phi of per-order alternatives computed before the shift: resolved by the caller's fix shape
                alts = tree[1]
            else:
                alts = (tree,)
            for x in range(2 * ppb):
                vals = set()
                try:
                    for a in alts:
                        vals.add(ev(a, x))
                except Exception as e:
                    ok = False
                    why = "cannot evaluate shift %s" % show(tree)
                    break
                msb = (ppb - 1 - x % ppb) * bits
                lsb = (x % ppb) * bits
                if br == "uncond" and len(alts) == 1:
                    want = {msb} if True else None
                    # unconditional shift: only correct if both orders agree (they do not for ppb>1)
                    if vals != {msb} and vals != {lsb}:
                        ok, why = False, "shift %s for x=%d is neither documented position" % (sorted(vals), x)
                elif br is True:
                    if vals != {lsb}:
                        ok, why = False, "under IS_ALTERNATE_ORDER pixel x=%d must sit at bit %d, found %s" % (x, lsb, sorted(vals))
                elif br is False:
                    if vals != {msb}:
                        ok, why = False, "for LittleEndianMsb0 pixel x=%d must sit at bit %d, found %s" % (x, msb, sorted(vals))
                else:
                    if vals != {msb, lsb}:
                        ok, why = False, "shift alternatives %s for x=%d are not the two documented positions" % (sorted(vals), x)
    rep.check(ok and bool(shifts), "R10.2", key + ":bit-position", why or "no shift of the colour bits found", at=f.span, fn=f.path,
              detail={str(k): [show(t) for t in v] for k, v in shifts.items()}, status="undecided" if not shifts else "refuted")


def check_as_image(prog, rep, DATA):
    fs = [f for f in prog.fns.values() if f.name == "as_image" and f.impl and prog.impls[f.impl]["self_ty"].get("adt") == FB]
    if len(fs) != 1:
        rep.fail("R10.4", "as_image", "as_image anchor lost (%d)" % len(fs), status="undecided")
        return
    f = fs[0]
    impl = prog.impls[f.impl]
    a = impl["self_ty"]["args"]
    out = f.d["output"]
    good = out.get("adt") == "embedded_graphics::image::image_raw::ImageRaw" and [ty_str(x) for x in out["args"] if x != "'_"] == [ty_str(a[0]), ty_str(a[2])]
    rep.check(good, "R10.4", "as_image:type", "as_image must return ImageRaw<'_, C, O> with the framebuffer's own colour type and data order; returns %s" % ty_str(out), at=f.span, fn=f.path)
    org = Origins(f)
    ret = org.return_origin()
    self_data = ("field", ("deref", ("param", 1, "self")), DATA)
    news = find(ret, ("call", "*ImageRaw::<'a, C, O>::new", "_", ("?data", "?size")))
    good = len(news) >= 1
    d = s = None
    if good:
        d, s = news[0][1]["?data"], news[0][1]["?size"]
        rng = find(d, ("agg", "*Range::Range", (C(0), "?end")))
        good = bool(rng) and any(n == self_data for n in walk(d)) and isinstance(rng[0][1]["?end"][1], str) and "BUFFER_SIZE" in rng[0][1]["?end"][1]
        sz = fold(s)
        good_sz = match(sz, ("call", "*Size::new", "_", (C("WIDTH"), C("HEIGHT")))) is not None
        rep.check(good_sz, "R10.4", "as_image:size", "as_image must use Size::new(WIDTH, HEIGHT); found %s" % show(sz), at=f.span, fn=f.path)
    rep.check(good, "R10.4", "as_image:data", "as_image must view self.data[0..BUFFER_SIZE]; found %s" % show(d if d else ret), at=f.span, fn=f.path)
    # pixel() = as_image().pixel(p)
    ps = [g for g in prog.fns.values() if g.name == "pixel" and g.impl and prog.impls[g.impl]["self_ty"].get("adt") == FB]
    if len(ps) == 1:
        ro = Origins(ps[0]).return_origin()
        m = match(ro, ("call", "*::pixel", "_", ("?img", ("param", 2, "p"))))
        good = m is not None and any(n[0] == "call" and n[1].endswith("::as_image") for n in walk(m["?img"]))
        rep.check(good, "R10.4", "pixel", "Framebuffer::pixel(p) must be self.as_image().pixel(p); found %s" % show(ro), at=ps[0].span, fn=ps[0].path)
    else:
        rep.fail("R10.4", "pixel", "Framebuffer::pixel anchor lost", status="undecided")
    # BUFFER_SIZE = buffer_size::<C>(WIDTH, HEIGHT) = (w*bpp+7)/8*h
    bs = [g for g in prog.fns.values() if g.name == "BUFFER_SIZE" and g.kind == "assoc_const" and "framebuffer" in g.id]
    if len(bs) == 1:
        ro = Origins(bs[0]).return_origin()
        good = match(ro, ("call", "*framebuffer::buffer_size", "_", (C("WIDTH"), C("HEIGHT")))) is not None
        rep.check(good, "R10.5", "BUFFER_SIZE", "BUFFER_SIZE must be buffer_size::<C>(WIDTH, HEIGHT); found %s" % show(ro), at=bs[0].span, fn=bs[0].path)
        from mirq.expand import Expander
        ex = Expander(prog)
        full = fold(ex.inline(ro, only=lambda p: "framebuffer::buffer_size" in p))
        W, H = C("WIDTH"), C("HEIGHT")
        bpp = "_"
        want = ("bin", "Mul", ("bin", "Div", ("bin", "Add", ("bin", "Mul", W, "?bpp"), C(7)), C(8)), H)
        m = match(full, want)
        good = m is not None and m["?bpp"][0] == "const" and "BITS_PER_PIXEL" in str(m["?bpp"][1])
        rep.check(good, "R10.5", "buffer_size-form", "buffer_size must be (WIDTH*bpp+7)/8*HEIGHT (padded rows); found %s" % show(full), at=bs[0].span, fn=bs[0].path)
    else:
        rep.fail("R10.5", "BUFFER_SIZE", "BUFFER_SIZE anchor lost", status="undecided")


def check_check_n(prog, rep):
    """N >= BUFFER_SIZE is enforced at compile time in every instantiation: `new` is the only
    constructor, mentions CHECK_N, and CHECK_N's initialiser panics unless N >= BUFFER_SIZE."""
    cn = [g for g in prog.fns.values() if g.name == "CHECK_N" and "framebuffer" in g.id]
    if len(cn) != 1:
        rep.fail("R10.5", "CHECK_N", "CHECK_N anchor lost", status="undecided")
        return
    g = cn[0]
    org = Origins(g)
    cfg = org.cfg
    # the only switch: Ge(N, BUFFER_SIZE); the false edge must not reach return
    sw = [(bi, g.body["blocks"][bi]["t"]) for bi in sorted(cfg.live_blocks()) if g.body["blocks"][bi]["t"] and g.body["blocks"][bi]["t"]["k"] == "switch"]
    good = len(sw) == 1
    why = "CHECK_N must be a single comparison N >= BUFFER_SIZE guarding a panic"
    if good:
        bi, t = sw[0]
        d = org.operand(t["d"], bi, len(g.body["blocks"][bi]["s"]))
        m = match(d, ("bin", {"Ge", "Le", "Lt", "Gt"}, "?a", "?b"))
        good = m is not None
        if good:
            op = d[1]
            a, b = d[2], d[3]
            isN = lambda x: x == C("N")
            isB = lambda x: x[0] == "const" and "BUFFER_SIZE" in str(x[1])
            # which literal means N >= BUFFER_SIZE ?
            if op == "Ge" and isN(a) and isB(b):
                ok_truth = True
            elif op == "Le" and isB(a) and isN(b):
                ok_truth = True
            elif op == "Lt" and isN(a) and isB(b):
                ok_truth = False
            elif op == "Gt" and isB(a) and isN(b):
                ok_truth = False
            else:
                good = False
                ok_truth = None
            if good:
                exits = set(cfg.exits())
                for v, tgt in t["targets"] + [["otherwise", t["otherwise"]]]:
                    lit = (v,) if v != "otherwise" else ("not",) + tuple(x for x, _ in t["targets"])
                    truth = lit_truth(lit)
                    reach_ret = bool(cfg.reachable_from(tgt) & exits)
                    if truth == ok_truth:
                        good = good and reach_ret
                    else:
                        if reach_ret:
                            good = False
                            why = "CHECK_N: the initialiser can complete although N < BUFFER_SIZE"
    rep.check(good, "R10.5", "CHECK_N", why, at=g.span, fn=g.path)
    # constructors: aggregates of Framebuffer
    ctors = set()
    uses_check = {}
    for f in prog.fns.values():
        if not f.body:
            continue
        for b in f.body["blocks"]:
            for s in b["s"]:
                if s["k"] == "assign" and s["rv"]["k"] == "agg" and s["rv"].get("adt") == FB:
                    im = prog.impls.get(f.impl) if f.impl else None
                    if im and im.get("trait") == "core::clone::Clone":
                        continue  # derived Clone copies an existing (already checked) value
                    ctors.add(f.id)
                    uses_check[f.id] = any("const" in o and "CHECK_N" in str(o["const"].get("uneval", "")) for o in s["rv"]["ops"])
    names = sorted(prog.fns[c].path for c in ctors)
    good = len(ctors) == 1 and all(uses_check.values())
    rep.check(good, "R10.5", "constructors", "Framebuffer must be constructible only by `new`, which evaluates CHECK_N; constructors found: %s" % names,
              detail=names)
