"""C19 — triangles cover their interior and polylines are the union of their segments (structural part)."""
from mirq.cfg import CFG
from mirq.origin import Origins, show, walk, enum_paths, path_conditions, lit_truth
from mirq.pat import match, find, strip_refs
from rules.c14 import field_index
from rules.c10 import fold
from rules.c03 import sites

TRI = "embedded_graphics::primitives::triangle::Triangle"
P = lambda i, n: ("param", i, n)


def vertex_index(prog, t):
    """t == sorted_yx(self).vertices[k] -> k ; self.vertices[k] -> ('raw', k); else None"""
    vi = field_index(prog, TRI, "vertices")
    m = match(t, ("index", ("field", ("call", "*Triangle::sorted_yx", "_", (P(1, "self"),)), vi), ("const", "?k")))
    if m is not None:
        return m["?k"]
    m = match(t, ("index", ("field", P(1, "self"), vi), ("const", "?k")))
    if m is not None:
        return ("raw", m["?k"])
    return None


def run(ctx, rep):
    prog = ctx.program("default")
    rep.configs.append(getattr(ctx, "alias", "default"))
    triangle_edges(prog, rep)
    polyline_points(prog, rep)


def triangle_edges(prog, rep):
    si = prog.method1(TRI, "scanline_intersection", None)
    cfg = CFG(si.body)
    sets = {}
    for path in enum_paths(cfg, 0, None, 128):
        po = Origins(si, path=path)
        pairs = []
        unknown = False
        for k, b in enumerate(path):
            t = si.body["blocks"][b]["t"]
            if t and t["k"] == "call" and t["f"].get("name") == "bresenham_intersection":
                a = strip_refs(po.term_args(k)[1])
                m = match(a, ("call", "*Line::new", "_", ("?a", "?b")))
                if m is None:
                    unknown = True
                    continue
                ia, ib = vertex_index(prog, m["?a"]), vertex_index(prog, m["?b"])
                pairs.append((ia, ib))
                if not isinstance(ia, int) or not isinstance(ib, int):
                    unknown = True
        colinear = None
        for d, lit in path_conditions(si, path, po):
            d = fold(strip_refs(d))
            if match(d, ("bin", "Eq", ("call", "*Triangle::area_doubled", "_", (P(1, "self"),)), ("const", 0))) is not None:
                colinear = lit_truth(lit)
            if match(d, ("bin", "Ne", ("call", "*Triangle::area_doubled", "_", (P(1, "self"),)), ("const", 0))) is not None:
                colinear = not lit_truth(lit)
        sets.setdefault(colinear, set()).add((tuple(sorted(pairs, key=str)), unknown))
    want_full = ((0, 1), (0, 2), (1, 2))
    ok = sets.get(False) == {(want_full, False)} and sets.get(True) == {(((0, 2),), False)} and set(sets) == {True, False}
    rep.check(ok, "R19.1", "scanline_intersection",
              "every row of a non-degenerate triangle must be intersected with all three edges built from the (y, x)-sorted vertices as (p1,p2), (p1,p3), (p2,p3) — Bresenham is not symmetric under reversal, and an edge skipped on some rows loses its pixels there; found per colinear-case %s"
              % {str(k): sorted(v, key=str) for k, v in sets.items()}, at=si.span, fn=si.path, detail={str(k): sorted(v, key=str) for k, v in sets.items()})
    rep.sample({"rule": "R19.1", "edges_per_path": {str(k): sorted(v, key=str) for k, v in sets.items()}})

    co = prog.method1(TRI, "contains", "embedded_graphics::primitives::ContainsPoint")
    ro = strip_refs(Origins(co).return_origin())
    lines = []
    for n, m in find(ro, ("call", "*Line::new", "_", ("?a", "?b"))):
        lines.append((vertex_index(prog, m["?a"]), vertex_index(prog, m["?b"])))
    ok = sorted(set(lines), key=str) == [(0, 1), (0, 2), (1, 2)]
    rep.check(ok, "R19.1", "contains:edges", "the border check of Triangle::contains must walk the same canonical edges (p1,p2), (p1,p3), (p2,p3) of the (y, x)-sorted vertices as the rasteriser; walks %s" % sorted(set(lines), key=str),
              at=co.span, fn=co.path, detail=sorted(set(lines), key=str))
    # sorted_yx really sorts: three compare-exchange steps through sort_two_yx covering all three positions
    sy = prog.method1(TRI, "sorted_yx", None)
    s = sites(sy, "sort_two_yx")
    rep.check(len(s) == 3, "R19.1", "sorted_yx:network", "sorted_yx must be a three-step compare-exchange network over the vertices (found %d steps)" % len(s), at=sy.span, fn=sy.path)
    st = prog.fn_by_path("embedded_graphics::primitives::triangle::sort_two_yx")
    from mirq.origin import decisions
    forms = set()
    for lits, ret, _ in decisions(st):
        r = strip_refs(ret)
        m = match(r, ("agg", "tuple", ("?x", "?y")))
        if m is not None and {m["?x"], m["?y"]} == {P(1, "p1"), P(2, "p2")}:
            forms.add((m["?x"][2], m["?y"][2]))
    rep.check(forms == {("p1", "p2"), ("p2", "p1")}, "R19.1", "sort_two_yx", "sort_two_yx must return its two arguments in one of the two orders; returns %s" % sorted(forms), at=st.span, fn=st.path)


def polyline_points(prog, rep):
    PT = "embedded_graphics::primitives::polyline::points::Points"
    nx = prog.method1(PT, "next", "core::iter::traits::iterator::Iterator")
    fidx = {f["name"]: i for i, f in enumerate(prog.adts[PT]["variants"][0]["fields"])}
    cfg = CFG(nx.body)
    selff = lambda n: ("field", ("deref", P(1, "self")), fidx[n])
    probs = []
    n_load = 0
    for path in enum_paths(cfg, 0, None, 128):
        po = Origins(nx, path=path)
        loads = [k for k, b in enumerate(path) if nx.body["blocks"][b]["t"] and nx.body["blocks"][b]["t"]["k"] == "call" and nx.body["blocks"][b]["t"]["f"].get("path", "").endswith("Line::new")]
        ret = po.return_origin()
        if not loads:
            continue
        n_load += 1
        k = loads[0]
        a = [strip_refs(x) for x in po.term_args(k)]
        tr = strip_refs(selff("translate"))
        ok_seg = all(match(x, ("call", "*Add>::add", "_", ("?v", tr))) is not None for x in a)
        if ok_seg:
            v0 = match(a[0], ("call", "*Add>::add", "_", ("?v", tr)))["?v"]
            v1 = match(a[1], ("call", "*Add>::add", "_", ("?v", tr)))["?v"]
            ok_seg = any(n[0] == "call" and n[1].endswith("split_first") for n in walk(v0)) and any(n[0] == "call" and n[1].endswith("::first") for n in walk(v1))
        if not ok_seg:
            probs.append("the next segment must be Line::new(start + translate, end + translate) of the next two vertices; found %s" % [show(x, maxd=4) for x in a])
        # result after loading a segment: re-enter the polyline iterator (falls through zero-length segments)
        r = ret
        while r[0] in ("ref", "deref"):
            r = r[1]
        m = match(r, ("call", "?p", "?g", ("?recv", "?n")))
        good = False
        if m is not None and isinstance(m["?p"], str) and m["?p"].endswith("Iterator::nth") or (m is not None and "Iterator>::nth" in str(m["?p"])):
            recv = m["?recv"]
            while recv[0] in ("ref", "deref", "mut", "update"):
                recv = recv[1]
            good = recv == P(1, "self") and m["?n"] == ("const", 1) and "polyline::points::Points" in (str(m["?p"]) + str(m["?g"]))
        if not good:
            # accepted alternative: loop (back edge) — not the case on an acyclic path; anything else is undecided/refuted
            inner = any(n[0] == "call" and "line::points::Points" in n[1] and n[1].endswith(("::nth", "::next")) for n in walk(r))
            probs.append("after loading the next segment the item must come from the polyline iterator itself with the shared joint skipped (self.nth(1)), so that zero-length segments fall through; found %s%s"
                         % (show(r, maxd=4), " — pulled from the inner segment iterator: iteration ends at a repeated vertex" if inner else ""))
    rep.check(not probs and n_load >= 1, "R19.2", "polyline::Points::next", "; ".join(probs[:2]), at=nx.span, fn=nx.path)
    # self.vertices = rest on the loading path
    org = Origins(nx)
    w = []
    for bi in sorted(org.cfg.live_blocks()):
        for si, s in enumerate(nx.body["blocks"][bi]["s"]):
            if s["k"] == "assign" and s["place"]["l"] == 1 and any(isinstance(e, dict) and e.get("f") == fidx["vertices"] for e in s["place"]["p"]):
                w.append(strip_refs(org._rvalue(s["rv"], bi, si)))
    ok = len(w) == 1 and any(n[0] == "call" and n[1].endswith("split_first") for n in walk(w[0]))
    rep.check(ok, "R19.2", "polyline::Points::advance", "each loaded segment must drop exactly the first remaining vertex (self.vertices = rest of split_first)", at=nx.span, fn=nx.path)
