"""C19 — triangles cover their interior and polylines are the union of their segments (structural part)."""
from mirq.cfg import CFG
from mirq.origin import Origins, show, walk, enum_paths, path_conditions, lit_truth
from mirq.pat import match, find, strip_refs
from rules.c14 import field_index
from rules.c10 import fold
from rules.c03 import sites
from mirq.paths import Paths, Unsupported

TRI = "embedded_graphics::primitives::triangle::Triangle"
P = lambda i, n: ("param", i, n)


def vertex_index(prog, t):
    """t == sorted_yx(self).vertices[k] -> k ; self.vertices[k] -> ('raw', k); else None"""
    vi = field_index(prog, TRI, "vertices")
    m = match(t, ("index", ("field", ("call", "*Triangle::sorted_yx", "_", (P(1, "self"),)), vi), ("const", "?k")))
    if m is not None:
        return m["?k"]
    m = match(t, ("index", ("field", P(1, "self"), vi), ("const", "?k")))
    if m is not None:
        return ("raw", m["?k"])
    return None


def run(ctx, rep):
    prog = ctx.program("default")
    rep.configs.append(getattr(ctx, "alias", "default"))
    triangle_edges(prog, rep)
    try:
        edge_rasteriser(prog, rep)
    except Exception as e:
        import traceback; traceback.print_exc()
        rep.fail("R19.9", "engine", "edge rasteriser analysis crashed: %r" % (e,), status="undecided")
    try:
        drain_slots(prog, rep)
    except Exception as e:
        import traceback; traceback.print_exc()
        rep.fail("R19.10", "engine", "slot analysis crashed: %r" % (e,), status="undecided")
    try:
        from rules import c01 as _c01
        _c01.target_independent(prog, rep, "R01.7")      # a triangle / polyline renderer that stops at "the last visible row"
    except Exception as e:
        import traceback; traceback.print_exc()
        rep.fail("R01.7", "engine", "target independence analysis crashed: %r" % (e,), status="undecided")
    winding_symmetry(prog, rep)
    polyline_points(prog, rep)
    outline_runs(prog, rep)
    try:
        winding_normalised(prog, rep)
    except Exception as e:
        import traceback; traceback.print_exc()
        rep.fail("R19.6", "engine", "winding analysis crashed: %r" % (e,), status="undecided")
    try:
        thin_polyline_pixels(prog, rep)
    except Exception as e:
        import traceback; traceback.print_exc()
        rep.fail("R19.7", "engine", "thin polyline analysis crashed: %r" % (e,), status="undecided")
    try:
        skeleton_edge(prog, rep)
    except Exception as e:
        import traceback; traceback.print_exc()
        rep.fail("R19.8", "engine", "skeleton analysis crashed: %r" % (e,), status="undecided")
    try:
        vertex_sort(prog, rep)
    except Exception as e:
        import traceback; traceback.print_exc()
        rep.fail("R19.5", "engine", "order-type analysis crashed: %r" % (e,), status="undecided")


def triangle_edges(prog, rep):
    si = prog.method1(TRI, "scanline_intersection", None)
    # path summaries (helpers introduced by an edit inlined, calls on the local scanline recorded): which edges are
    # intersected with the row on the colinear / non-colinear paths
    sets = {}
    area = ("call", "*Triangle::area_doubled", "_", (P(1, "self"),))
    try:
        summs = Paths(prog, inline=lambda g: prog.is_new(g), local_effects=True).of(si)
    except Unsupported as e:
        summs = []
    for sm in summs:
        pairs, unknown = [], False
        for e in sm.effects:
            if e[0] == "call" and e[1][1].split("::")[-1] == "bresenham_intersection" and len(e[1][3]) == 2:
                m = match(strip_refs(e[1][3][1]), ("call", "*Line::new", "_", ("?a", "?b")))
                if m is None:
                    unknown = True
                    continue
                ia, ib = vertex_index(prog, m["?a"]), vertex_index(prog, m["?b"])
                pairs.append((ia, ib))
                if not isinstance(ia, int) or not isinstance(ib, int):
                    unknown = True
        colinear = None
        for fct in sm.facts:
            if fct[0] in ("eq", "ne") and ((match(fct[1], area) is not None and fct[2] == ("const", 0)) or (match(fct[2], area) is not None and fct[1] == ("const", 0))):
                colinear = fct[0] == "eq"
        sets.setdefault(colinear, set()).add((tuple(sorted(pairs, key=str)), unknown))
    want_full = ((0, 1), (0, 2), (1, 2))
    ok = sets.get(False) == {(want_full, False)} and sets.get(True) == {(((0, 2),), False)} and set(sets) == {True, False}
    rep.check(ok, "R19.1", "scanline_intersection",
              "every row of a non-degenerate triangle must be intersected with all three edges built from the (y, x)-sorted vertices as (p1,p2), (p1,p3), (p2,p3) — Bresenham is not symmetric under reversal, and an edge skipped on some rows loses its pixels there; found per colinear-case %s"
              % {str(k): sorted(v, key=str) for k, v in sets.items()}, at=si.span, fn=si.path, detail={str(k): sorted(v, key=str) for k, v in sets.items()})
    rep.sample({"rule": "R19.1", "edges_per_path": {str(k): sorted(v, key=str) for k, v in sets.items()}})

    co = prog.method1(TRI, "contains", "embedded_graphics::primitives::ContainsPoint")
    # every Line built by contains() and by helpers introduced by an edit (arguments expressed over contains' parameters)
    from mirq.canon import Canon
    lines = []
    for st in Canon(prog).sites(co, "new"):
        if (st.t["f"].get("path") or "").endswith("Line::new") and len(st.args) == 2:
            lines.append((vertex_index(prog, st.args[0]), vertex_index(prog, st.args[1])))
    ok = sorted(set(lines), key=str) == [(0, 1), (0, 2), (1, 2)]
    rep.check(ok, "R19.1", "contains:edges", "the border check of Triangle::contains must walk the same canonical edges (p1,p2), (p1,p3), (p2,p3) of the (y, x)-sorted vertices as the rasteriser; walks %s" % sorted(set(lines), key=str),
              at=co.span, fn=co.path, detail=sorted(set(lines), key=str))
    # (that sorted_yx really sorts by (y, x) is R19.5, decided over order types)


def edge_rasteriser(prog, rep):
    """R19.9 one rasteriser for edges: `Scanline::bresenham_intersection` extends the scanline only with columns of
    items of `line.points()` — the Bresenham walk `Line`, `Triangle::contains` and a neighbouring triangle use for the
    same edge.  A column computed some other way (a slope shortcut for steep edges) is a second rasteriser: its rounding
    differs from the walk's for some edge, and `points()` / a shared edge no longer agree with `contains()`."""
    SC = "embedded_graphics::primitives::common::scanline::Scanline"
    try:
        f = prog.method1(SC, "bresenham_intersection", None)
    except Exception as e:
        rep.fail("R19.9", "edge-rasteriser", "anchor lost: %s" % e, status="undecided")
        return
    PASS = {"skip_while", "take_while", "filter", "into_iter", "by_ref", "peekable", "fuse", "copied", "cloned"}
    line = P(2, "line")

    def chain_root(t):
        """'ok' if t is an iterator over line.points() through adaptors that only drop whole items by a predicate"""
        t = strip_refs(t)
        while t[0] == "call" and t[1].split("::")[-1] in PASS and t[3]:
            t = strip_refs(t[3][0])
        if t[0] == "call" and t[1].split("::")[-1] == "points" and len(t[3]) == 1 and strip_refs(t[3][0]) == line:
            return "ok"
        if t[0] == "call" and t[1].split("::")[-1] in ("skip", "take", "step_by", "rev", "map", "zip", "chain"):
            return "other-adaptor"
        return None

    def classify(v):
        has_item, foreign = False, None
        for n in walk(v):
            if n[0] == "payload" and n[1][0] == "call" and n[1][1].split("::")[-1] in ("next", "next_back", "search::continues") or (n[0] == "payload" and n[1][0] == "call" and n[1][1] == "search::continues"):
                inner = n[1]
                while inner[0] == "call" and inner[1] == "search::continues":
                    inner = inner[3][0]
                r = chain_root(inner[3][0]) if inner[0] == "call" and inner[3] else None
                if r == "ok":
                    has_item = True
                elif r == "other-adaptor":
                    foreign = foreign or "an adaptor that can drop or change points of the row"
            elif n[0] == "param" and n[1] == 2:
                # the line itself: fine inside the points() chain, foreign as a source of coordinates
                pass
        # coordinates read from the line directly (line.start.x + dx)
        def direct(t, inside_chain=False):
            if t[0] == "call" and t[1].split("::")[-1] == "points":
                return False
            if t[0] == "field" and strip_refs(t[1])[0] == "field" and strip_refs(strip_refs(t[1])[1]) == line:
                return True
            if t == line:
                return True
            return any(direct(c) for c in t[1:] if isinstance(c, tuple) and c and isinstance(c[0], str)) or \
                any(direct(c) for cc in t[1:] if isinstance(cc, tuple) and cc and isinstance(cc[0], tuple) for c in cc if isinstance(c, tuple) and c and isinstance(c[0], str))
        return has_item, foreign, direct(v)

    bad, und, n = [], [], 0
    try:
        summs = Paths(prog, loops="once", inline=lambda g: prog.is_new(g)).of(f)
        fam = [f] + [c for c in prog.closures_of.get(f.id, [])]
        allsm = [(f, sm) for sm in summs]
        for c in fam[1:]:
            try:
                allsm += [(c, sm) for sm in Paths(prog, loops="once", inline=lambda g: prog.is_new(g)).of(c)]
            except Unsupported:
                pass
    except Unsupported as e:
        rep.fail("R19.9", "edge-rasteriser", "cannot summarise: %s" % e, status="undecided", at=f.span, fn=f.path)
        return
    for g, sm in allsm:
        vals = [e[1][3][1] for e in sm.calls() if e[1][1].split("::")[-1] == "extend" and len(e[1][3]) == 2]
        vals += [w[2] for w in sm.writes() if isinstance(w[2], tuple)]
        for v in vals:
            if g is not f:
                # inside a closure of the chain (`for_each(|p| self.extend(p.x))`): the item is the closure's parameter
                if any(n_[0] == "param" and n_[1] == 2 for n_ in walk(v)):
                    n += 1
                continue
            n += 1
            has_item, foreign, dr = classify(v)
            if dr and not has_item:
                bad.append("the scanline is extended with %s, a column computed from the line's end points instead of an item of line.points()" % show(v, maxd=4)[:160])
            elif foreign:
                und.append("the scanline is extended through %s" % foreign)
            elif not has_item:
                und.append("the scanline is extended with %s" % show(v, maxd=4)[:160])
    if bad:
        rep.fail("R19.9", "edge-rasteriser", "; ".join(sorted(set(bad))[:2]), at=f.span, fn=f.path)
    elif und or n < 1:
        rep.fail("R19.9", "edge-rasteriser", "; ".join(sorted(set(und))[:2]) or "no extension of the scanline found", status="undecided", at=f.span, fn=f.path)
    else:
        rep.ok("R19.9", "edge-rasteriser", at=f.span, fn=f.path, detail={"extensions": n})


def drain_slots(prog, rep):
    """R19.10 every part of a triangle scanline is handed out: `ScanlineIntersections::next` (triangle) returns None only
    on paths on which `try_take` of all three slots of `self.lines` (first, second, internal) came back empty, and a
    yielding path returns the slot it took — the internal part with `internal_type`, the border parts as Stroke.  A slot
    that is skipped under a side condition ("only triangles with a fill have an internal part") is never drawn: for a
    collapsed triangle the internal part carries the stroke."""
    SI = "embedded_graphics::primitives::triangle::scanline_intersections::ScanlineIntersections"
    LT = "embedded_graphics::primitives::triangle::scanline_intersections::LineConfig"
    try:
        f = prog.method1(SI, "next", "core::iter::traits::iterator::Iterator")
        li = field_index(prog, SI, "lines")
        slots = {field_index(prog, LT, n): n for n in ("first", "second", "internal")}
        it_i = field_index(prog, LT, "internal_type")
    except Exception as e:
        rep.fail("R19.10", "triangle:drain", "anchor lost: %s" % e, status="undecided")
        return
    try:
        summs = Paths(prog, inline=lambda g: prog.is_new(g)).of(f)
    except Unsupported as e:
        rep.fail("R19.10", "triangle:drain", "cannot summarise: %s" % e, status="undecided", at=f.span, fn=f.path)
        return
    lines = ("field", P(1, "self"), li)
    def slot_of(t):
        t = strip_refs(t)
        if t[0] == "call" and t[1].split("::")[-1] == "try_take" and len(t[3]) == 1:
            a = strip_refs(t[3][0])
            if a[0] == "field" and strip_refs(a[1]) == lines and a[2] in slots:
                return slots[a[2]]
        return None
    bad, und, n_none, n_some = [], [], 0, 0
    NONE_ = ("agg", "core::option::Option::None", ())
    for sm in summs:
        empty = {slot_of(fc[1]) for fc in sm.facts if fc[0] == "variant" and fc[2] == ("None",)} - {None}
        r = strip_refs(sm.ret)
        if r == NONE_:
            n_none += 1
            missing = sorted(set(slots.values()) - empty)
            if missing:
                bad.append("next() returns None without having found the %s part empty (conditions: %s)" % (", ".join(missing), "; ".join(show(fc[1], maxd=2)[:50] if isinstance(fc[1], tuple) else str(fc[1]) for fc in sm.facts)[:200]))
        elif r[0] == "agg" and str(r[1]).endswith("Option::Some") and strip_refs(r[2][0])[0] == "agg" and len(strip_refs(r[2][0])[2]) == 2:
            n_some += 1
            line_, ty_ = (strip_refs(x) for x in strip_refs(r[2][0])[2])
            sl = slot_of(line_[1]) if line_[0] == "payload" else None
            if sl is None:
                und.append("next() yields %s" % show(line_, maxd=3)[:100])
            elif sl == "internal" and ty_ != ("field", lines, it_i):
                bad.append("the internal part is yielded with %s instead of internal_type" % show(ty_, maxd=3))
            elif sl != "internal" and not (ty_[0] == "agg" and str(ty_[1]).endswith("PointType::Stroke")):
                bad.append("the %s border part is yielded as %s instead of Stroke" % (sl, show(ty_, maxd=3)))
        else:
            und.append("next() returns %s" % show(r, maxd=3)[:100])
    if bad:
        rep.fail("R19.10", "triangle:drain", "; ".join(sorted(set(bad))[:2]), at=f.span, fn=f.path)
    elif und or n_none < 1 or n_some < 3:
        rep.fail("R19.10", "triangle:drain", "; ".join(sorted(set(und))[:2]) or "expected three yielding paths and an ending path (%d / %d)" % (n_some, n_none), status="undecided", at=f.span, fn=f.path)
    else:
        rep.ok("R19.10", "triangle:drain", at=f.span, fn=f.path, detail={"yielding": n_some, "ending": n_none})


def polyline_points(prog, rep):
    """R19.2 on path summaries: a point of the current segment is passed on; when the segment is exhausted the next
    two vertices are loaded (dropping exactly one vertex) and the item comes from the polyline iterator itself with
    the shared joint skipped; without two more vertices the iteration ends without touching the state."""
    PT = "embedded_graphics::primitives::polyline::points::Points"
    nx = prog.method1(PT, "next", "core::iter::traits::iterator::Iterator")
    fidx = {f["name"]: i for i, f in enumerate(prog.adts[PT]["variants"][0]["fields"])}
    selff = lambda n: ("field", P(1, "self"), fidx[n])
    probs = []
    n_load = n_pass = n_end = 0
    adv_ok = True
    try:
        summs = Paths(prog).of(nx)
    except Unsupported as e:
        summs = []
        probs.append("cannot summarise next(): %s" % e)
    for sm in summs:
        inner = [e[1] for e in sm.calls() if e[1][1].endswith(("::next",)) and e[1][3] and e[1][3][0] == selff("segment_iter")]
        writes = sm.writes()
        if not inner:
            probs.append("a path does not ask the current segment first")
            continue
        iv = [fct[2] for fct in sm.facts if fct[0] == "variant" and fct[1][:4] == inner[0][:4]]
        if iv == [("Some",)]:
            n_pass += 1
            if sm.ret != ("agg", "core::option::Option::Some", (("payload", inner[0][:4] if len(inner[0]) > 4 else inner[0]),)) and not (sm.ret[0] == "agg" and sm.ret[2] and sm.ret[2][0][0] == "payload" and sm.ret[2][0][1][:4] == inner[0][:4]):
                probs.append("a point of the current segment is not passed on unchanged: %s" % show(sm.ret, maxd=4))
            if writes or len(sm.effects) != 1:
                probs.append("passing on a point of the current segment must not change the iterator")
            continue
        if iv != [("None",)]:
            probs.append("a path does not distinguish whether the current segment has a point left")
            continue
        if not writes:
            n_end += 1
            if sm.ret != ("agg", "core::option::Option::None", ()) or len(sm.effects) != 1:
                probs.append("the path without a further segment must end the iteration (None) without effects; returns %s" % show(sm.ret, maxd=3))
            continue
        n_load += 1
        tr = selff("translate")
        from mirq.origin import subst as _subst
        place = lambda t: _subst(t, lambda n: n[1] if n[0] in ("update", "mut") else None)
        w = {repr(place(x[1])): x[2] for x in writes}
        wv, ws = w.get(repr(selff("vertices"))), w.get(repr(selff("segment_iter")))
        # the two spellings of "the first two remaining vertices and the rest after the first": split_first + first, or the
        # slice patterns `[start, rest @ ..]` / `[end, ..]` (which the summaries show as first(v) / v[1..])
        sf = ("call", "*::split_first", "_", (selff("vertices"),))
        rest_b = ("proj", selff("vertices"), ("sub", 1, 0, True))
        forms = ((("field", ("payload", sf), 0), ("field", ("payload", sf), 1), sf),
                 (("payload", ("call", "*::first", "_", (selff("vertices"),))), rest_b, ("call", "*::first", "_", (selff("vertices"),))))
        form_ok = False
        seg_ok = False
        guards_ok = False
        for start, rest, g1 in forms:
            end = ("payload", ("call", "*::first", "_", (rest,)))
            seg = ("call", "*::points", "_", (("call", "*Line::new", "_", (("call", "*Add>::add", "_", (start, tr)), ("call", "*Add>::add", "_", (end, tr)))),))
            if len(writes) == 2 and wv is not None and match(strip_refs(wv), rest) is not None:
                form_ok = True
            if ws is not None and match(ws, seg) is not None:
                seg_ok = True
            if any(fct[0] == "variant" and fct[2] == ("Some",) and match(fct[1], g1) is not None for fct in sm.facts) and \
                    any(fct[0] == "variant" and fct[2] == ("Some",) and match(fct[1], ("call", "*::first", "_", (rest,))) is not None for fct in sm.facts):
                guards_ok = True
        if not form_ok:
            adv_ok = False
        if not seg_ok:
            probs.append("the next segment must be Line::new(start + translate, end + translate) of the next two vertices; found %s" % (show(ws, maxd=5) if ws else None))
        if not guards_ok:
            probs.append("a segment is loaded without two remaining vertices")
        # the item: the polyline iterator itself, joint skipped
        re_enter = [e[1] for e in sm.calls() if e[1][1].split("::")[-1] == "nth" and e[1][3] and e[1][3][0] == P(1, "self") and e[1][3][1] == ("const", 1)]
        good = len(re_enter) == 1 and sm.ret[0] == "call" and sm.ret[1] == re_enter[0][1] and sm.effects[-1][1] == re_enter[0]
        if not good:
            innerpull = any(e[1][1].split("::")[-1] in ("nth", "next") and e[1][3] and e[1][3][0] == selff("segment_iter") for e in sm.calls()[1:])
            probs.append("after loading the next segment the item must come from the polyline iterator itself with the shared joint skipped (self.nth(1)), so that zero-length segments fall through; found %s%s"
                         % (show(sm.ret, maxd=4), " — pulled from the inner segment iterator: iteration ends at a repeated vertex" if innerpull else ""))
    rep.check(not probs and n_load >= 1 and n_pass >= 1 and n_end >= 1, "R19.2", "polyline::Points::next", "; ".join(sorted(set(probs))[:2]) or "expected passing, loading and ending paths (%d/%d/%d)" % (n_pass, n_load, n_end), at=nx.span, fn=nx.path)
    rep.check(adv_ok and n_load >= 1, "R19.2", "polyline::Points::advance", "each loaded segment must drop exactly the first remaining vertex (self.vertices = rest of split_first)", at=nx.span, fn=nx.path)


# ---- R19.3 winding symmetry of Triangle::contains (sign abstraction + symmetry) ---------------------------------------
def winding_symmetry(prog, rep):
    """The barycentric inside test works on s, t (the point's two edge functions) and a = area_doubled().  Reversing the
    vertex order negates all three, so the decision must be invariant under (s, t, a) -> (-s, -t, -a): for every sign
    of s and t, a counter-clockwise triangle must accept, hand over to the edge walk and reject exactly under the
    mirrored conditions of a clockwise one.  Decided on the path summaries by evaluating every path's facts in the sign
    domain {-, 0, +} for s and t and {-, +} for a (exact for these atoms); the only non-sign atom, the comparison of
    s + t with a, is kept symbolic as the sign condition on d = s + t - a and mirrored (d -> -d)."""
    import itertools
    co = prog.method1(TRI, "contains", "embedded_graphics::primitives::ContainsPoint")
    try:
        summs = Paths(prog, loops="once").of(co)
    except Unsupported as e:
        rep.fail("R19.3", "contains:winding", "cannot summarise Triangle::contains: %s" % e, status="undecided", at=co.span, fn=co.path)
        return
    A = ("call", "embedded_graphics::primitives::triangle::Triangle::area_doubled", (), (P(1, "self"),))

    def strip_neg(t):
        k = 1
        while t[0] == "un" and t[1] == "Neg":
            t = t[2]
            k = -k
        return t, k
    # the two edge functions: operands of the `X < 0` tests that are not the area
    syms = []
    for sm in summs:
        for fct in sm.facts:
            for x in fct[1:]:
                if not isinstance(x, tuple):
                    continue
                for n in walk(x):
                    if n[0] == "bin" and n[1] in ("Lt", "Le") and (n[2] == ("const", 0) or n[3] == ("const", 0)):
                        o = n[3] if n[2] == ("const", 0) else n[2]
                        o, _ = strip_neg(o)
                        if o != A and o not in syms and o[0] != "const":
                            syms.append(o)
            if fct[0] in ("lt", "le") and (fct[1] == ("const", 0) or fct[2] == ("const", 0)):
                o = fct[2] if fct[1] == ("const", 0) else fct[1]
                o, _ = strip_neg(o)
                if o != A and o not in syms and o[0] == "bin" and o[1] in ("Add", "Sub"):
                    # candidates: not a sum of two already known symbols
                    syms.append(o)
    # a sum of two other candidates is not a symbol of its own
    def is_sum_of(o, cands):
        if o[0] == "bin" and o[1] == "Add":
            a_, ka = strip_neg(o[2])
            b_, kb = strip_neg(o[3])
            return a_ in cands and b_ in cands and a_ != b_
        return False
    base = [o for o in syms if not is_sum_of(o, [c for c in syms if c != o])]
    if len(base) != 2:
        rep.fail("R19.3", "contains:winding", "cannot identify the two edge functions of the inside test (found %d candidates)" % len(base), status="undecided", at=co.span, fn=co.path)
        return
    S, T = base

    class Unknown(Exception):
        pass

    def sign_of(t, env):
        """sign in {-1, 0, 1} of a tree over S, T, A and constants; ('d', k) for k*(S+T-A)-like sums is handled by rel()"""
        t, k = strip_neg(t)
        if t == S:
            return k * env["s"]
        if t == T:
            return k * env["t"]
        if t == A:
            return k * env["a"]
        if t[0] == "const" and isinstance(t[1], int):
            return k * ((t[1] > 0) - (t[1] < 0))
        raise Unknown(show(t, maxd=3))

    def lin(t):
        """{symbol: coefficient} of a sum over S, T, A"""
        t, k = strip_neg(t)
        if t in (S, T, A):
            return {("s" if t == S else "t" if t == T else "a"): k}
        if t[0] == "const" and t[1] == 0:
            return {}
        if t[0] == "bin" and t[1] in ("Add", "Sub"):
            x, y = lin(t[2]), lin(t[3])
            out = dict(x)
            for kk, v in y.items():
                out[kk] = out.get(kk, 0) + (v if t[1] == "Add" else -v)
            return {kk: k * v for kk, v in out.items() if v}
        raise Unknown(show(t, maxd=3))

    def atom(rel, x, y, env):
        """truth of (x rel y), or a symbolic condition on d = s + t - a: ('d', op) with op in < <= > >="""
        try:
            sx, sy = sign_of(x, env), sign_of(y, env)
            if y == ("const", 0) or x == ("const", 0) or (sx != sy):
                # comparable by sign alone when one side is 0 or the signs differ
                if sy == 0 and y == ("const", 0):
                    return {"lt": sx < 0, "le": sx <= 0, "eq": sx == 0, "ne": sx != 0}[rel]
                if sx == 0 and x == ("const", 0):
                    return {"lt": 0 < sy, "le": 0 <= sy, "eq": sy == 0, "ne": sy != 0}[rel]
                if sx != sy and rel in ("lt", "le"):
                    return sx < sy
        except Unknown:
            pass
        c = lin(("bin", "Sub", x, y))
        if c in ({"s": 1, "t": 1, "a": -1},):
            return ("d", {"lt": "<", "le": "<=", "eq": "==", "ne": "!="}[rel])
        if c in ({"s": -1, "t": -1, "a": 1},):
            return ("d", {"lt": ">", "le": ">=", "eq": "==", "ne": "!="}[rel])
        raise Unknown("%s %s %s" % (show(x, maxd=3), rel, show(y, maxd=3)))

    def bool_tree(t, env):
        if t[0] == "bin" and t[1] in ("Lt", "Le", "Eq"):
            if t[1] == "Eq" and t[2][0] == "bin" and t[3][0] == "bin":
                return bool_tree(t[2], env) == bool_tree(t[3], env)
            r = atom({"Lt": "lt", "Le": "le", "Eq": "eq"}[t[1]], t[2], t[3], env)
            if isinstance(r, tuple):
                raise Unknown("nested symbolic atom")
            return r
        if t[0] == "un" and t[1] == "Not":
            return not bool_tree(t[2], env)
        raise Unknown(show(t, maxd=3))

    def outcome(env):
        """{kind: set of frozenset(d-conditions)} for kind in inside / edge-walk / outside"""
        out = {"inside": set(), "edge-walk": set(), "outside": set()}
        for sm in summs:
            conds = []
            ok = True
            walkd = False
            for fct in sm.facts:
                if fct[0] in ("true", "false") and fct[1][0] == "call" and fct[1][1].endswith("Rectangle::contains"):
                    if fct[0] == "false":
                        ok = False
                    continue
                if fct[0] == "variant" and fct[1][0] == "call" and fct[1][1].split("::")[-1] == "next":
                    walkd = True
                    continue
                if any(n[0] == "call" and n[1].split("::")[-1] in ("next", "continues") for x in fct[1:] if isinstance(x, tuple) for n in walk(x)):
                    walkd = True
                    continue
                if fct[0] in ("lt", "le", "eq", "ne"):
                    if fct[0] in ("eq", "ne") and fct[1][0] == "bin" and fct[2][0] == "bin" and fct[1][1] in ("Lt", "Le") and fct[2][1] in ("Lt", "Le"):
                        r = bool_tree(fct[1], env) == bool_tree(fct[2], env)
                        r = r if fct[0] == "eq" else not r
                    else:
                        r = atom(fct[0], fct[1], fct[2], env)
                elif fct[0] in ("true", "false"):
                    r = bool_tree(fct[1], env)
                    r = r if fct[0] == "true" else not r
                else:
                    raise Unknown(str(fct[0]))
                if r is False:
                    ok = False
                    break
                if isinstance(r, tuple):
                    conds.append(r[1])
            if not ok:
                continue
            if not walkd and isinstance(sm.ret, tuple) and sm.ret[0] == "call" and sm.ret[1].split("::")[-1] in ("any", "find", "position", "all") and \
                    any(n[0] == "call" and n[1].endswith("PointsIter>::points") for n in walk(sm.ret)):
                walkd = True     # the search over the edge points handed back as it is (its predicate came in as a parameter)
            kind = "edge-walk" if walkd else ("inside" if sm.ret == ("const", True) else ("outside" if sm.ret == ("const", False) else "?"))
            if kind == "?":
                raise Unknown("result %s" % show(sm.ret, maxd=3))
            out[kind].add(frozenset(conds))
        return out
    MIRROR = {"<": ">", "<=": ">=", ">": "<", ">=": "<=", "==": "==", "!=": "!="}
    bad = []
    try:
        for s_, t_ in itertools.product((-1, 0, 1), repeat=2):
            cw = outcome({"s": s_, "t": t_, "a": 1})
            ccw = outcome({"s": -s_, "t": -t_, "a": -1})
            mirrored = {k: {frozenset(MIRROR[c] for c in conj) for conj in v} for k, v in ccw.items()}
            if cw != mirrored:
                sg = lambda v: "-0+"[v + 1]
                diff = [k for k in cw if cw[k] != mirrored[k]]
                bad.append("sign(s, t) = (%s, %s): a clockwise triangle decides %s, the mirrored counter-clockwise case %s" % (
                    sg(s_), sg(t_), {k: sorted(map(sorted, cw[k])) for k in diff}, {k: sorted(map(sorted, mirrored[k])) for k in diff}))
    except Unknown as e:
        rep.fail("R19.3", "contains:winding", "the inside test uses an atom outside the sign domain: %s" % e, status="undecided", at=co.span, fn=co.path)
        return
    rep.check(not bad, "R19.3", "contains:winding", "Triangle::contains must decide a point the same way for both vertex orders (invariance under (s, t, area) -> (-s, -t, -area)): %s" % "; ".join(bad[:2]),
              at=co.span, fn=co.path, detail=bad)


def outline_runs(prog, rep):
    """R19.4 the outline rows of a stroked triangle keep every edge: in ScanlineIntersections::edge_intersections each
    edge's intersection with the row is disposed of on every loop path — merged into the left run when it touches it,
    made the left run when that is empty, and only otherwise (after the left run refused it) kept as or merged into the
    right run.  An intersection that goes to the right run without having been offered to the left run first leaves two
    touching runs, and a later separate intersection is then dropped (the outline loses an edge pixel)."""
    from mirq.paths import Paths, Unsupported, show_fact, show_eff
    cl = [f for f in prog.fns.values() if f.body and f.kind == "closure" and f.root_fn().name == "edge_intersections" and f.parent_fn == f.root_fn().id]
    if len(cl) != 1:
        rep.check(False, "R19.4", "edge_intersections:runs", "anchor lost: the from_fn closure of edge_intersections (%d found)" % len(cl), status="undecided")
        return
    f = cl[0]
    try:
        summs = Paths(prog, inline=lambda g: prog.is_new(g), loops="once", local_effects=True).of(f)
    except Unsupported as e:
        rep.check(False, "R19.4", "edge_intersections:runs", "cannot summarise the closure: %s" % e, status="undecided", at=f.span, fn=f.path)
        return
    up = {l.get("name"): i for i, l in enumerate(f.body["locals"])}
    is_s = lambda t: any(n[0] == "call" and n[1].endswith("ThickSegment::intersection") for n in walk(t))
    is_up = lambda t, nm: strip_refs(t)[0] == "upvar" and strip_refs(t)[2] == nm
    bad, n_loop, kinds = [], 0, set()
    for sm in summs:
        if sm.ret is not None:
            continue
        n_loop += 1
        tried_left = refused_left = False
        for fct in sm.facts:
            if fct[0] in ("true", "false") and fct[1][0] == "call" and fct[1][1].endswith("Scanline::try_extend") and is_up(fct[1][3][0], "left") and is_s(fct[1][3][1]):
                tried_left = True
                refused_left = fct[0] == "false"
        left_empty = any(fct[0] == "true" and fct[1][0] == "call" and fct[1][1].endswith("Scanline::is_empty") and is_up(fct[1][3][0], "left") for fct in sm.facts)
        disposed = []
        for e in sm.effects:
            if e[0] == "write" and e[1][0] == "upvar" and e[1][2] in ("left", "right") and is_s(e[2]):
                disposed.append(("set", e[1][2]))
            if e[0] == "call" and e[1][1].endswith("Scanline::try_extend") and is_s(e[1][3][1]):
                tgt = strip_refs(e[1][3][0])
                if tgt[0] == "upvar" and tgt[2] == "right":
                    disposed.append(("extend", "right"))
        if tried_left and not refused_left:
            disposed.append(("extend", "left"))
        where = "; ".join(show_fact(x)[:50] for x in sm.facts[2:5])
        if not disposed:
            bad.append("a loop path drops the edge's intersection [%s]" % where)
        for how, side in disposed:
            kinds.add((how, side))
            if side == "right" and not refused_left:
                bad.append("the intersection goes to the right run without having been refused by the left run [%s]" % where)
            if (how, side) == ("set", "left") and not left_empty:
                bad.append("the left run is overwritten while it is not empty [%s]" % where)
    want = {("set", "left"), ("extend", "left"), ("set", "right"), ("extend", "right")}
    rep.check(not bad and kinds == want and n_loop >= 4, "R19.4", "edge_intersections:runs",
              "every edge intersection must be merged into / become the left run, or after the left run refused it the right run: %s" % ("; ".join(sorted(set(bad))[:2]) or "dispositions found: %s" % sorted(kinds)),
              at=f.span, fn=f.path, detail={"loop_paths": n_loop})


def vertex_sort(prog, rep):
    """R19.5 Triangle::sorted_yx returns the three vertices ordered by (y, x).  scanline_intersection draws a flat
    (collinear) triangle as the single line from the first to the last sorted vertex, which covers the closed triangle
    only if those are its two extreme points; for points on one line the (y, x) order puts the extremes first and last.
    The sort touches the six coordinates only through comparisons, so it is decided by exhaustive case analysis over
    their order types (mirq.orders, D5): 3 x-ranks x 3 y-ranks per vertex, 729 cases; x and y live in separate
    comparison domains, a comparison across them is refused."""
    import itertools
    from mirq.orders import OrderEval, Undecided, Sc
    TRI = "embedded_graphics::primitives::triangle::Triangle"
    try:
        f = prog.method1(TRI, "sorted_yx", None)
    except Exception as e:
        rep.fail("R19.5", "anchor", "Triangle::sorted_yx not found: %s" % e, status="undecided")
        return
    E = OrderEval(prog)
    n = 0
    bad = None
    try:
        for xs in itertools.product(range(3), repeat=3):
            for ys in itertools.product(range(3), repeat=3):
                pts = tuple((Sc("x", x), Sc("y", y)) for x, y in zip(xs, ys))
                got = E.call_fn(f, [(pts,)])
                n += 1
                out = got[0] if isinstance(got, tuple) and len(got) == 1 else got
                ok = isinstance(out, tuple) and len(out) == 3 and all(isinstance(q, tuple) and len(q) == 2 and isinstance(q[0], Sc) and isinstance(q[1], Sc) for q in out)
                if ok:
                    keys = [(q[1].v, q[0].v) for q in out]
                    ok = sorted(keys) == sorted((y, x) for x, y in zip(xs, ys)) and keys == sorted(keys)
                if not ok:
                    bad = "vertices with (x, y) ranks %s come back as %r, not ordered by (y, x)" % (list(zip(xs, ys)), out)
                    raise StopIteration
    except StopIteration:
        pass
    except Undecided as e:
        rep.fail("R19.5", "sorted_yx", "the vertex sort is not a pure comparison network over the coordinates: %s" % e, status="undecided", at=f.span, fn=f.path)
        return
    rep.analysed["R19.5:order-type cases"] = n
    rep.check(bad is None, "R19.5", "sorted_yx", "Triangle::sorted_yx: %s; a flat triangle is then drawn between two vertices that are not its extremes" % bad, at=f.span, fn=f.path,
              detail={"cases": n, "functions": sorted(E.fns_seen)})


def winding_normalised(prog, rep):
    """R19.6 the triangle that the scanline machinery works on is winding-normalised on every path: the value stored
    in ScanlineIntersections::triangle and the receiver of Triangle::is_collapsed ("the triangle is sorted clockwise, so
    the inner side is the right side") is `sorted_clockwise(..)` of something — in the constructor itself or, traced
    through its parameter, at every call site on every path of every caller.  Edge order and stroke side are read from
    that stored triangle, so an unnormalised path makes the result depend on the order of the vertices."""
    SI = "embedded_graphics::primitives::triangle::scanline_intersections::ScanlineIntersections"
    try:
        f0 = prog.method1(SI, "new", None)
        tidx = [i for i, fd in enumerate(prog.adts[SI]["variants"][0]["fields"]) if fd["name"] == "triangle"][0]
    except Exception as e:
        rep.fail("R19.6", "anchor", "ScanlineIntersections::new / its `triangle` field not found: %s" % e, status="undecided")
        return
    P_ = {}

    def summs_of(g):
        if g.id not in P_:
            out = None
            for mode in ("refuse", "once"):
                try:
                    out = Paths(prog, inline=lambda h: prog.is_new(h), loops=mode).of(g)
                    break
                except Unsupported:
                    continue
            P_[g.id] = out
        return P_[g.id]

    def trees(sm):
        ts = [sm.ret] + [e_[1] if e_[0] == "call" else e_[2] for e_ in sm.effects] + [x for fc in sm.facts for x in fc[1:] if isinstance(x, tuple) and x and isinstance(x[0], str)]
        return [t for t in ts if isinstance(t, tuple)]
    bad, und, sites = [], [], [0]

    def cond(sm):
        c = "; ".join(show_fact_(fc) for fc in sm.facts[:2])
        return " [when %s]" % c[:90] if c else ""

    def settle(g, sm, t, trail, depth=0):
        a = strip_refs(t)
        while a[0] in ("cast", "copy") or (a[0] == "call" and a[1].split("::")[-1] in ("clone", "borrow", "deref") and len(a[3]) == 1):
            a = strip_refs(a[1] if a[0] != "call" else a[3][0])
        if a[0] == "call" and a[1].endswith("Triangle::sorted_clockwise"):
            return
        if a[0] == "param" and depth < 4:
            users = [prog.fns[u] for u in sorted(prog.uses_of(g)) if u != g.root_fn().id and "::tests::" not in u and "::tests" not in prog.fns[u].path]
            family = [h for h in prog.fns.values() if h.body and h.root_fn().id in {u.id for u in users}]
            n = 0
            for h in family:
                ss = summs_of(h)
                if ss is None:
                    und.append("cannot summarise caller %s" % h.path)
                    continue
                for sm2 in ss:
                    seen = set()
                    for tr in trees(sm2):
                        for x in walk(tr):
                            if isinstance(x, tuple) and x[0] == "call" and x[1] == g.path and len(x[3]) >= a[1] and x not in seen:
                                seen.add(x)
                                n += 1
                                settle(h, sm2, x[3][a[1] - 1], trail[:-1] + [trail[-1] + cond(sm), "%s::%s" % (h.path.split("::")[-2], h.name)], depth + 1)
            if n:
                return
        bad.append("%s: the triangle is %s" % (" <- ".join(trail), show(a, maxd=4)))
    from mirq.paths import show_fact as show_fact_
    ss0 = summs_of(f0)
    if ss0 is None:
        rep.fail("R19.6", "ScanlineIntersections::new", "cannot summarise", status="undecided", at=f0.span, fn=f0.path)
        return
    for sm in ss0:
        seen = set()
        for tr in trees(sm):
            for x in walk(tr):
                if not isinstance(x, tuple) or x in seen:
                    continue
                if x[0] == "agg" and isinstance(x[1], str) and x[1].startswith(SI) and len(x[2]) > tidx:
                    seen.add(x)
                    sites[0] += 1
                    settle(f0, sm, x[2][tidx], ["ScanlineIntersections::new stores"])
                elif x[0] == "call" and x[1].endswith("Triangle::is_collapsed") and x[3]:
                    seen.add(x)
                    sites[0] += 1
                    settle(f0, sm, x[3][0], ["ScanlineIntersections::new asks is_collapsed of"])
    rep.floor("R19.6", "uses of the triangle in ScanlineIntersections::new", sites[0], 2)
    if und and not bad:
        rep.fail("R19.6", "winding-normalised", "; ".join(sorted(set(und))[:3]), status="undecided", at=f0.span, fn=f0.path)
    else:
        rep.check(not bad, "R19.6", "winding-normalised", "the scanline machinery must work on sorted_clockwise(triangle) on every path: %s" % "; ".join(sorted(set(bad))[:3]),
                  at=f0.span, fn=f0.path, detail={"sites": sites[0], "functions_summarised": len(P_)})


def thin_polyline_pixels(prog, rep):
    """R19.7 a one-pixel polyline is drawn as exactly the points of Polyline::points(): wherever the polyline's styled code
    (src/primitives/polyline/styled.rs) builds a Pixel from an item of polyline::Points (the payload of its `next`, or the
    parameter of the closure mapped over `points()`), the Pixel's point is that item itself — nothing added, nothing
    recomputed.  polyline::Points already carries the translation (R07.3) and the joint handling (R19.2)."""
    PTS = "embedded_graphics::primitives::polyline::points::Points"
    fns = [f for f in prog.fns.values() if f.body and (f.span or "").startswith("src/primitives/polyline/styled.rs") and "::tests" not in f.id]
    fns += [g for f in list(fns) for g in prog.new_helpers_of(f) if g not in fns]

    def pixels(t):
        return [x for x in walk(t) if isinstance(x, tuple) and x[0] == "agg" and isinstance(x[1], str) and x[1].endswith("drawable::Pixel") or
                (isinstance(x, tuple) and x[0] == "agg" and isinstance(x[1], str) and x[1].split("::")[-1] == "Pixel" and len(x[2]) == 2)]

    def from_points(t):
        return any(isinstance(x, tuple) and x[0] == "call" and x[1].endswith("::next") and PTS in x[1] for x in walk(t))
    n, bad, und = 0, [], []
    dropped = []
    for f in sorted(fns, key=lambda f: f.id):
        item_param = None
        if f.kind == "closure":
            # a closure mapped over Polyline::points(): its (only) explicit parameter is an item of the thin iterator
            root = f.root_fn()
            mapped = False
            for mode in ("refuse", "once"):
                try:
                    for sm in Paths(prog, inline=lambda h: prog.is_new(h), loops=mode).of(root):
                        for tr in [sm.ret] + [e_[1] if e_[0] == "call" else e_[2] for e_ in sm.effects]:
                            for x in walk(tr) if isinstance(tr, tuple) else ():
                                if (isinstance(x, tuple) and x[0] == "call" and x[1].split("::")[-1] in ("map", "for_each", "filter_map", "flat_map") and len(x[3]) == 2
                                        and any(isinstance(y, tuple) and y[0] == "call" and y[1].endswith("PointsIter>::points") and "polyline" in y[1] for y in walk(x[3][0]))
                                        and any(isinstance(y, tuple) and y[0] == "agg" and isinstance(y[1], str) and y[1] == "closure:" + f.id for y in walk(x[3][1]))):
                                    mapped = True
                                    # every point must reach the closure: between points() and the closure only
                                    # adaptors that pass all items on
                                    src_ = strip_refs(x[3][0])
                                    while src_[0] == "call" and not (src_[1].endswith("PointsIter>::points") and "polyline" in src_[1]) and src_[3]:
                                        ad = src_[1].split("::")[-1]
                                        if ad not in ("into_iter", "by_ref", "iter", "copied", "cloned", "inspect", "peekable", "fuse"):
                                            dropped.append("%s: the points of the polyline pass through `%s` before they are drawn" % (root.path.split("polyline::styled::")[-1], ad))
                                        src_ = strip_refs(src_[3][0])
                    break
                except Unsupported:
                    continue
            if mapped:
                item_param = 2
        try:
            summs = Paths(prog, inline=lambda h: prog.is_new(h)).of(f)
        except Unsupported:
            try:
                summs = Paths(prog, inline=lambda h: prog.is_new(h), loops="once").of(f)
            except Unsupported as e:
                if item_param:
                    und.append("%s: %s" % (f.path, e))
                continue
        for sm in summs:
            for tr in [sm.ret] + [e_[1] if e_[0] == "call" else e_[2] for e_ in sm.effects]:
                if not isinstance(tr, tuple):
                    continue
                for px in pixels(tr):
                    pt = strip_refs(px[2][0])
                    thin = from_points(pt) or (item_param and any(isinstance(x, tuple) and x[0] == "param" and x[1] == item_param for x in walk(pt)))
                    if not thin:
                        continue
                    n += 1
                    exact = (pt[0] == "payload" and strip_refs(pt[1])[0] == "call" and PTS in strip_refs(pt[1])[1]) or (item_param and pt[0] == "param" and pt[1] == item_param)
                    if not exact:
                        bad.append("%s builds the pixel at %s" % (f.path.split("polyline::styled::")[-1], show(pt, maxd=4)))
    bad += sorted(set(dropped))
    rep.floor("R19.7", "pixels built from polyline::Points items", n, 2)
    if und and not bad:
        rep.fail("R19.7", "thin-polyline", "; ".join(und[:2]), status="undecided")
    else:
        first = fns[0] if fns else None
        rep.check(not bad, "R19.7", "thin-polyline", "the pixels of a one-pixel polyline must be the items of Polyline::points() themselves (they are already translated): %s" % "; ".join(sorted(set(bad))[:3]),
                  at=first.span if first else "", fn=first.path if first else "", detail={"functions": len(fns), "pixel sites": n})


def skeleton_edge(prog, rep):
    """R19.8 a one-pixel stroke of a triangle / polyline is rasterised edge by edge from the first to the second vertex of
    each edge in vertex order: the skeleton case of ThickSegment::intersection intersects the row with exactly one line,
    `edges().0` (the edge on the stroke's reference side, running start -> end).  Bresenham is not symmetric under
    reversal at exact ties, so taking the coinciding second edge (which runs the other way) changes outline pixels."""
    TS = "embedded_graphics::primitives::common::thick_segment::ThickSegment"
    try:
        f = prog.method1(TS, "intersection", None)
    except Exception as e:
        rep.fail("R19.8", "ThickSegment::intersection", "anchor lost: %s" % e, status="undecided")
        return
    try:
        summs = Paths(prog, inline=lambda g: prog.is_new(g), local_effects=True).of(f)
    except Unsupported as e:
        rep.fail("R19.8", "ThickSegment::intersection", "cannot summarise: %s" % e, status="undecided", at=f.span, fn=f.path)
        return
    from mirq.paths import show_fact
    bad, n = [], 0
    for sm in summs:
        sk = [fc[0] == "true" for fc in sm.facts if fc[0] in ("true", "false") and strip_refs(fc[1])[0] == "call" and strip_refs(fc[1])[1].endswith("::is_skeleton")]
        if not sk or not all(sk):
            continue
        n += 1
        lines = [strip_refs(e[1][3][1]) for e in sm.effects if e[0] == "call" and e[1][1].split("::")[-1] == "bresenham_intersection" and len(e[1][3]) == 2]
        want = ("field", ("call", "*ThickSegment::edges", "_", (P(1, "self"),)), 0)
        if len(lines) != 1 or match(lines[0], want) is None:
            bad.append("the skeleton path [%s] intersects %s" % ("; ".join(show_fact(x)[:50] for x in sm.facts[:3]), "; ".join(show(l, maxd=4) for l in lines) or "nothing"))
    rep.check(not bad and n >= 1, "R19.8", "ThickSegment::intersection:skeleton", "a one-pixel edge must be intersected as edges().0 (start -> end) on every skeleton path: %s" % ("; ".join(bad[:2]) or "no skeleton path found"),
              at=f.span, fn=f.path, detail={"skeleton_paths": n})
