"""C19 — triangles cover their interior and polylines are the union of their segments (structural part)."""
from mirq.cfg import CFG
from mirq.origin import Origins, show, walk, enum_paths, path_conditions, lit_truth
from mirq.pat import match, find, strip_refs
from rules.c14 import field_index
from rules.c10 import fold
from rules.c03 import sites
from mirq.paths import Paths, Unsupported

TRI = "embedded_graphics::primitives::triangle::Triangle"
P = lambda i, n: ("param", i, n)


def vertex_index(prog, t):
    """t == sorted_yx(self).vertices[k] -> k ; self.vertices[k] -> ('raw', k); else None"""
    vi = field_index(prog, TRI, "vertices")
    m = match(t, ("index", ("field", ("call", "*Triangle::sorted_yx", "_", (P(1, "self"),)), vi), ("const", "?k")))
    if m is not None:
        return m["?k"]
    m = match(t, ("index", ("field", P(1, "self"), vi), ("const", "?k")))
    if m is not None:
        return ("raw", m["?k"])
    return None


def run(ctx, rep):
    prog = ctx.program("default")
    rep.configs.append(getattr(ctx, "alias", "default"))
    triangle_edges(prog, rep)
    polyline_points(prog, rep)


def triangle_edges(prog, rep):
    si = prog.method1(TRI, "scanline_intersection", None)
    cfg = CFG(si.body)
    sets = {}
    for path in enum_paths(cfg, 0, None, 128):
        po = Origins(si, path=path)
        pairs = []
        unknown = False
        for k, b in enumerate(path):
            t = si.body["blocks"][b]["t"]
            if t and t["k"] == "call" and t["f"].get("name") == "bresenham_intersection":
                a = strip_refs(po.term_args(k)[1])
                m = match(a, ("call", "*Line::new", "_", ("?a", "?b")))
                if m is None:
                    unknown = True
                    continue
                ia, ib = vertex_index(prog, m["?a"]), vertex_index(prog, m["?b"])
                pairs.append((ia, ib))
                if not isinstance(ia, int) or not isinstance(ib, int):
                    unknown = True
        colinear = None
        for d, lit in path_conditions(si, path, po):
            d = fold(strip_refs(d))
            if match(d, ("bin", "Eq", ("call", "*Triangle::area_doubled", "_", (P(1, "self"),)), ("const", 0))) is not None:
                colinear = lit_truth(lit)
            if match(d, ("bin", "Ne", ("call", "*Triangle::area_doubled", "_", (P(1, "self"),)), ("const", 0))) is not None:
                colinear = not lit_truth(lit)
        sets.setdefault(colinear, set()).add((tuple(sorted(pairs, key=str)), unknown))
    want_full = ((0, 1), (0, 2), (1, 2))
    ok = sets.get(False) == {(want_full, False)} and sets.get(True) == {(((0, 2),), False)} and set(sets) == {True, False}
    rep.check(ok, "R19.1", "scanline_intersection",
              "every row of a non-degenerate triangle must be intersected with all three edges built from the (y, x)-sorted vertices as (p1,p2), (p1,p3), (p2,p3) — Bresenham is not symmetric under reversal, and an edge skipped on some rows loses its pixels there; found per colinear-case %s"
              % {str(k): sorted(v, key=str) for k, v in sets.items()}, at=si.span, fn=si.path, detail={str(k): sorted(v, key=str) for k, v in sets.items()})
    rep.sample({"rule": "R19.1", "edges_per_path": {str(k): sorted(v, key=str) for k, v in sets.items()}})

    co = prog.method1(TRI, "contains", "embedded_graphics::primitives::ContainsPoint")
    # every Line built by contains() and by helpers introduced by an edit (arguments expressed over contains' parameters)
    from mirq.canon import Canon
    lines = []
    for st in Canon(prog).sites(co, "new"):
        if (st.t["f"].get("path") or "").endswith("Line::new") and len(st.args) == 2:
            lines.append((vertex_index(prog, st.args[0]), vertex_index(prog, st.args[1])))
    ok = sorted(set(lines), key=str) == [(0, 1), (0, 2), (1, 2)]
    rep.check(ok, "R19.1", "contains:edges", "the border check of Triangle::contains must walk the same canonical edges (p1,p2), (p1,p3), (p2,p3) of the (y, x)-sorted vertices as the rasteriser; walks %s" % sorted(set(lines), key=str),
              at=co.span, fn=co.path, detail=sorted(set(lines), key=str))
    # sorted_yx really sorts: three compare-exchange steps through sort_two_yx covering all three positions
    sy = prog.method1(TRI, "sorted_yx", None)
    s = sites(sy, "sort_two_yx")
    rep.check(len(s) == 3, "R19.1", "sorted_yx:network", "sorted_yx must be a three-step compare-exchange network over the vertices (found %d steps)" % len(s), at=sy.span, fn=sy.path)
    st = prog.fn_by_path("embedded_graphics::primitives::triangle::sort_two_yx")
    from mirq.origin import decisions
    forms = set()
    for lits, ret, _ in decisions(st):
        r = strip_refs(ret)
        m = match(r, ("agg", "tuple", ("?x", "?y")))
        if m is not None and {m["?x"], m["?y"]} == {P(1, "p1"), P(2, "p2")}:
            forms.add((m["?x"][2], m["?y"][2]))
    rep.check(forms == {("p1", "p2"), ("p2", "p1")}, "R19.1", "sort_two_yx", "sort_two_yx must return its two arguments in one of the two orders; returns %s" % sorted(forms), at=st.span, fn=st.path)


def polyline_points(prog, rep):
    """R19.2 on path summaries: a point of the current segment is passed on; when the segment is exhausted the next
    two vertices are loaded (dropping exactly one vertex) and the item comes from the polyline iterator itself with
    the shared joint skipped; without two more vertices the iteration ends without touching the state."""
    PT = "embedded_graphics::primitives::polyline::points::Points"
    nx = prog.method1(PT, "next", "core::iter::traits::iterator::Iterator")
    fidx = {f["name"]: i for i, f in enumerate(prog.adts[PT]["variants"][0]["fields"])}
    selff = lambda n: ("field", P(1, "self"), fidx[n])
    probs = []
    n_load = n_pass = n_end = 0
    adv_ok = True
    try:
        summs = Paths(prog).of(nx)
    except Unsupported as e:
        summs = []
        probs.append("cannot summarise next(): %s" % e)
    for sm in summs:
        inner = [e[1] for e in sm.calls() if e[1][1].endswith(("::next",)) and e[1][3] and e[1][3][0] == selff("segment_iter")]
        writes = sm.writes()
        if not inner:
            probs.append("a path does not ask the current segment first")
            continue
        iv = [fct[2] for fct in sm.facts if fct[0] == "variant" and fct[1][:4] == inner[0][:4]]
        if iv == [("Some",)]:
            n_pass += 1
            if sm.ret != ("agg", "core::option::Option::Some", (("payload", inner[0][:4] if len(inner[0]) > 4 else inner[0]),)) and not (sm.ret[0] == "agg" and sm.ret[2] and sm.ret[2][0][0] == "payload" and sm.ret[2][0][1][:4] == inner[0][:4]):
                probs.append("a point of the current segment is not passed on unchanged: %s" % show(sm.ret, maxd=4))
            if writes or len(sm.effects) != 1:
                probs.append("passing on a point of the current segment must not change the iterator")
            continue
        if iv != [("None",)]:
            probs.append("a path does not distinguish whether the current segment has a point left")
            continue
        if not writes:
            n_end += 1
            if sm.ret != ("agg", "core::option::Option::None", ()) or len(sm.effects) != 1:
                probs.append("the path without a further segment must end the iteration (None) without effects; returns %s" % show(sm.ret, maxd=3))
            continue
        n_load += 1
        sf = ("call", "*::split_first", "_", (selff("vertices"),))
        start = ("field", ("payload", sf), 0)
        rest = ("field", ("payload", sf), 1)
        end = ("payload", ("call", "*::first", "_", (rest,)))
        tr = selff("translate")
        w = {repr(x[1]): x[2] for x in writes}
        wv, ws = w.get(repr(selff("vertices"))), w.get(repr(selff("segment_iter")))
        seg = ("call", "*::points", "_", (("call", "*Line::new", "_", (("call", "*Add>::add", "_", (start, tr)), ("call", "*Add>::add", "_", (end, tr)))),))
        if len(writes) != 2 or wv is None or match(wv, rest) is None:
            adv_ok = False
        if ws is None or match(ws, seg) is None:
            probs.append("the next segment must be Line::new(start + translate, end + translate) of the next two vertices; found %s" % (show(ws, maxd=5) if ws else None))
        need = [("variant", x, ("Some",)) for x in ()]
        has_guards = any(fct[0] == "variant" and fct[2] == ("Some",) and match(fct[1], sf) is not None for fct in sm.facts) and \
            any(fct[0] == "variant" and fct[2] == ("Some",) and match(fct[1], ("call", "*::first", "_", (rest,))) is not None for fct in sm.facts)
        if not has_guards:
            probs.append("a segment is loaded without two remaining vertices")
        # the item: the polyline iterator itself, joint skipped
        re_enter = [e[1] for e in sm.calls() if e[1][1].split("::")[-1] == "nth" and e[1][3] and e[1][3][0] == P(1, "self") and e[1][3][1] == ("const", 1)]
        good = len(re_enter) == 1 and sm.ret[0] == "call" and sm.ret[1] == re_enter[0][1] and sm.effects[-1][1] == re_enter[0]
        if not good:
            innerpull = any(e[1][1].split("::")[-1] in ("nth", "next") and e[1][3] and e[1][3][0] == selff("segment_iter") for e in sm.calls()[1:])
            probs.append("after loading the next segment the item must come from the polyline iterator itself with the shared joint skipped (self.nth(1)), so that zero-length segments fall through; found %s%s"
                         % (show(sm.ret, maxd=4), " — pulled from the inner segment iterator: iteration ends at a repeated vertex" if innerpull else ""))
    rep.check(not probs and n_load >= 1 and n_pass >= 1 and n_end >= 1, "R19.2", "polyline::Points::next", "; ".join(sorted(set(probs))[:2]) or "expected passing, loading and ending paths (%d/%d/%d)" % (n_pass, n_load, n_end), at=nx.span, fn=nx.path)
    rep.check(adv_ok and n_load >= 1, "R19.2", "polyline::Points::advance", "each loaded segment must drop exactly the first remaining vertex (self.vertices = rest of split_first)", at=nx.span, fn=nx.path)
