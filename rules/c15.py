"""C15 — text layout: positions, alignment, baselines and line breaks are consistent (structural part)."""
from mirq import ty_str
from mirq.cfg import CFG
from mirq.origin import Origins, show, walk, decisions, lit_truth, enum_paths, path_conditions
from mirq.pat import match, find, strip_refs
from rules.c14 import field_index, MONOFONT
from rules.c10 import fold
from mirq.paths import Paths, Unsupported, show_eff

TEXT = "embedded_graphics::text::text::Text"
STYLE = "embedded_graphics::mono_font::mono_text_style::MonoTextStyle"
TR = "embedded_graphics::text::renderer::TextRenderer"


def variants(prog, adt):
    return {v["discr"]: v["name"] for v in prog.adts[adt]["variants"]}


def run(ctx, rep):
    prog = ctx.program("default")
    rep.configs.append(getattr(ctx, "alias", "default"))
    check_lines(prog, rep)
    check_baseline(prog, rep)
    check_line_height(prog, rep)
    check_target_independence(prog, rep)
    try:
        font_siblings(prog, rep)
    except Exception as e:
        import traceback; traceback.print_exc()
        rep.fail("R15.7", "engine", "font sibling analysis crashed: %r" % (e,), status="undecided")
    try:
        from rules.builders import check_builder
        n = check_builder(prog, rep, "R15.6", "embedded_graphics::text::text_style::TextStyleBuilder", "embedded_graphics::text::text_style::TextStyle")
        rep.floor("R15.6", "TextStyleBuilder methods", n, 4)
    except Exception as e:
        import traceback; traceback.print_exc()
        rep.fail("R15.6", "engine", "builder analysis crashed: %r" % (e,), status="undecided")


def check_lines(prog, rep):
    lines = prog.method1(TEXT, "lines", None)
    clos = prog.closures_of.get(lines.id, [])
    if len(clos) != 1:
        rep.fail("R15.1", "lines", "Text::lines must map the split lines through one closure (found %d)" % len(clos), status="undecided", at=lines.span, fn=lines.path)
        return
    c = clos[0]
    # the split: self.text.split('\\n')
    ro = strip_refs(Origins(lines).return_origin())
    sp = find(ro, ("call", "*::split", "_", ("?s", "?pat")))
    ok = bool(sp) and sp[0][1]["?pat"] == ("const", "\n") and match(sp[0][1]["?s"], ("field", ("param", 1, "self"), field_index(prog, TEXT, "text"))) is not None
    rep.check(ok, "R15.4", "split", "lines() must split self.text on '\\n'; found %s" % show(ro, maxd=6), at=lines.span, fn=lines.path)

    al = variants(prog, "embedded_graphics::text::Alignment")
    try:
        summs = Paths(prog).of(c)
    except Unsupported as e:
        rep.fail("R15.1", "lines:shape", "cannot summarise the closure of lines(): %s" % e, status="undecided", at=c.span, fn=c.path)
        return
    seen_al = {}
    n_meas = 0
    # the running position: the capture of the closure that lines() initialises with self.position (whatever the
    # variable is called), or — for `scan(self.position, |position, line| ..)` — the state behind the first parameter
    self_pos = ("field", ("param", 1, "self"), field_index(prog, TEXT, "position"))
    carriers = []
    scan = False
    for n in walk(ro):
        if n[0] == "call" and n[1].split("::")[-1] in ("map", "scan", "filter_map", "map_while") and any(x[0] == "agg" and x[1] == "closure:" + c.id for a_ in n[3] for x in walk(a_)):
            cl = [x for a_ in n[3] for x in walk(a_) if x[0] == "agg" and x[1] == "closure:" + c.id][0]
            for k, cap in enumerate(cl[2]):
                if strip_refs(cap) == self_pos:
                    carriers.append(("upvar", k))
            if n[1].split("::")[-1] == "scan" and len(n[3]) == 3 and strip_refs(n[3][1]) == self_pos:
                carriers.append(("param", 2))
                scan = True
    if len(carriers) != 1:
        rep.fail("R15.1", "lines:shape", "the closure of lines() must carry one running position initialised with self.position (found %d)" % len(carriers), status="undecided", at=c.span, fn=c.path)
        return
    car = carriers[0]

    def is_pos(t):
        t = strip_refs(t)
        return t[0] == car[0] and t[1] == car[1]
    one = ("call", "*Point::new", "_", (("const", 1), ("const", 0)))
    advance_bad = []
    for sm in summs:
        ret = sm.ret
        if scan and ret[0] == "agg" and str(ret[1]).endswith("Option::Some") and ret[2]:
            ret = ret[2][0]     # scan yields Some(item) for every split item
        m = match(ret, ("agg", "tuple", ("?text", "?p")))
        if m is None:
            rep.fail("R15.1", "lines:shape", "closure must yield (text, position); yields %s" % show(sm.ret, maxd=4), status="undecided", at=c.span, fn=c.path)
            return
        align = None
        for fct in sm.facts:
            if fct[0] == "variant" and set(fct[2]) <= set(al.values()) and len(fct[2]) == 1 and ("self" in show(fct[1]) or "alignment" in show(fct[1])):
                align = fct[2][0]
        text_out, p = m["?text"], m["?p"]
        meas = [n for n in walk(p) if n[0] == "call" and n[1].endswith("measure_string")]
        meas = list(dict.fromkeys(meas))
        if meas:
            n_meas += 1
            same = len(meas) == 1 and meas[0][3][1] == text_out
            rep.check(same, "R15.1", "measured-is-drawn:%s" % align,
                      "the line is measured for alignment as %s but yielded (drawn and boxed) as %s: with a trailing '\\r' the two differ, so \"\\r\\n\" is laid out differently from \"\\n\""
                      % (show(meas[0][3][1], maxd=5), show(text_out, maxd=5)), at=c.span, fn=c.path)
            z_ok = match(meas[0][3][2], ("call", "*Point::zero", "_", ())) is not None
            rep.check(z_ok, "R15.4", "measure-at-zero:%s" % align, "alignment must measure the line at Point::zero()", at=c.span, fn=c.path, nontrivial=False)
        nextp = None
        form = None
        if is_pos(p):
            form = "Left"
        else:
            mr = match(p, ("call", "*Sub>::sub", "_", ("?pos", ("call", "*Sub>::sub", "_", ("?next", one)))))
            mc = match(p, ("call", "*Sub>::sub", "_", ("?pos", ("call", "*Div<i32>>::div", "_", (("call", "*Sub>::sub", "_", ("?next", one)), ("const", 2))))))
            if mr is not None and is_pos(mr["?pos"]):
                form, nextp = "Right", mr["?next"]
            elif mc is not None and is_pos(mc["?pos"]):
                form, nextp = "Center", mc["?next"]
        if nextp is not None:
            good = nextp[0] == "field" and nextp[1][0] == "call" and nextp[1][1].endswith("measure_string") and nextp[2] == field_index(prog, "embedded_graphics::text::renderer::TextMetrics", "next_position")
            if not good:
                form = None
        if align is not None:
            seen_al.setdefault(align, set()).add(form)
        # y advances by line_height() exactly once on every path
        ws = sm.writes()
        # the advance is Text::line_height(self), or — where that private helper has been inlined — its body
        # saturating_as(text_style.line_height.to_absolute(character_style.line_height()))
        is_pos_y = lambda t: strip_refs(t)[0] == "field" and strip_refs(t)[2] == 1 and is_pos(strip_refs(t)[1])
        adv = None
        if len(sm.effects) == 1 and len(ws) == 1 and is_pos_y(ws[0][1]):
            v = fold(ws[0][2])
            if v[0] == "bin" and v[1] == "Add" and (is_pos_y(v[2]) or is_pos_y(v[3])):
                adv = v[3] if is_pos_y(v[2]) else v[2]
        okw = adv is not None and (match(adv, ("call", "*Text::<'a, S>::line_height", "_", ("?s",))) is not None or match(adv, ("call", "*::line_height", "_", (("upvar", "_", "self"),))) is not None
                                   or match(adv, ("call", "*SaturatingAs>::saturating_as", "_", (("call", "*LineHeight::to_absolute", "_", (("field", ("field", ("upvar", "_", "self"), field_index(prog, TEXT, "text_style")), field_index(prog, "embedded_graphics::text::text_style::TextStyle", "line_height")),
                                                                                                                                           ("call", "*::line_height", "_", (("field", ("upvar", "_", "self"), field_index(prog, TEXT, "character_style")),)))),))) is not None)
        if not okw:
            advance_bad.append("; ".join(show_eff(e) for e in sm.effects) or "no effect")
    for a in sorted(set(al.values())):
        forms = seen_al.get(a, set())
        rep.check(forms == {a}, "R15.4", "alignment:" + a,
                  "Alignment::%s must place the line at %s; found form(s) %s" % (a, {"Left": "position", "Right": "position - (next - (1,0))", "Center": "position - (next - (1,0)) / 2"}[a], sorted(str(f) for f in forms)),
                  at=c.span, fn=c.path, status="undecided" if None in forms else "refuted")
    rep.floor("R15.1", "paths with measurement", n_meas, 2)
    rep.sample({"rule": "R15.4", "alignment_forms": {k: sorted(str(x) for x in v) for k, v in seen_al.items()}})
    rep.check(not advance_bad, "R15.4", "line-advance", "each split item must advance position.y by self.line_height() exactly once on every path; found %s" % sorted(set(advance_bad))[:3],
              at=c.span, fn=c.path)


def check_baseline(prog, rep):
    # the helper may live on the style (today) or on the font it reads (moved by a refactoring)
    bos = [f for f in prog.fns.values() if f.body and f.name == "baseline_offset" and f.kind == "assoc_fn" and f.impl and not prog.impls[f.impl].get("trait")
           and isinstance(prog.impls[f.impl]["self_ty"], dict) and prog.impls[f.impl]["self_ty"].get("adt") in (STYLE, MONOFONT)]
    if len(bos) != 1:
        rep.fail("R15.2", "baseline", "anchor lost: %d functions named baseline_offset on MonoTextStyle / MonoFont" % len(bos), status="undecided")
        return
    bo = bos[0]
    on_font = prog.impls[bo.impl]["self_ty"].get("adt") == MONOFONT
    bl = variants(prog, "embedded_graphics::text::Baseline")
    fi = lambda n: field_index(prog, STYLE, n)
    ff = lambda n: field_index(prog, MONOFONT, n)
    font = ("param", 1, "self") if on_font else ("field", ("param", 1, "self"), fi("font"))
    recv = ("field", ("param", 1, "self"), fi("font")) if on_font else ("param", 1, "self")   # the receiver at the call sites in the style
    H = ("field", ("field", font, ff("character_size")), 1)
    sat = lambda x: ("call", "*SaturatingAs>::saturating_as", "_", (x,))
    hm1 = ("call", "*::saturating_sub", "_", (H, ("const", 1)))
    want = {"Top": ("const", 0), "Bottom": sat(hm1), "Middle": sat(("bin", "Div", hm1, ("const", 2))), "Alphabetic": sat(("field", font, ff("baseline")))}
    table = {}
    for lits, ret, _ in decisions(bo):
        for d, lit in lits:
            if d[0] == "discr" and len(lit) == 1:
                table[bl.get(lit[0])] = strip_refs(ret)
    for name, w in want.items():
        got = table.get(name)
        rep.check(got is not None and match(got, w) is not None, "R15.2", "baseline:" + name,
                  "baseline_offset(%s) must be %s; found %s" % (name, {"Top": "0", "Bottom": "height-1 (saturating)", "Middle": "(height-1)/2", "Alphabetic": "font.baseline"}[name], show(got) if got else None),
                  at=bo.span, fn=bo.path)
    rep.sample({"rule": "R15.2", "baseline_table": {k: show(v) for k, v in table.items() if k}})

    # R15.3 symmetry: the same offset o = baseline_offset(baseline) is subtracted from the incoming position and added back
    # to the returned one.  o is the call of the helper, or (where an edit moved / inlined it) a tree over self and the
    # baseline parameter only; that it is the *right* table is R15.2.
    offp = ("call", "*Point::new", "_", (("const", 0), "?o"))

    def is_offset(o, bl_i):
        o = strip_refs(o)
        if match(o, ("call", "*::baseline_offset", "_", ("_", ("param", bl_i, "baseline")))) is not None:
            return True
        leaves = {n[1] for n in walk(o) if n[0] == "param"}
        return bool(leaves) and leaves <= {1, bl_i} and not any(n[0] == "call" and n[1].split("::")[-1] == "baseline_offset" for n in walk(o))
    for nm, pos_i, bl_i in (("draw_string", 3, 4), ("draw_whitespace", 3, 4)):
        f = prog.method1(STYLE, nm, TR)
        cfg = CFG(f.body)
        paths = enum_paths(cfg, 0, None, 512)
        n_ok = 0
        bad = []
        for path in paths:
            po = Origins(f, path=path)
            ret = strip_refs(po.return_origin())
            m = match(ret, ("agg", "*Result::Ok", ("?p",)))
            if m is None:
                continue  # error propagation paths
            n_ok += 1
            mm = match(m["?p"], ("call", "*Add>::add", "_", ("?inner", offp)))
            good = mm is not None and is_offset(mm["?o"], bl_i)
            if good:
                # the inner position derives from the baseline-adjusted position (position - offset), same offset
                adj = [n for n in walk(mm["?inner"]) if match(n, ("call", "*Sub>::sub", "_", (("param", pos_i, "position"), offp)), {"?o": mm["?o"]}) is not None]
                good = bool(adj)
            if not good:
                # draw_whitespace: position + Point::new(width, baseline_offset) — offset added back inside one Point
                mw = match(m["?p"], ("call", "*Add>::add", "_", ("?adj", ("call", "*Point::new", "_", ("?w", "?o")))))
                good = mw is not None and is_offset(mw["?o"], bl_i) and match(mw["?adj"], ("call", "*Sub>::sub", "_", (("param", pos_i, "position"), offp)), {"?o": mw["?o"]}) is not None
            if not good:
                bad.append(show(m["?p"], maxd=6))
        rep.check(not bad and n_ok >= 1, "R15.3", nm + ":add-back",
                  "%s subtracts (0, baseline_offset) from the incoming position and must add it back to the returned position on every successful path; offending return value(s): %s" % (nm, bad[:2]),
                  at=f.span, fn=f.path, detail={"ok_paths": n_ok})
    ms = prog.method1(STYLE, "measure_string", TR)
    for lits, ret, path in decisions(ms):
        r = strip_refs(ret)
        m = match(r, ("agg", "*TextMetrics::TextMetrics", (("call", "*Rectangle::new", "_", ("?bp", "?size")), "?next")))
        mo = match(m["?bp"], ("call", "*Sub>::sub", "_", (("param", 3, "position"), offp))) if m is not None else None
        good = m is not None and mo is not None and is_offset(mo["?o"], 4) \
            and match(m["?next"], ("call", "*::add", "_", (("param", 3, "position"), ("call", "*Size::x_axis", "_", (m["?size"],))))) is not None
        rep.check(good, "R15.3", "measure_string:positions", "measure_string must box the text at position - (0, baseline_offset) and predict next_position = position + (width, 0); found %s" % show(r, maxd=5),
                  at=ms.span, fn=ms.path)
        break


def check_line_height(prog, rep):
    LH = "embedded_graphics::text::LineHeight"
    ta = prog.method1(LH, "to_absolute", None)
    vs = variants(prog, LH)
    table = {}
    for lits, ret, _ in decisions(ta):
        for d, lit in lits:
            if d[0] == "discr" and len(lit) == 1:
                table[vs.get(lit[0])] = fold(strip_refs(ret))
    px = table.get("Pixels")
    pc = table.get("Percent")
    ok = px is not None and match(px, ("field", ("variant", ("param", 1, "self"), "Pixels"), 0)) is not None
    rep.check(ok, "R15.4", "LineHeight::Pixels", "Pixels(p) must map to p; found %s" % (show(px) if px else None), at=ta.span, fn=ta.path)
    q = ("field", ("variant", ("param", 1, "self"), "Percent"), 0)
    ok = pc is not None and match(pc, ("bin", "Div", ("bin", "Mul", ("param", 2, "base_line_height"), q), ("const", 100))) is not None
    rep.check(ok, "R15.4", "LineHeight::Percent", "Percent(q) must map to base * q / 100; found %s" % (show(pc) if pc else None), at=ta.span, fn=ta.path)
    lhs = [f for f in prog.fns.values() if f.body and f.name == "line_height" and f.impl and prog.impls[f.impl]["self_ty"].get("adt") == TEXT and not prog.impls[f.impl].get("trait")]
    if not lhs:
        # the private helper is gone (inlined into lines()): R15.4 line-advance has matched its body there
        rep.ok("R15.4", "Text::line_height", detail="no Text::line_height helper; its body is matched at the advance site")
        return
    lh = prog.method1(TEXT, "line_height", None)
    ro = strip_refs(Origins(lh).return_origin())
    ts = field_index(prog, TEXT, "text_style")
    cs = field_index(prog, TEXT, "character_style")
    want = ("call", "*SaturatingAs>::saturating_as", "_", (("call", "*LineHeight::to_absolute", "_", (("field", ("field", ("param", 1, "self"), ts), field_index(prog, "embedded_graphics::text::text_style::TextStyle", "line_height")),
                                                                                                    ("call", "*::line_height", "_", (("field", ("param", 1, "self"), cs),)))),))
    rep.check(match(ro, want) is not None, "R15.4", "Text::line_height", "Text::line_height must be text_style.line_height.to_absolute(character_style.line_height()); found %s" % show(ro, maxd=6), at=lh.span, fn=lh.path)


def check_target_independence(prog, rep):
    """R15.5 the position a text drawing call returns is the one measure_string predicts — measure_string has no draw
    target, so neither the returned value nor the decision which value is returned may depend on the target: on every
    path that does not end in a target error, `target` occurs only (a) as an argument of drawing calls, (b) in the test
    that such a call succeeded, (c) inside the returned payload of a renderer call that is itself under this rule."""
    from mirq.paths import show_fact
    # the private glyph-run helper is analysed by itself while it exists under its reference name; a renamed / split one
    # is new to the tree and is inlined into draw_string's summaries
    dsb = [f for f in prog.fns.values() if f.body and f.name == "draw_string_binary" and f.kind == "assoc_fn" and f.impl and prog.impls[f.impl]["self_ty"].get("adt") == STYLE]
    fns = [("draw_string_binary", f) for f in dsb[:1]] + [
           ("draw_string", prog.method1(STYLE, "draw_string", TR)),
           ("draw_whitespace", prog.method1(STYLE, "draw_whitespace", TR)),
           ("Text::draw", prog.method1(TEXT, "draw", "embedded_graphics_core::drawable::Drawable"))]
    RENDER = ("draw_string", "draw_whitespace", "draw_string_binary")
    P_ = Paths(prog, inline=lambda g: prog.is_new(g), loops="once")
    work = [(a_, b_, ()) for a_, b_ in fns]
    done = set()
    while work:
        nm, f, tidx = work.pop(0)
        if f.id in done:
            continue
        done.add(f.id)
        is_t = lambda n, tidx=tidx: n[0] in ("param", "upvar") and len(n) > 2 and (n[2] == "target" or (n[0] == "param" and n[1] in tidx))
        if f.kind != "closure" and not tidx and not any(l.get("name") == "target" for l in f.body["locals"][:f.body["argc"] + 1]):
            rep.check(False, "R15.5", "target-independent:" + nm, "anchor lost: no `target` parameter", status="undecided", at=f.span, fn=f.path)
            continue

        def mentions(t, allow_payload):
            """does the tree use the target outside the allowed places?"""
            if not isinstance(t, tuple) or not t:
                return False
            if isinstance(t[0], str):
                if is_t(t):
                    return True
                if allow_payload and t[0] == "payload" and t[1][0] == "call" and t[1][1].split("::")[-1] in RENDER:
                    return False
                if allow_payload and t[0] == "payload" and t[1][0] == "call":
                    # a renderer helper that is new to the tree (renamed / split off) and could not be inlined (it loops):
                    # its payload is allowed and the helper is put under this rule itself
                    gs = [g for g in prog.by_path.get(t[1][1], []) if g.body and g.kind in ("fn", "assoc_fn") and prog.is_new(g)]
                    ti = tuple(i + 1 for i, a_ in enumerate(t[1][3]) if any(is_t(y) for y in walk(a_)))
                    if len(gs) == 1 and ti:
                        work.append((gs[0].name, gs[0], ti))
                        return False
                return any(mentions(c, allow_payload) for c in t[1:])
            return any(mentions(c, allow_payload) for c in t)
        try:
            summs = P_.of(f)
        except Unsupported as e:
            rep.check(False, "R15.5", "target-independent:" + nm, "cannot summarise %s: %s" % (nm, e), status="undecided", at=f.span, fn=f.path)
            continue
        bad, n = [], 0
        for sm in summs:
            r = sm.ret
            if r is not None and r[0] == "agg" and str(r[1]).endswith("Result::Err"):
                continue
            if r is not None and r[0] == "call":
                cn = r[1].split("::")[-1]
                if cn in RENDER:
                    n += 1   # the outcome of a renderer call handed on unchanged
                    continue
                if cn in ("try_fold", "try_for_each", "fold", "map", "and_then"):
                    # a fold over the lines: the value comes out of the closure, which is put under the same rule
                    cls = [x for a_ in r[3] for x in walk(a_) if x[0] == "agg" and isinstance(x[1], str) and x[1].startswith("closure:")]
                    for c in cls:
                        g = prog.fns.get(c[1][len("closure:"):])
                        if g is not None and g.body:
                            work.append((nm + ":closure", g, ()))
                    if cls and not any(mentions(a_, False) for a_ in r[3] if not (a_[0] == "agg" and str(a_[1]).startswith("closure:"))):
                        n += 1
                        continue
            n += 1
            if r is not None and any(is_t(x) for x in walk(r)) and mentions(r, True):
                bad.append("the returned value is computed from the target: %s" % show(r, maxd=5))
            for fct in sm.facts:
                if fct[0] == "variant" and fct[1][0] == "call" and set(fct[2]) <= {"Ok", "Continue"}:
                    continue   # "the drawing call succeeded"
                if any(isinstance(x, tuple) and any(is_t(y) for y in walk(x)) and mentions(x, True) for x in fct[1:]):
                    bad.append("which position is returned depends on the target: %s" % show_fact(fct)[:200])
        rep.check(not bad and n >= 1, "R15.5", "target-independent:" + nm,
                  "%s must return the position measure_string predicts whatever the target is: %s" % (nm, "; ".join(sorted(set(bad))[:2]) or "no successful path found"), at=f.span, fn=f.path, detail={"paths": n})


def font_siblings(prog, rep):
    """R15.7 sibling agreement over the 292 font constants: one font (FONT_9X15, ..) exists once per glyph subset (ascii,
    iso_8859_*, jis_x0201); the subsets differ in their glyph images and mappings only, so all constants of one name carry
    the same metrics — character size, spacing, baseline, underline and strikethrough geometry.  Text in the alphabetic
    baseline, the advance and the decorations of "the same font" must not depend on the subset it was taken from."""
    import collections
    from rules.c14 import font_table, font_fields
    groups = collections.defaultdict(lambda: collections.defaultdict(list))
    anyf = {}
    for f, v in font_table(prog):
        try:
            d = font_fields(v)
        except Exception:
            continue
        nm, mod = f.path.split("::")[-1], f.path.split("::")[-2]
        key = (str(d.get("char")), d.get("baseline"), d.get("spacing"), str(d.get("under")), str(d.get("strike")))
        groups[nm][key].append(mod)
        anyf[(nm, mod)] = f
    rep.floor("R15.7", "font names", len(groups), 20)
    for nm, vs in sorted(groups.items()):
        if len(vs) == 1:
            rep.ok("R15.7", "font-siblings:" + nm, detail={"subsets": sum(len(m) for m in vs.values())}, nontrivial=False)
            continue
        major = max(vs.items(), key=lambda kv: len(kv[1]))
        odd = [(k, m) for k, m in vs.items() if k != major[0]]
        f = anyf[(nm, odd[0][1][0])]
        rep.fail("R15.7", "font-siblings:" + nm, "%s has (size, baseline, spacing, underline, strikethrough) = %s in %d subsets but %s in %s" % (nm, major[0], len(major[1]), odd[0][0], ", ".join(odd[0][1][:3])),
                 at=f.span, fn=f.path)
