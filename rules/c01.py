"""C01 — one image per drawable, whichever drawing path the target offers (structural part)."""
from mirq import ty_str
from mirq.origin import Origins, show, walk, decisions, lit_truth, subst
from mirq.pat import match, find, strip_refs
from rules.c14 import field_index
from rules.c10 import fold
from rules.c03 import sites, closure_ret, defaults, zip_rule_everywhere
from rules import c06, c14
from mirq.paths import Paths, Unsupported, variant_of, passes_result, show_fact, UNIT

PRIM = "embedded_graphics::primitives::"
PS = PRIM + "primitive_style::PrimitiveStyle"
P = lambda i, n: ("param", i, n)


def anon(t):
    """erase parameter names (renderers name the primitive `primitive` resp. `self`)"""
    return subst(t, lambda n: ("param", n[1], None) if n[0] == "param" else None)


def run(ctx, rep):
    prog = ctx.program("default")
    rep.configs.append(getattr(ctx, "alias", "default"))
    c06.pairing(prog, rep, "R01.1")
    c06.geometry_inputs(prog, rep, "R01.2")
    triangle(prog, rep)
    try:
        triangle_pixels_end(prog, rep)
    except Exception as e:
        import traceback; traceback.print_exc()
        rep.fail("R01.6", "engine", "triangle pixel iterator analysis crashed: %r" % (e,), status="undecided")
    polyline(prog, rep)
    via_iterator(prog, rep)
    scanline_rect(prog, rep)
    defaults(prog, rep)  # R03.6 keys: the default fill_* are the reference semantics of the native paths
    zip_rule_everywhere(prog, rep, rule="R01.3", floor=3)
    c14.check_roles(prog, rep)  # glyph colours reach the parent through fill_contiguous / fill_solid with the same roles
    image_paths(prog, rep)
    try:
        target_independent(prog, rep)
    except Exception as e:
        import traceback; traceback.print_exc()
        rep.fail("R01.7", "engine", "target independence analysis crashed: %r" % (e,), status="undecided")


def target_independent(prog, rep, rule="R01.7"):
    """R01.7 what a drawable sends to the target does not depend on the target's size: no `draw` / `draw_styled` /
    text or image renderer (nor a closure or a helper new to the tree working for one) asks the target — a value of the
    DrawTarget-bounded type parameter — for its `bounding_box()` / `size()`.  Clipping is the target's business (the
    adapters and drivers, C03); a renderer that stops at "the last visible row" or skips "off-screen" parts decides
    visibility a second time, with its own off-by-one, and the draw_iter-only, native and pixels() images differ."""
    DRAWT = ("embedded_graphics_core::drawable::Drawable", "embedded_graphics::primitives::styled::StyledDrawable",
             "embedded_graphics::text::renderer::TextRenderer", "embedded_graphics_core::image::ImageDrawable")
    DT = "embedded_graphics_core::draw_target::DrawTarget"
    roots = [f for f in prog.fns.values() if f.body and f.impl and prog.impls[f.impl].get("trait") in DRAWT and "::tests" not in f.id and "mock_display" not in f.id]
    fam = []
    for f in roots:
        fam.append(f)
        fam.extend(prog.new_helpers_of(f))
    seen, i = set(), 0
    while i < len(fam):
        g = fam[i]
        i += 1
        if g.id in seen:
            continue
        seen.add(g.id)
        fam.extend(c for c in prog.closures_of.get(g.id, []) if c.id not in seen)
    def dt_params(g):
        r = g.root_fn()
        out = set()
        for b in (r.d.get("bounds") or []) + ((prog.impls[r.impl].get("bounds") or []) if r.impl else []):
            if isinstance(b, dict) and b.get("trait") == DT and isinstance(b.get("self"), dict) and "param" in b["self"]:
                out.add(b["self"]["param"])
            elif isinstance(b, str) and ": " in b and DT.split("::")[-1] in b:
                out.add(b.split(":")[0].strip())
        return out
    n, bad = 0, []
    for g in [prog.fns[x] for x in seen if x in prog.fns]:
        if not g.body:
            continue
        n += 1
        dts = None
        for b in g.body["blocks"]:
            t = b["t"]
            if not (t and t["k"] == "call" and t["f"].get("name") in ("bounding_box", "size") and t["args"]):
                continue
            a0 = (t["f"].get("args") or [None])[0]
            if not (isinstance(a0, dict) and "param" in a0):
                continue
            if dts is None:
                dts = dt_params(g)
            if a0["param"] in dts or not dts:
                bad.append((g, "%s asks the draw target (%s) for its %s()" % (g.path.split("::")[-1] if g.kind != "closure" else g.root_fn().path.split("::")[-1] + "::{closure}", a0["param"], t["f"]["name"]), t.get("sp", "")))
    rep.floor(rule, "renderer functions", n, 18)
    if bad:
        for g, why, sp in bad[:3]:
            rep.fail(rule, "target-independent:" + g.root_fn().key(), why + ": the image sent to the target must not depend on the target's size", at=sp or g.span, fn=g.path)
    else:
        rep.ok(rule, "target-independent", detail={"functions": n})


def triangle(prog, rep):
    IT = PRIM + "triangle::styled::StyledPixelsIterator"
    nw = prog.method1(IT, "new", None)
    ds = [f for f in prog.fns.values() if f.name == "draw_styled" and (PRIM + "triangle::styled::") in f.id]
    if len(ds) != 1:
        rep.fail("R01.2", "triangle", "draw_styled anchor lost", status="undecided")
        return
    ds = ds[0]
    # call sites followed through helpers introduced by an edit (arguments over the renderer's own parameters)
    from mirq.canon import Canon
    cn_ = Canon(prog)
    is_gen = lambda st: (st.t["f"].get("resolved") or st.t["f"]).get("path", "").endswith("ScanlineIterator::new")
    from mirq.paths import _norm_calls     # `x.into()` is the `From::from(x)` it calls
    a1 = [(st.bi, [_norm_calls(strip_refs(x)) for x in st.args], st.t) for st in cn_.sites(nw, "new") if is_gen(st)]
    a2 = [(st.bi, [_norm_calls(strip_refs(x)) for x in st.args], st.t) for st in cn_.sites(ds, "new") if is_gen(st)]
    ok = len(a1) == 1 and len(a2) == 1 and [anon(x) for x in a1[0][1]] == [anon(x) for x in a2[0][1]] and len(a1[0][1]) == 5
    rep.check(ok, "R01.2", "triangle:generator-args", "pixels() and draw() must build ScanlineIterator::new from identical arguments (primitive, stroke_width, StrokeOffset::from(alignment), fill_color.is_some(), styled_bounding_box); pixels: %s draw: %s"
              % ([show(x, maxd=4) for x in (a1[0][1] if a1 else [])], [show(x, maxd=4) for x in (a2[0][1] if a2 else [])]), at=ds.span, fn=ds.path)
    if ok:
        a = a1[0][1]
        style = P(2, "style")
        f = lambda n: ("field", style, field_index(prog, PS, n))
        good = a[1] == f("stroke_width") and match(a[2], ("call", "*::from", "_", (f("stroke_alignment"),))) is not None \
            and match(a[3], ("call", "*::is_some", "_", (f("fill_color"),))) is not None and match(a[4], ("call", "*::styled_bounding_box", "_", (("param", 1, "_"), style))) is not None
        rep.check(good, "R01.2", "triangle:generator-arg-origins", "ScanlineIterator::new arguments must come from the style fields of the same name and styled_bounding_box(style)", at=nw.span, fn=nw.path)
        rep.sample({"rule": "R01.2", "triangle_generator_args": [show(x, maxd=4) for x in a]})
    # colour by point type: Stroke -> effective_stroke_color, Fill -> fill_color in new(), next() and draw_styled()
    # (path summaries, loop bodies walked once: which colour is used under which established PointType)
    nx = prog.method1(IT, "next", "core::iter::traits::iterator::Iterator")
    fidx = {f["name"]: i for i, f in enumerate(prog.adts[IT]["variants"][0]["fields"])}
    P_ = Paths(prog, loops="once")
    style = P(2, "style")
    esc = lambda t: t[0] == "call" and t[1].endswith("::effective_stroke_color") and t[3] == (style,)
    sfill = ("field", style, field_index(prog, PS, "fill_color"))
    selff = lambda n: ("field", P(1, "self"), fidx[n])

    def role_of(t, stroke, fill):
        if t[0] == "payload":
            t = t[1]
        if stroke(t):
            return "stroke"
        if t == fill:
            return "fill"
        return None

    def point_type(facts):
        vs = [fct[2] for fct in facts if fct[0] == "variant" and set(fct[2]) <= {"Stroke", "Fill"}]
        return vs[-1] if vs else None

    for f, key in ((nw, "new"), (ds, "draw_styled"), (nx, "next")):
        table = {}
        bad = []
        try:
            summs = P_.of(f)
        except Unsupported as e:
            rep.fail("R01.1", "triangle:colour-by-type:" + key, "cannot summarise: %s" % e, status="undecided", at=f.span, fn=f.path)
            continue
        for sm in summs:
            uses = []
            if key == "draw_styled":
                uses = [role_of(e[1][3][2], esc, sfill) for e in sm.calls() if e[1][1].split("::")[-1] == "fill_solid" and len(e[1][3]) == 3]
            elif key == "next":
                uses = [role_of(w[2], lambda t: t == selff("stroke_color"), selff("fill_color")) for w in sm.writes() if w[1] == selff("current_color")]
            elif sm.ret is not None and sm.ret[0] == "agg" and str(sm.ret[1]).endswith("StyledPixelsIterator") and len(sm.ret[2]) > fidx["current_color"]:
                cur = sm.ret[2][fidx["current_color"]]
                if variant_of(cur) is None or variant_of(cur)[1] != "None":
                    uses = [role_of(cur, esc, sfill)]
            pt = point_type(sm.facts)
            for u in uses:
                if key == "new" and pt is None and any(fct[0] == "variant" and fct[2] == ("None",) and fct[1][0] == "call" and fct[1][1].endswith("Iterator>::next") for fct in sm.facts):
                    continue  # no scanline at all: the placeholder line is empty, its colour is never used
                if pt is None or len(pt) != 1 or u is None:
                    bad.append("a colour is chosen without an established point type, or is neither style colour (%s / %s)" % (pt, u))
                    continue
                if table.get(pt[0], u) != u:
                    bad.append("%s scanlines get two different colours" % pt[0])
                table[pt[0]] = u
        if key == "draw_styled" and not table and all("(None / None)" in x for x in bad):
            bad = []
            # an iterator pipeline instead of a loop: the colour is chosen in one closure (filter_map / map) and used by
            # another (try_for_each).  The closure that switches on the point type yields, per type, the style colour of
            # that role; the closure that calls fill_solid takes the colour from the item it is handed.
            fam, i_ = [f], 0
            while i_ < len(fam):
                fam.extend(c_ for c_ in prog.closures_of.get(fam[i_].id, []) if c_ not in fam)
                i_ += 1
            is_style = lambda x: strip_refs(x)[0] in ("upvar", "param") and len(strip_refs(x)) > 2 and strip_refs(x)[2] == "style"
            c_esc = lambda t: t[0] == "call" and t[1].endswith("::effective_stroke_color") and len(t[3]) == 1 and is_style(t[3][0])
            c_fill = lambda t: t[0] == "field" and t[2] == field_index(prog, PS, "fill_color") and is_style(t[1])
            item_fed = False
            for c_ in fam[1:]:
                try:
                    cs = P_.of(c_)
                except Unsupported:
                    continue
                for sm in cs:
                    pt = point_type(sm.facts)
                    roles = set()
                    if sm.ret is not None:
                        for n_ in walk(sm.ret):
                            if isinstance(n_, tuple) and n_ and c_esc(n_):
                                roles.add("stroke")
                            elif isinstance(n_, tuple) and n_ and c_fill(strip_refs(n_)):
                                roles.add("fill")
                    for e_ in sm.calls():
                        if e_[1][1].split("::")[-1] == "fill_solid" and len(e_[1][3]) == 3:
                            col = strip_refs(e_[1][3][2])
                            while col[0] in ("field", "payload"):
                                col = strip_refs(col[1])
                            item_fed = item_fed or (col[0] == "param" and col[1] >= 2)
                    if pt is None and roles and not any(fct[0] == "variant" for fct in sm.facts):
                        continue
                    for u in roles:
                        if pt is None or len(pt) != 1:
                            bad.append("a colour is chosen without an established point type (%s / %s)" % (pt, u))
                            continue
                        if table.get(pt[0], u) != u:
                            bad.append("%s scanlines get two different colours" % pt[0])
                        table[pt[0]] = u
            if not item_fed:
                bad.append("no closure of the pipeline fills with the colour of the item it is handed")
        rep.check(table == {"Stroke": "stroke", "Fill": "fill"} and not bad, "R01.1", "triangle:colour-by-type:" + key,
                  "scanlines of type Stroke must get the (effective) stroke colour and Fill the fill colour in %s; found %s %s" % (key, table, "; ".join(sorted(set(bad))[:2])), at=f.span, fn=f.path, detail=table)
    # stored colours
    ro = strip_refs(Origins(nw).return_origin())
    ok = ro[0] == "agg" and ro[2][fidx["fill_color"]] == ("field", P(2, "style"), field_index(prog, PS, "fill_color")) and match(ro[2][fidx["stroke_color"]], ("call", "*::effective_stroke_color", "_", (P(2, "style"),))) is not None
    rep.check(ok, "R01.1", "triangle:stored-colours", "the iterator must store style.fill_color and style.effective_stroke_color()", at=nw.span, fn=nw.path)


def _ty_of_discr(f, d):
    """Type of the place whose discriminant is read (best effort from the origin tree leaves)."""
    t = d[1]
    # walk to a param/field/call leaf and take local types by name is unreliable; use a textual hint instead
    for l in f.body["locals"]:
        ty = l["ty"]
        if isinstance(ty, dict) and str(ty.get("adt", "")).endswith("PointType"):
            return ty
    return None


def polyline(prog, rep):
    IT = PRIM + "polyline::styled::StyledPixelsIterator"
    nw = prog.method1(IT, "new", None)
    dt = prog.fn_by_path(PRIM + "polyline::styled::draw_thick")
    # call sites followed through helpers introduced by an edit (arguments expressed over the renderer's own parameters)
    from mirq.canon import Canon
    cn_ = Canon(prog)
    is_gen = lambda st: "scanline_iterator::ScanlineIterator" in (st.t["f"].get("resolved") or st.t["f"]).get("path", "")
    a1 = [st for st in cn_.sites(nw, "new") if is_gen(st)]
    a2 = [st for st in cn_.sites(dt, "new") if is_gen(st)]
    ok = len(a1) == 1 and len(a2) == 1 and [anon(strip_refs(x)) for x in a1[0].args] == [anon(strip_refs(x)) for x in a2[0].args] == [("param", 1, None), ("param", 2, None)]
    rep.check(ok, "R01.2", "polyline:generator-args", "thick polylines must be scanned by ScanlineIterator::new(polyline, style) in both renderers", at=dt.span, fn=dt.path)
    ds = [f for f in prog.fns.values() if f.name == "draw_styled" and (PRIM + "polyline::styled::") in f.id]
    if len(ds) != 1:
        rep.fail("R01.2", "polyline:draw", "draw_styled anchor lost", status="undecided")
        return
    ds = ds[0]
    org = Origins(ds)
    PL = PRIM + "polyline::Polyline"
    tr = ("field", P(1, "self"), field_index(prog, PL, "translate"))
    good = True
    n = 0
    from mirq.origin import dominating_guards
    for bi, a, t in sites(ds, "draw_thick", org):
        n += 1
        if a[0] != P(1, "self") or a[1] != P(2, "style"):
            good = False
        tgt = a[3]
        translated = match(tgt, ("call", "*::translated", "_", (P(3, "target"), tr)))
        gs = [(strip_refs(d), l) for d, l in dominating_guards(ds, org, bi)]
        nz = None
        for d, lit in gs:
            if d[0] == "call" and d[1].endswith("::ne") and tr in d[3]:
                nz = lit_truth(lit)
            if d[0] == "call" and d[1].endswith("::eq") and tr in d[3]:
                nz = not lit_truth(lit)
        if translated is not None:
            pass  # always fine: translating by zero is the identity
        elif tgt == P(3, "target"):
            good = good and nz is False  # untranslated target only when translate == zero
        else:
            good = False
    rep.check(good and n >= 1, "R01.2", "polyline:draw-translate", "draw() must draw thick polylines through target.translated(self.translate) unless translate is zero (pixels() adds `translate` to every point)", at=ds.span, fn=ds.path)
    # thin: draw_iter(points().map(|p| Pixel(p, stroke_color))) vs pixels(): Thin(primitive.points())
    s1 = sites(ds, "draw_iter", org)
    ok = len(s1) == 1 and match(s1[0][1][1], ("call", "*::map", "_", (("call", "*::points", "_", (P(1, "self"),)), "_"))) is not None
    rep.check(ok, "R01.2", "polyline:thin", "1 px polylines must be drawn from self.points() (as pixels() does)", at=ds.span, fn=ds.path)
    ro = strip_refs(Origins(nw).return_origin())
    thin = find(ro, ("agg", "*StyledIter::Thin", (("call", "*::points", "_", (P(1, "primitive"),)),)))
    thick = find(ro, ("agg", "*StyledIter::Thick", "?ops"))
    ok = bool(thin) and bool(thick) and any(op == ("field", P(1, "primitive"), field_index(prog, PL, "translate")) for op in thick[0][1]["?ops"])
    rep.check(ok, "R01.2", "polyline:pixels", "pixels() must iterate primitive.points() (thin) or the scanlines plus primitive.translate (thick)", at=nw.span, fn=nw.path)


def via_iterator(prog, rep):
    for shape in ("line", "arc", "sector"):
        ds = [f for f in prog.fns.values() if f.name == "draw_styled" and (PRIM + shape + "::styled::") in f.id]
        if len(ds) != 1:
            rep.fail("R01.2", shape + ":draw", "draw_styled anchor lost", status="undecided")
            continue
        f = ds[0]
        s = sites(f, "draw_iter")
        ok = len(s) == 1 and s[0][1][0] == P(3, "target") and match(s[0][1][1], ("call", "*StyledPixelsIterator::<C>::new", "_", (P(1, "self"), P(2, "style")))) is not None
        ro = strip_refs(Origins(f).return_origin())
        rep.check(ok, "R01.2", shape + ":draw-is-pixels", "draw() must be target.draw_iter(StyledPixelsIterator::new(self, style)) — the very iterator pixels() returns; found %s" % show(ro, maxd=4), at=f.span, fn=f.path)
        px = [g for g in prog.fns.values() if g.name == "pixels" and g.kind == "assoc_fn" and (PRIM + shape + "::styled::") in g.id]
        if len(px) == 1:
            ro = strip_refs(Origins(px[0]).return_origin())
            ok = match(ro, ("call", "*StyledPixelsIterator::<C>::new", "_", (P(1, "self"), P(2, "style")))) is not None
            rep.check(ok, "R01.2", shape + ":pixels", "pixels() must be StyledPixelsIterator::new(self, style); found %s" % show(ro, maxd=3), at=px[0].span, fn=px[0].path)


def scanline_rect(prog, rep):
    """R01.4 on path summaries (Scanline's own helpers is_empty / to_rectangle looked through): a non-empty scanline is
    one fill_solid of Rectangle(x.start, y, x.end - x.start, 1) in the given colour, an empty one draws nothing."""
    SC = PRIM + "common::scanline::Scanline"
    dr = prog.method1(SC, "draw", None)
    xs = ("field", P(1, "self"), field_index(prog, SC, "x"))
    y = ("field", P(1, "self"), field_index(prog, SC, "y"))
    P_ = Paths(prog, inline=lambda g: prog.is_new(g) or (g.name in ("is_empty", "to_rectangle") and g.path.startswith(SC)))
    rect = lambda w: ("call", "*Rectangle::new", "_", (("call", "*Point::new", "_", (("field", xs, 0), y)), ("call", "*Size::new", "_", (w, ("const", 1)))))
    width = ("bin", "Sub", ("field", xs, 1), ("field", xs, 0))
    empty = ("call", "*::is_empty", "_", (xs,))
    bad = []
    n_draw = 0
    try:
        summs = P_.of(dr)
    except Unsupported as e:
        summs = []
        bad.append("cannot summarise Scanline::draw: %s" % e)
    for sm in summs:
        fs = sm.facts
        is_e = [fct[0] == "true" for fct in fs if fct[0] in ("true", "false") and match(fct[1], empty) is not None]
        cs = [e[1] for e in sm.calls()]
        if cs:
            n_draw += 1
            ok = len(sm.effects) == 1 and cs[0][1].split("::")[-1] == "fill_solid" and cs[0][3][0] == P(2, "target") and cs[0][3][2] == P(3, "color") \
                and match(fold(cs[0][3][1]), rect(width)) is not None and passes_result(sm, cs[0]) and is_e and not any(is_e)
            if not ok:
                bad.append("a path draws %s when %s" % ("; ".join(show(c, maxd=5) for c in cs), "; ".join(show_fact(x) for x in fs) or "always"))
        else:
            if not (is_e and all(is_e)) or sm.ret != ("agg", "core::result::Result::Ok", (UNIT,)) or sm.effects:
                bad.append("nothing is drawn when %s (returns %s)" % ("; ".join(show_fact(x) for x in fs) or "always", show(sm.ret, maxd=3)))
    rep.check(not bad and n_draw >= 1, "R01.4", "Scanline::draw", "a scanline must be emitted as fill_solid(Rectangle(x.start, y, x.end - x.start, 1), color) iff it is not empty: %s" % "; ".join(sorted(set(bad))[:2]), at=dr.span, fn=dr.path)
    tr = prog.method1(SC, "to_rectangle", None)
    bad = []
    try:
        for sm in P_.of(tr):
            is_e = [fct[0] == "true" for fct in sm.facts if fct[0] in ("true", "false") and match(fct[1], empty) is not None]
            w = ("const", 0) if (is_e and all(is_e)) else width
            if not is_e or match(fold(sm.ret), rect(w)) is None:
                bad.append("%s when %s" % (show(fold(sm.ret), maxd=6), "; ".join(show_fact(x) for x in sm.facts) or "always"))
    except Unsupported as e:
        bad.append("cannot summarise: %s" % e)
    rep.check(not bad, "R01.4", "Scanline::to_rectangle", "to_rectangle must be Rectangle(x.start, y, x.end - x.start | 0 when empty, 1); found %s" % "; ".join(bad[:2]), at=tr.span, fn=tr.path)


def image_paths(prog, rep):
    """Image<T>::draw forwards to the image's draw on a target translated by the offset; ImageRaw::draw hands
    fill_contiguous its own bounding box together with a stream over the same image."""
    IM = "embedded_graphics::image::Image"
    dr = prog.method1(IM, "draw", "embedded_graphics_core::drawable::Drawable")
    off = ("field", P(1, "self"), field_index(prog, IM, "offset"))
    img = ("field", P(1, "self"), field_index(prog, IM, "image_drawable"))
    # must-pass-through on path summaries: EVERY path hands the drawable to target.translated(self.offset) and returns
    # that call's outcome — no early return that skips the drawing for some targets or offsets
    from mirq.paths import Paths as _P, Unsupported as _U, passes_result as _pr, show_fact as _sf
    ok, found = True, []
    try:
        summs = _P(prog, inline=lambda g: prog.is_new(g), local_effects=True).of(dr)   # the translated target may live in a local
        ok = len(summs) >= 1
        for sm in summs:
            cs = [e[1] for e in sm.effects if e[0] == "call" and e[1][1].split("::")[-1] == "draw"]
            if not cs and sm.ret is not None and sm.ret[0] == "call" and sm.ret[1].split("::")[-1] == "draw":
                cs = [sm.ret]      # the drawing call is the returned value itself
            others = [e for e in sm.effects if not (e[0] == "call" and e[1][1].split("::")[-1] in ("draw", "translated"))]
            good = len(cs) == 1 and not others and strip_refs(cs[0][3][0]) == img and (_pr(sm, cs[0]) or sm.ret[:4] == cs[0][:4]) and \
                any(match(n, ("call", "*::translated", "_", (("param", 2, "_"), off))) is not None for n in walk(cs[0][3][1]))
            if not good:
                ok = False
                found.append("when %s: %s" % ("; ".join(_sf(f_)[:60] for f_ in sm.facts[:3]) or "always", "; ".join(show(c, maxd=3) for c in cs) or "nothing is drawn"))
    except _U as e:
        ok, found = False, ["cannot summarise: %s" % e]
    rep.check(ok, "R01.5", "Image::draw", "Image::draw must draw the image drawable on target.translated(self.offset) on every path; %s" % "; ".join(found[:2]), at=dr.span, fn=dr.path)
    IR = "embedded_graphics::image::image_raw::ImageRaw"
    d2 = prog.method1(IR, "draw", "embedded_graphics_core::image::ImageDrawable")
    # path summaries with helpers introduced by an edit and the image's own bounding_box()/size() inlined: the one effect
    # is fill_contiguous(target, Rectangle(zero, self.size), ContiguousPixels::new(self, self.size, 0, skip)), returned
    from mirq.paths import Paths, Unsupported, passes_result
    size_f = ("field", P(1, "self"), field_index(prog, IR, "size"))
    box = ("call", "*Rectangle::new", "_", (("call", "*Point::zero", "_", ()), size_f))
    ok, s = True, []
    try:
        summs = Paths(prog, inline=lambda g: prog.is_new(g) or (g.name in ("bounding_box", "size") and g.kind == "assoc_fn")).of(d2)
        ok = len(summs) >= 1
        for sm in summs:
            fc = [e[1] for e in sm.effects if e[0] == "call" and e[1][1].split("::")[-1] == "fill_contiguous"]
            if len(fc) != 1 or len(sm.effects) != 1 or not passes_result(sm, fc[0]):
                ok = False
                continue
            a_ = [strip_refs(x) for x in fc[0][3]]
            s = [(None, a_)]
            m = match(a_[2], ("call", "*ContiguousPixels::<'a, C, O>::new", "_", ("?src", "?size", ("const", 0), "?skip")))
            if m is not None and not (strip_refs(m["?src"]) == P(1, "self") or strip_refs(m["?src"]) == ("field", P(1, "self"), field_index(prog, IR, "data"))):
                m = None
            is_size = lambda t: strip_refs(t) == size_f or match(strip_refs(t), ("call", "*OriginDimensions::size", "_", (P(1, "self"),))) is not None \
                or match(strip_refs(t), ("call", "*OriginDimensions>::size", "_", (P(1, "self"),))) is not None
            mb = match(a_[1], ("call", "*Rectangle::new", "_", (("call", "*Point::zero", "_", ()), "?bs")))
            is_box = (mb is not None and is_size(mb["?bs"])) or match(a_[1], ("call", "*::bounding_box", "_", (P(1, "self"),))) is not None
            ok = ok and a_[0] == P(2, "target") and is_box and m is not None and is_size(m["?size"])
    except Unsupported as e:
        ok = False
    # the image's size() is its stored size
    sz = prog.method1(IR, "size", "embedded_graphics_core::geometry::OriginDimensions")
    rep.check(strip_refs(Origins(sz).return_origin()) == size_f, "R01.5", "ImageRaw::size", "ImageRaw::size() must return the stored size", at=sz.span, fn=sz.path, nontrivial=False)
    rep.check(ok, "R01.5", "ImageRaw::draw", "ImageRaw::draw must be fill_contiguous(&self.bounding_box(), ContiguousPixels::new(self, self.size, 0, row_skip)); found %s" % ([show(x, maxd=4) for x in s[0][1][1:]] if s else "?"), at=d2.span, fn=d2.path)


def triangle_pixels_end(prog, rep):
    """R01.6 draw() of a styled triangle skips the scanlines whose colour role is absent (a stroke width without a stroke
    colour, a border without fill) and goes on; pixels() must do the same: StyledPixelsIterator::next ends the iteration
    (returns None) only on paths on which the scanline source `lines_iter.next()` is exhausted — not because the colour of
    the *current* scanline is None, later scanlines may have one."""
    from mirq.paths import Paths, Unsupported, show_fact
    IT = PRIM + "triangle::styled::StyledPixelsIterator"
    nx = prog.method1(IT, "next", "core::iter::traits::iterator::Iterator")
    fidx = {f["name"]: i for i, f in enumerate(prog.adts[IT]["variants"][0]["fields"])}
    src = ("field", P(1, "self"), fidx["lines_iter"])
    try:
        summs = Paths(prog, inline=lambda g: prog.is_new(g), loops="once", havoc=True).of(nx)
    except Unsupported as e:
        rep.fail("R01.6", "triangle:pixels-end", "cannot summarise: %s" % e, status="undecided", at=nx.span, fn=nx.path)
        return
    bad, n = [], 0
    for sm in summs:
        if sm.ret != ("agg", "core::option::Option::None", ()):
            continue
        n += 1
        exhausted = any(fc[0] == "variant" and fc[2] == ("None",) and strip_refs(fc[1])[0] == "call" and strip_refs(fc[1])[1].split("::")[-1] == "next"
                        and any(strip_refs(x) == src for x in walk(fc[1])) for fc in sm.facts)
        if not exhausted:
            bad.append("the iteration ends when %s" % ("; ".join(show_fact(x)[:70] for x in sm.facts[:3]) or "always"))
    rep.check(not bad and n >= 1, "R01.6", "triangle:pixels-end", "pixels() of a styled triangle must end only when its scanline source is exhausted (draw() skips colourless scanlines and goes on): %s" % ("; ".join(sorted(set(bad))[:2]) or "no ending path found"),
              at=nx.span, fn=nx.path, detail={"ending_paths": n})
