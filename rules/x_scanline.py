"""Shared pack: R01.4 a scanline is one fill_solid iff it is not empty (C08: an empty scanline must not reach the width
subtraction; every scanline renderer goes through it)."""
from rules import c01


def run(ctx, rep):
    c01.scanline_rect(ctx.program("default"), rep)
