"""C11 — raw pixel load/store and iteration round-trip in both data orders (structural part)."""
import re
from fractions import Fraction
from mirq import ty_str
from mirq.cfg import CFG
from mirq.depend import Dependence
from mirq.origin import Origins, show, walk, dominating_guards, lit_truth, decisions, calls_in
from mirq.paths import Paths, Unsupported, variant_of, ptr_root, show_fact, show_eff
from mirq.pat import strip_refs

LOADSTORE = "embedded_graphics_core::pixelcolor::raw::load_store::LoadStore"
DATAORDER = "embedded_graphics_core::pixelcolor::raw::DataOrder"
ALT = "embedded_graphics_core::pixelcolor::raw::DataOrder::IS_ALTERNATE_ORDER"
BPP = "embedded_graphics_core::pixelcolor::raw::RawData::BITS_PER_PIXEL"
RAW_BITS = {"RawU1": 1, "RawU2": 2, "RawU4": 4, "RawU8": 8, "RawU16": 16, "RawU24": 24, "RawU32": 32}
ENDIAN_FNS = {"from_le_bytes": "le", "from_be_bytes": "be", "to_le_bytes": "le", "to_be_bytes": "be",
              "from_ne_bytes": "ne", "to_ne_bytes": "ne", "swap_bytes": "swap", "to_be": "be", "to_le": "le", "from_be": "be", "from_le": "le"}


def fn_family(prog, f):
    """f plus its (transitive) closures and the helpers new to the tree that it uses (a closure turned into a named fn)."""
    out = [f]
    i = 0
    while i < len(out):
        out.extend(prog.closures_of.get(out[i].id, []))
        if i == 0:
            for h in prog.new_helpers_of(f):
                if h not in out:
                    out.append(h)
        i += 1
    return out


def short_raw(impl):
    return impl["self_ty"]["adt"].split("::")[-1]


def order_param(impl):
    ta = impl.get("trait_args", [])
    if len(ta) >= 2 and isinstance(ta[1], dict) and "param" in ta[1]:
        return ta[1]["param"]
    return None


def endian_map(prog, f):
    """{(order_literal: True|False|None) -> set(endianness)} over f and its closures,
    plus constant index ranges used under each literal."""
    em = {}
    ranges = {}
    for g in fn_family(prog, f):
        org = Origins(g)
        for bi in sorted(org.cfg.live_blocks()):
            blk = g.body["blocks"][bi]
            t = blk["t"]
            guards = None

            def branch():
                nonlocal guards
                if guards is None:
                    guards = dominating_guards(g, org, bi)
                for d, lit in guards:
                    if d[0] == "const" and isinstance(d[1], str) and d[1].startswith(ALT):
                        return lit_truth(lit)
                return "uncond"
            if t and t["k"] == "call":
                nm = t["f"].get("name")
                p = t["f"].get("path", "")
                if nm in ENDIAN_FNS and p.startswith("core::num::"):
                    em.setdefault(branch(), set()).add(ENDIAN_FNS[nm])
            for s in blk["s"]:
                if s["k"] == "assign" and s["rv"]["k"] == "agg" and str(s["rv"].get("adt", "")).startswith("core::ops::range::Range"):
                    ops = s["rv"]["ops"]
                    if len(ops) == 2 and all("const" in o and isinstance(o["const"].get("v"), int) for o in ops):
                        ranges.setdefault(branch(), set()).add((ops[0]["const"]["v"], ops[1]["const"]["v"]))
    return em, ranges


def run(ctx, rep):
    prog = ctx.program("default")
    rep.configs.append(getattr(ctx, "alias", "default"))
    dep = Dependence(prog)
    impls = [i for i in prog.impls.values() if i.get("trait") == LOADSTORE]
    rep.floor("R11", "LoadStore impls", len(impls), 7)

    # DataOrder constants: the documented meaning of the two orders
    consts = {}
    for i in prog.impls_of_trait(DATAORDER):
        consts[i["self_ty"]["adt"].split("::")[-1]] = i["consts"].get("IS_ALTERNATE_ORDER", {}).get("v")
    rep.check(consts.get("LittleEndianMsb0") is False and consts.get("BigEndianLsb0") is True and len(consts) == 2,
              "R11.2", "dataorder-consts", "DataOrder::IS_ALTERNATE_ORDER must be false for LittleEndianMsb0 and true for BigEndianLsb0 (got %r)" % consts,
              detail=consts)

    for impl in sorted(impls, key=short_raw):
        raw = short_raw(impl)
        bits = RAW_BITS.get(raw)
        O = order_param(impl)
        if O is None or "load" not in impl["fns"] or "store" not in impl["fns"] or bits is None:
            rep.fail("R11.1", raw, "LoadStore impl has an unexpected shape (no generic order parameter / missing fn)", status="undecided")
            continue
        load, store = prog.fns[impl["fns"]["load"]], prog.fns[impl["fns"]["store"]]
        lu, su = dep.fn_uses(load, O), dep.fn_uses(store, O)
        rep.check(lu == su, "R11.1", raw,
                  "`load` %s the data order parameter %s but `store` %s: by parametricity one of the two orders cannot round-trip"
                  % ("depends on" if lu else "ignores", O, "depends on it" if su else "ignores it"),
                  at=store.span, fn=store.path,
                  detail={"load_uses": sorted(dep.uses[load.id]), "store_uses": sorted(dep.uses[store.id]),
                          "why_load": dep.why[load.id].get(O), "why_store": dep.why[store.id].get(O)})
        rep.sample({"rule": "R11.1", "raw": raw, "load_depends_on_order": lu, "store_depends_on_order": su})
        # multi-byte: order dependence is required (two byte orders differ)
        if bits > 8:
            rep.check(lu, "R11.1", raw + ":load-uses-order", "multi-byte `load` ignores the data order", at=load.span, fn=load.path)
        if bits < 8:
            rep.check(lu, "R11.1", raw + ":load-uses-order", "sub-byte `load` ignores the data order (bit order)", at=load.span, fn=load.path)
        # R11.2 pairing
        if bits > 8:
            lem, lr = endian_map(prog, load)
            sem, sr = endian_map(prog, store)
            want = {True: {"be"}, False: {"le"}}
            rep.check(lem == want, "R11.2", raw + ":load", "load must decode big-endian under IS_ALTERNATE_ORDER and little-endian otherwise; found %r" % _fmt(lem),
                      at=load.span, fn=load.path, detail=_fmt(lem))
            rep.check(sem == want, "R11.2", raw + ":store", "store must encode big-endian under IS_ALTERNATE_ORDER and little-endian otherwise (mirror of load); found %r" % _fmt(sem),
                      at=store.span, fn=store.path, detail=_fmt(sem))
            if bits == 24:
                # the three used bytes of the 4-byte value: [0..3] little endian, [1..4] big endian
                def sub(r):
                    return {k: {x for x in v if x in ((0, 3), (1, 4))} for k, v in r.items() if {x for x in v if x in ((0, 3), (1, 4))}}
                lw = {True: {(1, 4)}, False: {(0, 3)}}
                # load additionally slices the 3 input bytes with get(0..3) unconditionally
                l3 = sub(lr)
                l3.pop("uncond", None)
                rep.check(l3 == lw, "R11.2", raw + ":load-subrange", "RawU24 load must place the 3 bytes at [1..4] (BE) / [0..3] (LE) of the 4-byte value; found %r" % _fmt(l3),
                          at=load.span, fn=load.path)
                s3 = sub(sr)
                s3.pop("uncond", None)
                rep.check(s3 == lw, "R11.2", raw + ":store-subrange", "RawU24 store must take bytes [1..4] (BE) / [0..3] (LE) of the 4-byte value; found %r" % _fmt(sub(sr)),
                          at=store.span, fn=store.path)

    try:
        layout = check_subbyte_layout(prog, rep, impls)
    except Exception as e:
        import traceback; traceback.print_exc()
        rep.fail('R11.8', 'layout-engine', 'layout analysis crashed: %r' % (e,), status='undecided')
        layout = {}
    layout_ok = bool(layout) and all(layout.values())
    # ---- R11.5-lite: documented sub-byte bit position (bit_position) -------------------------
    try:
        bp = prog.fn_by_path("embedded_graphics_core::pixelcolor::raw::load_store::bit_position")
        decs = decisions(bp)
        table = {}
        for lits, ret, _ in decs:
            key = None
            for d, lit in lits:
                if d[0] == "const" and isinstance(d[1], str) and d[1].startswith(ALT):
                    key = lit_truth(lit)
            table[key] = ret
        ok = set(table) == {True, False}
        if ok:
            for bits in (1, 2, 4):
                for alt in (True, False):
                    ppb = 8 // bits
                    for idx in range(0, 2 * ppb):
                        v = _eval_int(table[alt], {"index": idx, BPP: bits})
                        exp_bit = (idx % ppb) * bits if alt else (ppb - 1 - idx % ppb) * bits
                        if v != (idx // ppb, exp_bit):
                            ok = False
                            rep.fail("R11.5", "bit_position:%dbpp:%s" % (bits, "alt" if alt else "std"),
                                     "bit position of pixel %d is %r, documented layout needs %r" % (idx, v, (idx // ppb, exp_bit)),
                                     at=bp.span, fn=bp.path, detail=show(table[alt]))
                            break
        else:
            rep.fail("R11.5", "bit_position", "bit_position no longer branches on IS_ALTERNATE_ORDER", status="undecided", at=bp.span, fn=bp.path)
        if ok:
            rep.ok("R11.5", "bit_position", detail={"alt": show(table[True]), "std": show(table[False])}, at=bp.span, fn=bp.path)
            rep.sample({"rule": "R11.5", "bit_position_alt": show(table[True]), "bit_position_std": show(table[False])})
        # sub-byte load/store use bit_position with (Self, O)
        for impl in impls:
            raw = short_raw(impl)
            if RAW_BITS.get(raw, 8) >= 8:
                continue
            for nm in ("load", "store"):
                f = prog.fns[impl["fns"][nm]]
                cs = [t for _, t in _calls(f) if (t["f"].get("resolved") or t["f"]).get("path") == bp.path]
                good = len(cs) == 1 and ty_str(cs[0]["f"]["args"][0]).endswith(raw) and ty_str(cs[0]["f"]["args"][1]) == order_param(impl)
                rep.check(good, "R11.5", "%s:%s-uses-bit_position" % (raw, nm), "sub-byte %s must derive its position from bit_position::<Self, O>(index)" % nm, at=f.span, fn=f.path)
    except Exception as e:
        if layout_ok and "matches 0 functions" in repr(e):
            # the helper is gone (renamed / split / inlined): the documented positions are decided by the layout form of
            # R11.8 on load and store themselves
            rep.ok("R11.5", "bit_position", detail="no bit_position helper; the documented bit positions are decided by R11.8 (layout form)")
        else:
            rep.fail("R11.5", "bit_position", "cannot analyse bit_position: %r" % (e,), status="undecided")

    try:
        check_slots(prog, rep, impls)
    except Exception as e:
        import traceback; traceback.print_exc()
        rep.fail('R11.7', 'engine', 'slot analysis crashed: %r' % (e,), status='undecided')
    check_iterator(prog, rep)
    try:
        check_iterator_construction(prog, rep)
    except Exception as e:
        import traceback; traceback.print_exc()
        rep.fail('R11.6', 'construction-engine', 'iterator construction analysis crashed: %r' % (e,), status='undecided')
    try:
        check_front_end(prog, rep)
    except Exception as e:
        import traceback; traceback.print_exc()
        rep.fail('R11.9', 'engine', 'front end analysis crashed: %r' % (e,), status='undecided')
    try:
        check_subbyte_values(prog, rep, impls, layout)
    except Exception as e:
        import traceback; traceback.print_exc()
        rep.fail('R11.8', 'engine', 'bit-level analysis crashed: %r' % (e,), status='undecided')


def _calls(f):
    for i, b in enumerate(f.body["blocks"]):
        t = b["t"]
        if t and t["k"] == "call":
            yield i, t


def _fmt(m):
    return {str(k): sorted(v) for k, v in m.items()}


def _eval_int(t, env):
    """Concrete evaluation of a closed integer origin tree (constant table lookups only)."""
    k = t[0]
    if k == "const":
        v = t[1]
        if isinstance(v, bool):
            return int(v)
        if isinstance(v, int):
            return v
        for name, val in env.items():
            if isinstance(v, str) and v.startswith(name):
                return val
        raise ValueError("const " + repr(v))
    if k == "param":
        return env[t[2]]
    if k == "agg" and t[1] == "tuple":
        return tuple(_eval_int(x, env) for x in t[2])
    if k == "bin":
        a, b = _eval_int(t[2], env), _eval_int(t[3], env)
        op = t[1]
        return {"Add": lambda: a + b, "Sub": lambda: a - b, "Mul": lambda: a * b, "Div": lambda: a // b, "Rem": lambda: a % b,
                "Shl": lambda: a << b, "Shr": lambda: a >> b, "BitAnd": lambda: a & b, "BitOr": lambda: a | b}[op]()
    raise ValueError("node " + k)


# ---- iterator rules (R11.3, R11.6) -----------------------------------------------------------
ITER = "embedded_graphics::iterator::raw::RawDataIterator"


def lin(t, fields):
    """Rational-linear abstraction of a usize tree in `len`: returns Fraction coefficient k such
    that value = floor-ish(k * len) (Mul/Div by constants only), or None."""
    k = t[0]
    if k == "call" and t[1].endswith("<impl [T]>::len"):
        return Fraction(1)
    if k == "const" and isinstance(t[1], int) and not isinstance(t[1], bool):
        return ("c", Fraction(t[1]))
    if k == "bin":
        a, b = lin(t[2], fields), lin(t[3], fields)
        if a is None or b is None:
            return None
        ac, bc = isinstance(a, tuple), isinstance(b, tuple)
        op = t[1]
        if ac and bc:
            x, y = a[1], b[1]
            if op == "Mul":
                return ("c", x * y)
            if op == "Div":
                return ("c", Fraction(int(x) // int(y))) if y != 0 else None
            if op == "Add":
                return ("c", x + y)
            if op == "Sub":
                return ("c", x - y)
            return None
        if op == "Mul":
            return a * b[1] if bc else (b * a[1] if ac else None)
        if op == "Div" and bc and b[1] != 0:
            return a / b[1]
    return None


def subst_const(t, name, val):
    from mirq.origin import subst
    return subst(t, lambda n: ("const", val) if n[0] == "const" and isinstance(n[1], str) and n[1].startswith(name) else None)


def _fact_holds(f, bits):
    """truth of a fact over constants once BITS_PER_PIXEL is known (None: not such a fact)"""
    if f[0] not in ("lt", "le", "eq", "ne"):
        return None
    try:
        a = _eval_int(subst_const(f[1], BPP, bits), {})
        b = _eval_int(subst_const(f[2], BPP, bits), {})
    except (ValueError, KeyError, ZeroDivisionError):
        return None
    return {"lt": a < b, "le": a <= b, "eq": a == b, "ne": a != b}[f[0]]


def lin_len(t):
    """like lin() but len may be spelled PtrMetadata(self.data)"""
    from mirq.origin import subst
    t = subst(t, lambda n: ("call", "core::slice::<impl [T]>::len", (), (n[2],)) if n[0] == "un" and n[1] == "PtrMetadata" else None)
    return lin(t, None)


def check_iterator(prog, rep):
    """R11.3 / R11.6 on path summaries: what next(), nth() and size_hint() do on each of their paths."""
    adt = prog.adts.get(ITER)
    if not adt:
        rep.fail("R11.6", "anchor", "RawDataIterator not found", status="undecided")
        return
    fidx = {f["name"]: i for i, f in enumerate(adt["variants"][0]["fields"])}
    I_DATA, I_INDEX = fidx.get("data"), fidx.get("index")
    it_trait = "core::iter::traits::iterator::Iterator"
    nxt = prog.method1(ITER, "next", it_trait)
    nth = prog.method1(ITER, "nth", it_trait)
    sh = prog.method1(ITER, "size_hint", it_trait)
    self_index = ("field", ("param", 1, "self"), I_INDEX)
    self_data = ("field", ("param", 1, "self"), I_DATA)
    P = Paths(prog)

    # R11.3 size_hint
    try:
        summs = P.of(sh)
    except Unsupported as e:
        summs = None
        rep.fail("R11.3", "size_hint", "cannot summarise size_hint: %s" % e, status="undecided", at=sh.span, fn=sh.path)
    ok_all = summs is not None
    for raw, bits in sorted(RAW_BITS.items(), key=lambda kv: kv[1]) if summs is not None else []:
        key = "size_hint:" + raw
        chosen = []
        undecidable = False
        split = None
        for sm in summs:
            tv = [_fact_holds(f, bits) for f in sm.facts]
            data = [f for f, v in zip(sm.facts, tv) if v is None]
            if data and not all(f[0] in ("lt", "le") and self_index in (strip_refs(f[1]), strip_refs(f[2])) for f in data):
                undecidable = True
            elif all(v for v in tv if v is not None):
                chosen.append((sm, data))
        if not undecidable and len(chosen) == 2 and all(len(d) == 1 for _, d in chosen):
            # `match total.checked_sub(self.index) { Some(n) => n, None => 0 }` and friends: the two-path spelling of
            # total.saturating_sub(self.index)
            zero = [(sm, d[0]) for sm, d in chosen if d[0][0] == "lt" and strip_refs(d[0][2]) == self_index]
            rest = [(sm, d[0]) for sm, d in chosen if d[0][0] == "le" and strip_refs(d[0][1]) == self_index]
            if len(zero) == 1 and len(rest) == 1 and strip_refs(zero[0][1][1]) == strip_refs(rest[0][1][2]):
                total = rest[0][1][2]
                z, r_ = subst_const(zero[0][0].ret, BPP, bits), subst_const(rest[0][0].ret, BPP, bits)
                zero_ok = z == ("agg", "tuple", (("const", 0), ("agg", "core::option::Option::Some", (("const", 0),))))
                diff = ("bin", "Sub", subst_const(total, BPP, bits), self_index)
                rest_ok = r_[0] == "agg" and r_[1] == "tuple" and len(r_[2]) == 2 and strip_refs(r_[2][0]) == diff and r_[2][1] == ("agg", "core::option::Option::Some", (r_[2][0],))
                if zero_ok and rest_ok and not zero[0][0].effects and not rest[0][0].effects:
                    sat = ("call", "core::num::<impl usize>::saturating_sub", (), (total, self_index))
                    split = ("agg", "tuple", (sat, ("agg", "core::option::Option::Some", (sat,))))
        if split is None:
            chosen = [sm for sm, d in chosen if not d]
        if split is None and (undecidable or len(chosen) != 1):
            rep.fail("R11.3", key, "cannot select the size_hint path for %d bpp (%d candidates)" % (bits, len(chosen)), status="undecided", at=sh.span, fn=sh.path)
            ok_all = False
            continue
        ret = subst_const(split if split is not None else chosen[0].ret, BPP, bits)
        good = ret[0] == "agg" and ret[1] == "tuple" and len(ret[2]) == 2 and (split is not None or not chosen[0].effects)
        size = ret[2][0] if good else None
        upper = ret[2][1] if good else None
        good = good and upper[0] == "agg" and upper[1].endswith("Option::Some") and upper[2][0] == size
        coeff = None
        if good:
            good = size[0] == "call" and size[1].endswith("saturating_sub") and size[3][1] == self_index
            if good:
                coeff = lin_len(size[3][0])
        want = Fraction(8, bits)
        if not good:
            rep.fail("R11.3", key, "size_hint must return (n, Some(n)) with n = pixels_total.saturating_sub(self.index); found %s" % show(ret),
                     status="undecided", at=sh.span, fn=sh.path)
            ok_all = False
        elif coeff != want:
            rep.fail("R11.3", key, "pixels_total for %d bpp is %s × data.len(), expected %s × data.len() (bounds that do not follow the buffer length cannot bracket the remaining items)"
                     % (bits, coeff if not isinstance(coeff, tuple) else "constant %s" % coeff[1], want), at=sh.span, fn=sh.path, detail=show(size))
            ok_all = False
        else:
            rep.ok("R11.3", key, detail="pixels_total = %s * len" % want, at=sh.span, fn=sh.path)
    if ok_all:
        rep.sample({"rule": "R11.3", "size_hint": "pixels_total = (8/bpp) * len for all 7 raw types"})

    # R11.6 next(): on every path the item is R::load::<O>(self.data, self.index); index += 1 exactly on the Some paths
    def is_load(t):
        return t[0] == "call" and t[1].endswith("RawData::load") and len(t[3]) == 2
    try:
        summs = P.of(nxt)
    except Unsupported as e:
        summs = []
        rep.fail("R11.6", "next:load", "cannot summarise next(): %s" % e, status="undecided", at=nxt.span, fn=nxt.path)
    bad_load, bad_adv = [], []
    loads = set()
    for sm in summs:
        ls = [f for f in sm.facts if f[0] == "variant" and is_load(f[1])]
        for f in ls:
            loads.add(f[1])
        vo = variant_of(sm.ret)
        if len(ls) != 1 or vo is None:
            bad_load.append("a path of next() does not return the outcome of one load: returns %s" % show(sm.ret, maxd=4))
            continue
        L, names = ls[0][1], ls[0][2]
        if L[3] != (self_data, self_index) or tuple(L[2]) != ("R", "O"):
            bad_load.append("next() loads %s" % show(L, maxd=4))
        if names == ("None",):
            if vo[1] != "None":
                bad_load.append("load returned None but next() returns %s" % show(sm.ret, maxd=4))
            if sm.effects:
                bad_adv.append("index is modified although load returned None")
        elif names == ("Some",):
            if sm.ret != ("agg", "core::option::Option::Some", (("payload", L),)):
                bad_load.append("load returned Some but next() returns %s" % show(sm.ret, maxd=4))
            w = sm.writes()
            okw = len(sm.effects) == 1 and len(w) == 1 and w[0][1] == self_index and w[0][2] in (("bin", "Add", ("const", 1), self_index), ("bin", "Add", self_index, ("const", 1)))
            if not okw:
                bad_adv.append("on the Some path the effects are [%s]" % "; ".join(show_eff(e) for e in sm.effects))
        else:
            bad_load.append("a path does not distinguish Some from None")
    if summs:
        rep.check(not bad_load and len(loads) == 1, "R11.6", "next:load", "next() must return R::load::<O>(self.data, self.index): " + "; ".join(sorted(set(bad_load))[:3]), at=nxt.span, fn=nxt.path)
        rep.check(not bad_adv, "R11.6", "next:advance", "next() must advance index by exactly 1 and only when load returned Some: " + "; ".join(sorted(set(bad_adv))[:3]), at=nxt.span, fn=nxt.path)

    # nth: self.index = self.index.saturating_add(n) on every path, then next()
    try:
        summs = P.of(nth)
    except Unsupported as e:
        summs = []
        rep.fail("R11.6", "nth:advance", "cannot summarise nth(): %s" % e, status="undecided", at=nth.span, fn=nth.path)
    n_param = ("param", 2, "n")
    good, good2, seen = bool(summs), bool(summs), []
    for sm in summs:
        w = sm.writes()
        seen += [show_eff(e) for e in sm.effects]
        okw = len(w) == 1 and w[0][1] == self_index and w[0][2][0] == "call" and w[0][2][1].endswith("saturating_add") and set(w[0][2][3]) == {self_index, n_param}
        if not okw and len(w) == 1 and w[0][1] == self_index:
            # the two-path spelling of the saturating addition (`match index.checked_add(n) { Some(s) => s, None => MAX }`)
            top = ("const", (1 << 64) - 1)
            sm_add = [("bin", "Add", self_index, n_param), ("bin", "Add", n_param, self_index)]
            over = any(fc[0] == "lt" and fc[1] == top and fc[2] in sm_add for fc in sm.facts)
            fits = any(fc[0] == "le" and fc[2] == top and fc[1] in sm_add for fc in sm.facts)
            okw = (over and w[0][2][0] == "const" and w[0][2][1] in (top[1], "#%d" % top[1])) or (fits and w[0][2] in sm_add)
        calls = sm.calls()
        okc = len(calls) == 1 and (calls[0][1][1].endswith("Iterator>::next") or calls[0][1][1] == nxt.path) and ptr_root(calls[0][1])[:2] == ("param", 1)
        order = okw and okc and sm.effects.index(w[0]) < sm.effects.index(calls[0])
        good = good and okw and len(sm.effects) == 2 and order
        good2 = good2 and okc and sm.ret[0] == "call" and sm.ret[:4] == calls[0][1][:4]
    rep.check(good, "R11.6", "nth:advance", "nth(n) must add n (saturating) to index on every path, also when it overshoots the data, before calling next(); found %s" % seen[:4], at=nth.span, fn=nth.path)
    rep.check(good2, "R11.6", "nth:then-next", "nth(n) must return self.next() after skipping; found %s" % [show(sm.ret, maxd=3) for sm in summs][:3], at=nth.span, fn=nth.path)
    rep.sample({"rule": "R11.6", "nth_effects": seen[:4]})


# ---- R11.7 slot agreement: which bytes are selected, and when the access is rejected -------------
class Undecided(Exception):
    pass


def _lin(t, bits):
    """usize tree -> ('lin', k, d, c): k*(index div d) + c  (d=1 for plain index)."""
    k = t[0]
    if k == "param" and t[2] == "index":
        return (1, 1, 0)
    if k == "const":
        v = t[1]
        if isinstance(v, int) and not isinstance(v, bool):
            return (0, 1, v)
        if isinstance(v, str) and v.startswith(BPP):
            return (0, 1, bits)
        raise Undecided("const %r" % (v,))
    if k == "bin":
        op = t[1]
        a, b = _lin(t[2], bits), _lin(t[3], bits)
        if op == "Add":
            if a[0] and b[0] and a[1] != b[1]:
                raise Undecided("mixed divisors")
            return (a[0] + b[0], a[1] if a[0] else b[1], a[2] + b[2])
        if op == "Sub" and b[0] == 0:
            return (a[0], a[1], a[2] - b[2])
        if op == "Mul":
            if a[0] == 0:
                return (b[0] * a[2], b[1], b[2] * a[2])
            if b[0] == 0:
                return (a[0] * b[2], a[1], a[2] * b[2])
        if op == "Div" and b[0] == 0 and b[2] != 0:
            if a[0] == 0:
                return (0, 1, a[2] // b[2])
            if a == (1, 1, 0):
                return (1, b[2], 0)
        raise Undecided("arith %s" % op)
    if k == "payload":
        inner = t[1]
        if inner[0] == "call" and inner[1].endswith("::checked_mul"):
            return _lin(("bin", "Mul", inner[3][0], inner[3][1]), bits)
        if inner[0] == "call" and inner[1].endswith("::checked_add"):
            return _lin(("bin", "Add", inner[3][0], inner[3][1]), bits)
        raise Undecided("payload of %s" % show(inner, maxd=3))
    if k == "cast":
        return _lin(t[1], bits)
    if k == "field" and t[2] == 0 and t[1][0] == "variant" and t[1][2] in ("Continue", "Some", "Ok"):
        # payload of `x.checked_mul(c)?` / `.ok_or(..)?`: the product itself (overflow = rejection, handled by the caller)
        inner = t[1][1]
        while inner[0] == "call" and (inner[1].endswith("Try>::branch") or inner[1].endswith("::ok_or")):
            inner = inner[3][0]
        if inner[0] == "call" and inner[1].endswith("::checked_mul"):
            return _lin(("bin", "Mul", inner[3][0], inner[3][1]), bits)
        if inner[0] == "call" and inner[1].endswith("::checked_add"):
            return _lin(("bin", "Add", inner[3][0], inner[3][1]), bits)
        raise Undecided("payload of %s" % show(inner, maxd=3))
    if k == "field" and t[1][0] == "call" and t[1][1].endswith("load_store::bit_position") and t[2] == 0:
        # byte index of bit_position (its table is checked by R11.5): index / (8 / bpp)
        return (1, 8 // bits, 0)
    if k == "call" and t[1].endswith("::len") and len(t[3]) == 1:
        n = _static_len(strip_refs(t[3][0]))
        if n is not None:
            return (0, 1, n)
    raise Undecided("index expression %s" % show(t))


def _static_len(a):
    """length of a byte sequence whose size is fixed by its type: uN::to_{be,le,ne}_bytes, a constant sub-range of one"""
    if a[0] == "call" and a[1].split("::")[-1] in ("to_be_bytes", "to_le_bytes", "to_ne_bytes"):
        m = re.search(r"impl [ui](\d+)>", a[1])
        return int(m.group(1)) // 8 if m else None
    if a[0] == "call" and a[1].split("::")[-1] in ("index", "index_mut") and len(a[3]) == 2:
        r = strip_refs(a[3][1])
        if r[0] == "agg" and str(r[1]).endswith("Range::Range") and all(x[0] == "const" and isinstance(x[1], int) for x in r[2]):
            n = _static_len(strip_refs(a[3][0]))
            if n is not None and 0 <= r[2][0][1] <= r[2][1][1] <= n:
                return r[2][1][1] - r[2][0][1]
    return None


def _add(a, b):
    if a[0] and b[0] and a[1] != b[1]:
        raise Undecided("mixed divisors")
    return (a[0] + b[0], a[1] if a[0] else b[1], a[2] + b[2])


def _max(a, b):
    if (a[0], a[1] if a[0] else 1) == (b[0], b[1] if b[0] else 1):
        return a if a[2] >= b[2] else b
    if a[0] == 0 and b[0] > 0 and a[2] <= b[2]:
        return b
    if b[0] == 0 and a[0] > 0 and b[2] <= a[2]:
        return a
    raise Undecided("incomparable requirements %r %r" % (a, b))


def slot(t, bits):
    """-> (offset, length, required): byte offset (linear in index), length (int | 'rest'),
    minimal buffer length for the access to succeed (linear in index)."""
    k = t[0]
    if k == "param" and t[2] == "buffer":
        return ((0, 1, 0), "rest", (0, 1, 0))
    if k in ("payload", "deref", "ref"):
        return slot(t[1], bits)
    if k == "comb" and t[1] in ("and_then",):
        return slot(t[3], bits)
    if k == "call":
        p = t[1]
        a = t[3]
        if p.endswith("::ok_or") or p.endswith("::copied") or p.endswith("::cloned"):
            return slot(a[0], bits)
        if p.endswith("<impl [T]>::get") or p.endswith("<impl [T]>::get_mut"):
            off, ln, req = slot(a[0], bits)
            idx = a[1]
            if idx[0] == "agg" and idx[1].endswith("RangeFrom::RangeFrom"):
                e = _lin(idx[2][0], bits)
                return (_add(off, e), "rest", _max(req, _add(off, e)))
            if idx[0] == "agg" and idx[1].endswith("Range::Range"):
                s, e = _lin(idx[2][0], bits), _lin(idx[2][1], bits)
                ln = e[2] - s[2] if s[0] == e[0] else None
                if ln is None:
                    raise Undecided("range length")
                return (_add(off, s), ln, _max(req, _add(off, e)))
            e = _lin(idx, bits)
            return (_add(off, e), 1, _max(req, _add(off, (e[0], e[1], e[2] + 1))))
        if p.endswith("Iterator::nth") or p.endswith("::nth"):
            inner = a[0]
            while inner[0] in ("ref", "deref"):
                inner = inner[1]
            if inner[0] == "call" and inner[1].split("::")[-1] in ("chunks", "chunks_mut", "chunks_exact", "chunks_exact_mut"):
                off, ln, req = slot(inner[3][0], bits)
                n = _lin(inner[3][1], bits)
                i = _lin(a[1], bits)
                if n[0] or i[1] != 1:
                    raise Undecided("chunk size")
                step = (i[0] * n[2], 1, i[2] * n[2])
                exact = "exact" in inner[1].split("::")[-1]
                need = _add(_add(off, step), (0, 1, n[2] if exact else 1))
                return (_add(off, step), n[2] if exact else "min(%d,rest)" % n[2], _max(req, need))
    raise Undecided("slot expression %s" % show(t, maxd=6))


def expected_slot(bits):
    if bits < 8:
        d = 8 // bits
        return ((1, d, 0), 1, (1, d, 1))
    n = bits // 8
    return ((n, 1, 0), n, (n, 1, n))


def fmt_lin(l):
    k, d, c = l
    s = ""
    if k:
        s = ("%d*" % k if k != 1 else "") + ("index" if d == 1 else "(index/%d)" % d)
    if c or not s:
        s += ("+" if s else "") + str(c)
    return s


def _len_of(t):
    """buffer.len(): PtrMetadata in MIR, a call in older forms"""
    return (t[0] == "un" and t[1] == "PtrMetadata" and t[2][0] == "param" and t[2][2] == "buffer") or \
           (t[0] == "call" and t[1].endswith("<impl [T]>::len") and t[3] and t[3][0][0] == "param" and t[3][0][2] == "buffer")


def _is_access(t):
    """a slice access rooted in `buffer`"""
    if t[0] != "call":
        return False
    n = t[1].split("::")[-1]
    if n in ("get", "get_mut", "nth", "index", "index_mut", "split_at", "split_at_mut", "first", "last", "get_unchecked", "get_unchecked_mut"):
        r = ptr_root(t)
        return r[0] == "param" and r[2] == "buffer"
    return False


def check_slots(prog, rep, impls):
    """R11.7 on path summaries (mirq.paths): every way load/store can return is classified as accepting or rejecting;
    accepting paths must have established exactly the pixel's own byte slot, rejecting paths must have no effect."""
    P = Paths(prog)
    for impl in sorted(impls, key=short_raw):
        raw = short_raw(impl)
        bits = RAW_BITS[raw]
        want = expected_slot(bits)
        for nm in ("load", "store"):
            f = prog.fns[impl["fns"][nm]]
            key = "%s:%s" % (raw, nm)
            try:
                summs = P.of(f)
            except Unsupported as e:
                rep.fail("R11.7", key, "cannot summarise the paths of %s: %s" % (nm, e), status="undecided", at=f.span, fn=f.path)
                continue
            problems, undecided, slots_seen, n_acc, n_rej = [], [], set(), 0, 0
            writes_bad = []
            for sm in summs:
                vo = variant_of(sm.ret)
                opaque_map = None
                if vo is None and sm.ret[0] == "comb" and sm.ret[1] == "map" and variant_of(sm.ret[2]) is not None:
                    # a `map` whose closure could not be summarised (it loops): the variant is that of its subject
                    vo = variant_of(sm.ret[2])
                    opaque_map = sm.ret[2]
                if vo is None or vo[1] not in ("Some", "Ok", "None", "Err"):
                    undecided.append("a path returns %s, neither a constructed success nor a rejection" % show(sm.ret, maxd=4))
                    continue
                if vo[1] in ("None", "Err"):
                    n_rej += 1
                    if sm.effects:
                        problems.append("a rejecting path has an effect: %s" % "; ".join(show_eff(e) for e in sm.effects[:2]))
                    continue
                n_acc += 1
                # what the accepting path has established about the buffer
                req = None
                chains = []
                try:
                    for fct in sm.facts:
                        if fct[0] == "variant" and _is_access(fct[1]):
                            if fct[2] != ("Some",):
                                raise Undecided("accepting although %s" % show_fact(fct))
                            sl = slot(fct[1], bits)
                            chains.append((fct[1], sl))
                            req = sl[2] if req is None else _max(req, sl[2])
                        elif fct[0] == "variant" and fct[1][0] == "call" and fct[1][1].endswith(("::checked_mul", "::checked_add", "::try_into", "::try_from")):
                            if fct[2] not in (("Some",), ("Ok",)):
                                raise Undecided("accepting although %s" % show_fact(fct))
                        elif fct[0] in ("true", "false") and fct[1][0] == "const" and isinstance(fct[1][1], str) and fct[1][1].startswith(ALT):
                            pass
                        elif fct[0] in ("le", "lt") and _len_of(fct[2]):
                            e = _lin(fct[1], bits)
                            if fct[0] == "lt":
                                e = (e[0], e[1], e[2] + 1)
                            req = e if req is None else _max(req, e)
                        elif fct[0] in ("le", "lt") and _len_of(fct[1]):
                            raise Undecided("accepting under an upper bound on the buffer length (%s)" % show_fact(fct))
                        else:
                            raise Undecided("acceptance depends on %s" % show_fact(fct))
                    # the data actually used: payloads of access chains in the result and the effects
                    used = []
                    trees = [sm.ret] + [x for e in sm.effects for x in e[1:] if isinstance(x, tuple)]
                    if opaque_map is not None and nm == "store":
                        writes_bad.append("unknown effect: the closure handed to map() on %s" % show(opaque_map, maxd=4))
                    for tr in trees:
                        for n in walk(tr):
                            if n[0] == "payload" and _is_access(n[1]):
                                used.append(n[1])
                            elif n[0] == "call" and n[1].split("::")[-1] in ("index", "index_mut") and _is_access(n):
                                used.append(n)
                            elif n[0] == "index" and ptr_root(n)[0] == "param" and ptr_root(n)[2] == "buffer":
                                raise Undecided("direct indexing %s" % show(n, maxd=4))
                    used = list(dict.fromkeys(used))
                    maximal = [u for u in used if not any(u != v and any(x == u for x in walk(v)) for v in used)]
                    if nm == "load" and not maximal:
                        # value assembled through a local copy: the established chain is what was read
                        maximal = [c for c, _ in chains if not any(c != d and any(x == c for x in walk(d)) for d, _ in chains)]
                    if not maximal:
                        raise Undecided("no access to the buffer on an accepting path")
                    for u in maximal:
                        sl = slot(u, bits)
                        slots_seen.add((fmt_lin(sl[0]), sl[1]))
                        if (sl[0], sl[1]) != (want[0], want[1]):
                            problems.append("%s uses bytes [%s ; len %s], pixel `index` of %d bits occupies [%s ; len %s]" % (nm, fmt_lin(sl[0]), sl[1], bits, fmt_lin(want[0]), want[1]))
                    if req is None or req != want[2]:
                        problems.append("%s succeeds when buffer.len() >= %s, but the pixel needs len >= %s (an index beyond the buffer must be rejected, and only such an index)"
                                        % (nm, fmt_lin(req) if req else "0", fmt_lin(want[2])))
                    # effects: only stores into the slot
                    for e in sm.effects:
                        tgt = e[1] if e[0] == "write" else (e[1][3][0] if e[1][0] == "call" and e[1][1].endswith("copy_from_slice") and e[1][3] else None)
                        if nm == "load":
                            writes_bad.append("load has an effect: %s" % show_eff(e))
                            continue
                        if tgt is None:
                            writes_bad.append("unknown effect %s" % show_eff(e))
                            continue
                        base = tgt
                        while base[0] in ("field", "index", "deref"):
                            base = base[1]
                        if not (base[0] == "payload" and _is_access(base[1])):
                            writes_bad.append("write through %s" % show(tgt, maxd=4))
                            continue
                        sl = slot(base[1], bits)
                        if (sl[0], sl[1]) != (want[0], want[1]):
                            writes_bad.append("write into bytes [%s ; len %s]" % (fmt_lin(sl[0]), sl[1]))
                    if nm == "store" and not sm.effects and opaque_map is None:
                        problems.append("store reports success on a path that writes nothing")
                except Undecided as e:
                    undecided.append(str(e))
            if problems:
                rep.fail("R11.7", key, "; ".join(sorted(set(problems))[:3]), at=f.span, fn=f.path)
            elif undecided or n_acc == 0 or n_rej == 0:
                why = "; ".join(sorted(set(undecided))[:3]) or "expected accepting and rejecting paths, found %d / %d" % (n_acc, n_rej)
                rep.fail("R11.7", key, "cannot derive the byte slot selected by %s: %s" % (nm, why), status="undecided", at=f.span, fn=f.path)
            else:
                rep.ok("R11.7", key, at=f.span, fn=f.path, detail={"paths": len(summs), "accepting": n_acc, "rejecting": n_rej, "slots": sorted(map(str, slots_seen))})
            if nm == "load":
                rep.sample({"rule": "R11.7", "raw": raw, "paths": len(summs), "accepting": n_acc, "rejecting": n_rej, "slots": sorted(map(str, slots_seen))})
            else:
                rep.check(not writes_bad, "R11.7", raw + ":store-writes", "store may write only through the selected slot: " + "; ".join(sorted(set(writes_bad))[:3]), status="undecided" if all("unknown" in w for w in writes_bad) else "refuted", at=f.span, fn=f.path)


def check_subbyte_values(prog, rep, impls, layout=None):
    """R11.8 bit-level round trip of the sub-byte raw types, in the bit-provenance domain (D2) on the value trees of the
    path summaries: for every shift s that bit_position can select (0, bpp, .., 8 - bpp; which pixel gets which shift
    is R11.5's table) the byte written by `store` carries the value's bits at [s, s + bpp) and the old byte's bits
    everywhere else, and `load` returns exactly the bits [s, s + bpp) of the byte it reads, zero-extended.  The value is
    assumed masked (bits >= bpp zero), which the raw constructors guarantee (C12 O3)."""
    from mirq.bits import BitEval, BV, Struct, Unknown
    from mirq.paths import Paths, Unsupported, variant_of, show_eff
    from mirq.origin import subst
    P_ = Paths(prog, inline=lambda g: prog.is_new(g))
    BYTE, OLD = 900, 901

    def prep(t, shift, slot_param):
        """payload(get/get_mut(..)) -> an input byte; bit_position(..).1 -> the constant shift"""
        def r(n):
            if n[0] == "payload" and n[1][0] == "call" and n[1][1].split("::")[-1] in ("get", "get_mut"):
                return ("param", slot_param, "byte")
            if n[0] == "field" and n[2] == 1 and strip_refs(n[1])[0] == "call" and strip_refs(n[1])[1].endswith("bit_position"):
                return ("const", shift)
            if n[0] == "un" and n[1] == "Not" and n[2][0] != "cast":
                return ("un", "Not", ("cast", prep(n[2], shift, slot_param), "u8"))   # the complement is taken in the byte's type
            return None
        return subst(t, r)

    for impl in sorted(impls, key=short_raw):
        raw = short_raw(impl)
        bits = RAW_BITS.get(raw)
        if bits is None or bits >= 8:
            continue
        adt = impl["self_ty"]["adt"]
        load, store = prog.fns[impl["fns"]["load"]], prog.fns[impl["fns"]["store"]]
        try:
            ls, ss = P_.of(load), P_.of(store)
        except Unsupported as e:
            rep.fail("R11.8", raw, "cannot summarise load/store: %s" % e, status="undecided", at=load.span, fn=load.path)
            continue
        some = [sm for sm in ls if variant_of(sm.ret) and variant_of(sm.ret)[1] == "Some"]
        okp = [sm for sm in ss if variant_of(sm.ret) and variant_of(sm.ret)[1] == "Ok"]
        if (len(some) != 1 or len(okp) != 1) and layout and layout.get(raw):
            continue    # the position arithmetic is spelled out in load / store (one path per data order): decided by the layout form
        if len(some) != 1 or len(okp) != 1:
            rep.fail("R11.8", raw, "expected one accepting path each in load and store (found %d / %d)" % (len(some), len(okp)), status="undecided", at=load.span, fn=load.path)
            continue
        writes = [e for e in okp[0].effects if e[0] == "write"]
        others = [e for e in okp[0].effects if e[0] != "write"]
        if len(writes) != 1 or others:
            rep.fail("R11.8", raw + ":store", "the accepting path of store must perform exactly one byte write; found %s" % "; ".join(show_eff(e)[:80] for e in okp[0].effects), at=store.span, fn=store.path)
            continue
        for shift in range(0, 8, bits):
            ev = BitEval(prog)
            # ---- load
            lv = prep(some[0].ret[2][0], shift, BYTE)
            got = ev.eval(lv, {BYTE: BV.inp("byte", 8)}, load)
            inner = got.fields.get(0) if isinstance(got, Struct) else got
            want = BV([("in", "byte", shift + j) for j in range(bits)], 8)
            good = isinstance(inner, BV) and inner == want and (inner.width or len(inner.bits)) <= 8
            rep.check(good, "R11.8", "%s:load:shift%d" % (raw, shift), "load must return bits [%d, %d) of the byte, zero-extended; got %r" % (shift, shift + bits, inner), at=load.span, fn=load.path,
                      status="refuted" if isinstance(inner, BV) and "T" not in [str(x) for x in inner.bits] else "undecided")
            # ---- store
            val = Struct(adt, {0: BV([("in", "v", j) for j in range(bits)], 8)})
            sv = prep(writes[0][2], shift, OLD)
            got = ev.eval(sv, {1: val, OLD: BV.inp("old", 8)}, store)
            want = BV([("in", "v", j - shift) if shift <= j < shift + bits else ("in", "old", j) for j in range(8)], 8)
            good = isinstance(got, BV) and got == want
            rep.check(good, "R11.8", "%s:store:shift%d" % (raw, shift), "store must write the value's bits to [%d, %d) of the byte and keep the other bits; got %r" % (shift, shift + bits, got), at=store.span, fn=store.path,
                      status="refuted" if isinstance(got, BV) and "T" not in [str(x) for x in got.bits] else "undecided")
            # the written byte is the one that was read for the old value
            lv_ = writes[0][1]
            olds = [n for n in walk(writes[0][2]) if n[0] == "payload" and n[1][0] == "call" and n[1][1].split("::")[-1] in ("get", "get_mut")]
            rep.check(bool(olds) and all(strip_refs(o) == strip_refs(lv_) for o in olds), "R11.8", "%s:store:same-byte" % raw, "store must read-modify-write one and the same byte", at=store.span, fn=store.path, nontrivial=False)


def check_front_end(prog, rep):
    """R11.9 the public RawData::load / RawData::store hand the caller's (self,) buffer and index to the private
    LoadStore implementation and return its outcome on every path.  A path that answers on its own is accepted only when
    its conditions make the answer the one LoadStore would give: `Ok` without a store needs `load(buffer, index)` to be
    `Some(self)` (the value is already there), `Err` / `None` needs `load(buffer, index)` to be `None` (out of range)."""
    from mirq.paths import passes_result
    RAWDATA = "embedded_graphics_core::pixelcolor::raw::RawData"
    P_ = Paths(prog, inline=lambda g: prog.is_new(g))
    n = 0
    for impl in sorted(prog.impls_of_trait(RAWDATA), key=lambda i: ty_str(i["self_ty"])):
        if not (isinstance(impl["self_ty"], dict) and "adt" in impl["self_ty"]):
            continue
        raw = impl["self_ty"]["adt"].split("::")[-1]
        for nm, params in (("load", ("buffer", "index")), ("store", ("self", "buffer", "index"))):
            if nm not in impl["fns"]:
                rep.fail("R11.9", "%s:%s" % (raw, nm), "RawData impl without `%s`" % nm, status="undecided")
                continue
            f = prog.fns[impl["fns"][nm]]
            key = "%s:%s" % (raw, nm)
            try:
                summs = P_.of(f)
            except Unsupported as e:
                rep.fail("R11.9", key, "cannot summarise: %s" % e, status="undecided", at=f.span, fn=f.path)
                continue
            n += 1

            def is_ls(t, which):
                return (t[0] == "call" and "LoadStore" in t[1] and t[1].endswith("::" + which) and raw in t[1]
                        and tuple(strip_refs(a) for a in t[3]) == tuple(("param", i + 1, p) for i, p in enumerate(("buffer", "index") if which == "load" else ("self", "buffer", "index"))))

            def is_probe(t):
                """load(buffer, index) of the same raw type, through either trait"""
                t = strip_refs(t)
                if t[0] != "call" or not t[1].endswith("::load") or raw not in t[1] or len(t[3]) != 2:
                    return False
                a = [strip_refs(x) for x in t[3]]
                return a[0][0] == "param" and a[0][2] == "buffer" and a[1][0] == "param" and a[1][2] == "index"
            bad = None
            for sm in summs:
                nodes = [x for t in [sm.ret] + [e[1] for e in sm.effects if e[0] == "call"] + [fc[1] for fc in sm.facts if len(fc) > 1 and isinstance(fc[1], tuple)]
                         for x in walk(t) if is_ls(x, nm)]
                if nodes and any(passes_result(sm, nd) for nd in nodes):
                    continue
                if nodes:
                    bad = "a path calls LoadStore::%s but does not return its outcome (returns %s)" % (nm, show(sm.ret, maxd=4))
                    break
                probe = {tuple(fc[2]) for fc in sm.facts if fc[0] == "variant" and is_probe(fc[1])}
                vo = variant_of(sm.ret)
                v = vo[1] if vo else None
                if v in ("Err", "None") and probe == {("None",)} and not sm.writes():
                    continue
                if nm == "store" and v == "Ok" and probe == {("Some",)} and not sm.writes() and any(
                        fc[0] == "eq" and {strip_refs(fc[1])[0], strip_refs(fc[2])[0]} == {"param", "payload"}
                        and any(strip_refs(x) == ("param", 1, "self") for x in fc[1:3])
                        and any(strip_refs(x)[0] == "payload" and is_probe(strip_refs(x)[1]) for x in fc[1:3]) for fc in sm.facts):
                    continue
                bad = "a path returns %s without consulting LoadStore::%s(%s) [conditions: %s]" % (show(sm.ret, maxd=4), nm, ", ".join(params), "; ".join(show_fact(fc) for fc in sm.facts) or "none"
                                                                                                   )
                break
            rep.check(bad is None, "R11.9", key, "RawData::%s must return what LoadStore::%s(%s) returns: %s" % (nm, nm, ", ".join(params), bad), at=f.span, fn=f.path,
                      status="refuted" if bad and "without consulting" in bad and "is None" in bad else "undecided" if bad else None)
    rep.floor("R11.9", "RawData front ends", n, 14)


def check_subbyte_layout(prog, rep, impls):
    """R11.8 (layout form) — independent of how the position arithmetic is spelled or which helpers carry it: load and
    store of the sub-byte types are summarised with every crate-local helper inlined; for both data orders (the paths
    are selected by their IS_ALTERNATE_ORDER facts) and for every pixel index of two consecutive bytes the index is
    substituted, the position arithmetic is folded to constants and the value trees are evaluated in the bit-provenance
    domain: the accessed byte is index / (8 / bpp), `load` returns exactly the documented bits of that byte
    (MSB-first pixels in the standard order, LSB-first in the alternate order), `store` writes the value's bits there and
    keeps the other bits.  -> {raw: decided?}"""
    from mirq.bits import BitEval, BV, Struct
    from mirq.paths import Paths, Unsupported, variant_of
    from mirq.origin import subst
    MASKC = "embedded_graphics_core::pixelcolor::raw::RawData::MASK"
    P_ = Paths(prog, inline=lambda g: g.name not in ("new", "new_unmasked", "from", "into_inner", "into"), depth=6)
    BYTE, OLD = 900, 901
    decided = {}
    for impl in sorted(impls, key=short_raw):
        raw = short_raw(impl)
        bits = RAW_BITS.get(raw)
        if bits is None or bits >= 8:
            continue
        ppb = 8 // bits
        adt = impl["self_ty"]["adt"]
        fns = {nm: prog.fns[impl["fns"][nm]] for nm in ("load", "store")}
        all_ok = True
        for nm, f in fns.items():
            try:
                summs = P_.of(f)
            except Unsupported as e:
                rep.fail("R11.8", "%s:%s:layout" % (raw, nm), "cannot summarise %s with its helpers inlined: %s" % (nm, e), status="undecided", at=f.span, fn=f.path)
                all_ok = False
                continue
            for alt in (False, True):
                key = "%s:%s:layout:%s" % (raw, nm, "alt" if alt else "std")
                sel = []
                for sm in summs:
                    vo = variant_of(sm.ret)
                    if not vo or vo[1] not in ("Some", "Ok"):
                        continue
                    bad_order = False
                    for fc in sm.facts:
                        if fc[0] in ("true", "false") and fc[1][0] == "const" and isinstance(fc[1][1], str) and fc[1][1].startswith(ALT):
                            if (fc[0] == "true") != alt:
                                bad_order = True
                    if not bad_order:
                        sel.append(sm)
                if len(sel) != 1:
                    rep.fail("R11.8", key, "expected one accepting path of %s for this data order, found %d" % (nm, len(sel)), status="undecided", at=f.span, fn=f.path)
                    all_ok = False
                    continue
                sm = sel[0]
                problems, und = [], []
                for idx in range(2 * ppb):
                    envc = {"index": idx, BPP: bits, MASKC: (1 << bits) - 1, ALT: int(alt)}

                    def cf(n):
                        if n[0] == "param" and len(n) > 2 and n[2] == "index":
                            return ("const", idx)
                        if n[0] == "const" and isinstance(n[1], str):
                            try:
                                return ("const", _eval_int(n, envc))
                            except (ValueError, KeyError):
                                return None
                        if n[0] == "bin":
                            try:
                                return ("const", _eval_int(n, envc))
                            except (ValueError, KeyError, ZeroDivisionError):
                                return None
                        if n[0] == "cast" and n[1][0] == "const" and isinstance(n[1][1], int) and not isinstance(n[1][1], bool) and str(n[2]).startswith(("u", "i")):
                            return n[1] if str(n[2]) in ("usize", "u32", "u64", "i32") else None
                        if n[0] == "payload" and n[1][0] == "call" and n[1][1].split("::")[-1] in ("get", "get_mut"):
                            return ("param", BYTE, "byte")
                        if n[0] == "un" and n[1] == "Not" and n[2][0] != "cast":
                            return ("un", "Not", ("cast", n[2], "u8"))
                        return None
                    exp_shift = (idx % ppb) * bits if alt else (ppb - 1 - idx % ppb) * bits
                    # the byte that is accessed
                    acc = []
                    for tr in [sm.ret] + [x for e in sm.effects for x in e[1:] if isinstance(x, tuple)] + [fc[1] for fc in sm.facts if len(fc) > 1 and isinstance(fc[1], tuple)]:
                        for n in walk(tr):
                            if isinstance(n, tuple) and n and n[0] == "call" and n[1].split("::")[-1] in ("get", "get_mut") and len(n[3]) == 2 and ptr_root(n)[:1] == ("param",):
                                try:
                                    acc.append(_eval_int(subst(n[3][1], cf), envc))
                                except (ValueError, KeyError):
                                    und.append("byte index %s" % show(n[3][1], maxd=4))
                    if not acc:
                        und.append("no byte access found")
                    elif set(acc) != {idx // ppb}:
                        problems.append("pixel %d accesses byte %s, its byte is %d" % (idx, sorted(set(acc)), idx // ppb))
                    ev = BitEval(prog)
                    if nm == "load":
                        lv = subst(sm.ret[2][0], cf)
                        got = ev.eval(lv, {BYTE: BV.inp("byte", 8)}, f)
                        inner = got.fields.get(0) if isinstance(got, Struct) else got
                        want = BV([("in", "byte", exp_shift + j) for j in range(bits)], 8)
                        if not (isinstance(inner, BV) and inner == want):
                            (problems if isinstance(inner, BV) and "T" not in [str(x) for x in inner.bits] else und).append(
                                "pixel %d: load must return bits [%d, %d) of its byte, got %r" % (idx, exp_shift, exp_shift + bits, inner))
                    else:
                        writes = [e for e in sm.effects if e[0] == "write"]
                        if len(writes) != 1 or len(sm.effects) != 1:
                            und.append("the accepting path of store must perform exactly one byte write")
                            continue
                        val = Struct(adt, {0: BV([("in", "v", j) for j in range(bits)], 8)})
                        tgt = subst(writes[0][1], cf)
                        if tgt != ("param", BYTE, "byte"):
                            und.append("store writes through %s" % show(writes[0][1], maxd=4))
                        sv = subst(writes[0][2], cf)
                        got = ev.eval(sv, {1: val, BYTE: BV.inp("old", 8)}, f)
                        want = BV([("in", "v", j - exp_shift) if exp_shift <= j < exp_shift + bits else ("in", "old", j) for j in range(8)], 8)
                        if not (isinstance(got, BV) and got == want):
                            (problems if isinstance(got, BV) and "T" not in [str(x) for x in got.bits] else und).append(
                                "pixel %d: store must write the value to bits [%d, %d) of its byte and keep the rest, got %r" % (idx, exp_shift, exp_shift + bits, got))
                if problems:
                    rep.fail("R11.8", key, "; ".join(problems[:2]), at=f.span, fn=f.path)
                    all_ok = False
                elif und:
                    rep.fail("R11.8", key, "; ".join(sorted(set(und))[:2]), status="undecided", at=f.span, fn=f.path)
                    all_ok = False
                else:
                    rep.ok("R11.8", key, at=f.span, fn=f.path, detail={"pixels": 2 * ppb})
        decided[raw] = all_ok
    return decided


def check_iterator_construction(prog, rep):
    """R11.6 (construction) iteration starts at pixel 0 of the very bytes the slice was given: RawDataSlice::new stores its
    argument, and RawDataSlice::into_iter (constructors inlined) builds the iterator with data = self.data and index = 0
    on its only path — a `split_at` that keeps the wrong half, a sub-slice or a non-zero start index shifts every item."""
    from mirq.origin import mk_field
    SL = "embedded_graphics::iterator::raw::RawDataSlice"
    adt_it = prog.adts[ITER]
    fi = {f["name"]: i for i, f in enumerate(adt_it["variants"][0]["fields"])}
    fs = {f["name"]: i for i, f in enumerate(prog.adts[SL]["variants"][0]["fields"])}
    P_ = Paths(prog, inline=lambda g: True, depth=6)
    ii = [f for f in prog.fns.values() if f.body and f.name == "into_iter" and f.impl and isinstance(prog.impls[f.impl]["self_ty"], dict) and prog.impls[f.impl]["self_ty"].get("adt") == SL]
    nw = [f for f in prog.fns.values() if f.body and f.name == "new" and f.impl and isinstance(prog.impls[f.impl]["self_ty"], dict) and prog.impls[f.impl]["self_ty"].get("adt") == SL and not prog.impls[f.impl].get("trait")]
    if len(ii) != 1 or len(nw) != 1:
        rep.fail("R11.6", "construction", "anchor lost: RawDataSlice::into_iter / new (%d / %d)" % (len(ii), len(nw)), status="undecided")
        return
    for f, key, want in ((nw[0], "RawDataSlice::new", None), (ii[0], "RawDataSlice::into_iter", None)):
        try:
            summs = P_.of(f)
        except Unsupported as e:
            rep.fail("R11.6", "construction:" + key, "cannot summarise: %s" % e, status="undecided", at=f.span, fn=f.path)
            continue
        bad = []
        if len(summs) != 1 or summs[0].facts or summs[0].effects:
            bad.append("expected one unconditional path, found %d" % len(summs))
        for sm in summs:
            r = strip_refs(sm.ret)
            if key.endswith("::new"):
                d = strip_refs(mk_field(r, fs["data"]))
                if not (d[0] == "param" and d[1] == 1):
                    bad.append("the slice stores %s instead of its argument" % show(d, maxd=4))
            else:
                d = strip_refs(mk_field(r, fi["data"]))
                ix = strip_refs(mk_field(r, fi["index"]))
                if d != ("field", ("param", 1, "self"), fs["data"]):
                    bad.append("the iterator walks %s instead of self.data" % show(d, maxd=4))
                if ix != ("const", 0):
                    bad.append("the iterator starts at index %s" % show(ix, maxd=3))
        rep.check(not bad, "R11.6", "construction:" + key, "%s: %s" % (key, "; ".join(sorted(set(bad))[:2])), at=f.span, fn=f.path)
