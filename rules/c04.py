"""C04 — target errors stop drawing immediately and are returned unchanged.

Error-flow analysis over MIR (DESIGN.md §5 C04, appendix A.3).  For every call whose
result is a `Result<_, <X as DrawTarget>::Error>` (a *producer*) the result must be
consumed at once: returned, or switched on with the error edge returning the payload
unchanged and without any further effectful call.
"""
from mirq import ty_params, ty_str
from mirq.cfg import CFG
from mirq.pp import term_s, place_s

DT = "embedded_graphics_core::draw_target::DrawTarget"
TRY_BRANCH = "core::ops::try_trait::Try::branch"
FROM_RESIDUAL = "core::ops::try_trait::FromResidual::from_residual"
RESULT = "core::result::Result"
CONTROL_FLOW = "core::ops::control_flow::ControlFlow"

TRANSPARENT = {"core::result::Result::<T, E>::map", "core::result::Result::<T, E>::and_then"}
INSPECT = {"core::result::Result::<T, E>::is_ok", "core::result::Result::<T, E>::is_err", "core::result::Result::<T, E>::as_ref"}
ALTER = ("map_err", "or", "or_else", "unwrap_or_else")
DISCARD = ("ok", "err", "unwrap", "expect", "unwrap_or", "unwrap_or_default", "unwrap_unchecked", "unwrap_err", "expect_err",
           "map_or", "map_or_else", "iter", "iter_mut", "into_iter", "drop", "forget", "is_ok_and", "is_err_and", "copied", "cloned",
           "into_ok", "into_err", "flatten", "inspect", "inspect_err", "and", "transpose")


_ERR_PARAMS = set()   # while a crate-local error-generic helper is analysed: its type parameter(s) standing for the target error


def is_err_alias(t):
    return isinstance(t, dict) and ((t.get("trait") == DT and t.get("name") == "Error") or (_ERR_PARAMS and t.get("param") in _ERR_PARAMS))


def e_kind(t):
    """Classify a type carrying a DrawTarget error: 'result' | 'cf' | 'residual' | 'err' | None"""
    if not isinstance(t, dict):
        return None
    if is_err_alias(t):
        return "err"
    if t.get("adt") == RESULT:
        a = t["args"]
        if len(a) == 2 and is_err_alias(a[1]):
            if isinstance(a[0], dict) and a[0].get("adt") == "core::convert::Infallible":
                return "residual"
            return "result"
    if t.get("adt") == CONTROL_FLOW:
        a = t["args"]
        if a and e_kind(a[0]) == "residual":
            return "cf"
    return None


def target_params(fn):
    """Generic parameter names bounded by DrawTarget in fn (closures: the root fn's)."""
    out = set()
    for b in fn.root_fn().d.get("bounds", []):
        if b["trait"] == DT and isinstance(b["self"], dict) and "param" in b["self"]:
            out.add(b["self"]["param"])
    return out


def op_local(o):
    for k in ("copy", "move"):
        if k in o:
            return o[k]["l"], o[k]["p"], k
    return None


class FnAnalysis:
    def __init__(self, prog, fn, may_draw):
        self.prog = prog
        self.fn = fn
        self.body = fn.body
        self.cfg = CFG(fn.body)
        self.tparams = target_params(fn)
        self.may_draw = may_draw
        self.live = self.cfg.live_blocks()

    def lty(self, l):
        return self.body["locals"][l]["ty"]

    def is_producer(self, t):
        if t["k"] != "call":
            return False
        d = t["dest"]
        if d["p"]:
            return False
        if e_kind(self.lty(d["l"])) != "result":
            return False
        p = t["f"].get("path", "")
        if p in (TRY_BRANCH, FROM_RESIDUAL):
            return False
        if p.startswith("core::result::Result::"):
            return False
        return True

    def effectful(self, t):
        """May this call draw on / be handed a target?"""
        if t["k"] != "call":
            return False
        p = t["f"].get("path", "")
        if p in (TRY_BRANCH, FROM_RESIDUAL):
            return False
        if self.is_producer(t):
            return True
        for a in t["args"]:
            ol = op_local(a)
            if ol is None:
                continue
            l, proj, _ = ol
            ty = self.lty(l)
            if proj:
                continue  # projections of locals: field moves; type unknown here -> handled by conservative rule below
            if self._ty_effectful(ty):
                return True
        return False

    def _ty_effectful(self, ty):
        if not isinstance(ty, dict):
            return False
        if "closure" in ty:
            return self.may_draw.get(ty["closure"], True)
        if "ref" in ty:
            inner = ty["ref"]
            if isinstance(inner, dict) and "closure" in inner:
                return self.may_draw.get(inner["closure"], True)
            if not ty.get("mut"):
                return False
            return bool(ty_params(inner) & self.tparams) or self._mentions_closure_drawing(inner)
        return bool(ty_params(ty) & self.tparams) or self._mentions_closure_drawing(ty)

    def _mentions_closure_drawing(self, ty):
        from mirq import ty_walk
        for s in ty_walk(ty):
            if isinstance(s, dict) and "closure" in s and self.may_draw.get(s["closure"], True):
                return True
        return False


def compute_may_draw(prog):
    """fn id -> bool: body (transitively through closures / local callees) contains a producer."""
    direct = {}
    calls = {}
    for f in prog.fns.values():
        if not f.body:
            continue
        fa = FnAnalysis(prog, f, {})
        d = False
        cs = set()
        for b in f.body["blocks"]:
            t = b["t"]
            if t and t["k"] == "call":
                if fa.is_producer(t):
                    d = True
                r = t["f"].get("resolved") or t["f"]
                if r.get("id") in prog.fns:
                    cs.add(r["id"])
            for s in b["s"]:
                if s["k"] == "assign" and s["rv"]["k"] == "agg" and s["rv"]["agg"] == "closure":
                    cs.add(s["rv"]["closure"])
        direct[f.id] = d
        calls[f.id] = cs
    md = dict(direct)
    changed = True
    while changed:
        changed = False
        for f, cs in calls.items():
            if not md[f] and any(md.get(c, False) for c in cs):
                md[f] = True
                changed = True
    return md


def analyse_producer(fa, bi, t, rep, R):
    """Check R04.1-3 for the producer call `t` in block `bi`."""
    fn, body, cfg = fa.fn, fa.body, fa.cfg
    fkey = fn.key()
    callee = t["f"].get("path", "?")
    # stable key: function + callee + ordinal among same-callee producers in the function
    ordinal = 0
    for j in sorted(fa.live):
        tj = body["blocks"][j]["t"]
        if j == bi:
            break
        if tj and tj["k"] == "call" and fa.is_producer(tj) and tj["f"].get("path") == callee:
            ordinal += 1
    key = "%s>%s#%d" % (fkey, callee, ordinal)
    at = t.get("sp", "")
    dest = t["dest"]["l"]

    # ---- carrier propagation (flow-insensitive over locals) --------------------------
    carriers = {dest: "result"}  # local -> kind ('result','cf','residual','err','ref','discr')
    discr_of = {}  # discr local -> carrier local
    problems = []
    ret_writes = []  # (block, stmt_idx or 'term') where _0 receives the carrier
    switches = []  # (block, carrier_local)
    work = [dest]
    seen = set()

    def add(l, kind):
        if l not in carriers:
            carriers[l] = kind
            work.append(l)

    if dest == 0:
        ret_writes.append((bi, "term"))
    while work:
        c = work.pop()
        if c in seen:
            continue
        seen.add(c)
        ckind = carriers[c]
        for j in sorted(fa.live):
            blk = body["blocks"][j]
            for si, s in enumerate(blk["s"]):
                if s["k"] != "assign":
                    continue
                rv = s["rv"]
                dl, dp = s["place"]["l"], s["place"]["p"]
                k = rv["k"]
                if k == "use":
                    ol = op_local(rv["a"])
                    if ol and ol[0] == c:
                        if dp:
                            problems.append(("escapes", "stored into a field of _%d" % dl, s.get("sp", "")))
                            continue
                        proj = ol[1]
                        nk = ckind
                        if proj:
                            # payload projection (Downcast + Field); the success payload is not a carrier
                            down = [e for e in proj if isinstance(e, dict) and "down" in e]
                            if down and down[0].get("name") in ("Ok", "Continue"):
                                continue
                            nk = "residual" if ckind == "cf" else ("err" if ckind in ("result", "residual") else ckind)
                        if dl == 0:
                            ret_writes.append((j, si))
                            carriers.setdefault(0, nk)
                        else:
                            add(dl, nk)
                elif k == "discr":
                    if rv["place"]["l"] == c and not rv["place"]["p"]:
                        discr_of[dl] = c
                elif k == "ref":
                    if rv["place"]["l"] == c:
                        add(dl, "ref")
                elif k == "agg":
                    for o in rv["ops"]:
                        ol = op_local(o)
                        if ol and ol[0] == c:
                            if rv["agg"] == "adt" and rv.get("adt") == RESULT and rv.get("variant") == "Err" and ckind in ("err",):
                                if dl == 0 and not dp:
                                    ret_writes.append((j, si))
                                    carriers.setdefault(0, "result")
                                else:
                                    add(dl, "result")
                            elif ckind == "ref":
                                pass
                            else:
                                problems.append(("escapes", "wrapped into aggregate %s" % (rv.get("adt") or rv["agg"]), s.get("sp", "")))
                elif k in ("cast", "bin", "un"):
                    for o in (rv.get("a"), rv.get("b")):
                        if o:
                            ol = op_local(o)
                            if ol and ol[0] == c and ckind != "discr":
                                problems.append(("escapes", "used in %s" % k, s.get("sp", "")))
            tt = blk["t"]
            if not tt:
                continue
            if tt["k"] == "switch":
                ol = op_local(tt["d"])
                if ol and ol[0] in discr_of and discr_of[ol[0]] == c:
                    switches.append((j, c))
            elif tt["k"] == "call" and not (j == bi):
                for ai, a in enumerate(tt["args"]):
                    ol = op_local(a)
                    if not ol or ol[0] != c:
                        continue
                    p = tt["f"].get("path", "")
                    nm = tt["f"].get("name", "")
                    dl, dp = tt["dest"]["l"], tt["dest"]["p"]
                    if p == TRY_BRANCH:
                        add(dl, "cf")
                    elif p == FROM_RESIDUAL:
                        if dl == 0 and not dp:
                            ret_writes.append((j, "term"))
                            carriers.setdefault(0, "result")
                        else:
                            add(dl, "result")
                    elif ckind == "ref" and p in INSPECT:
                        pass
                    elif p.startswith("core::result::Result::") and nm in ("map", "and_then") and ckind == "result":
                        if dl == 0 and not dp:
                            ret_writes.append((j, "term"))
                            carriers.setdefault(0, "result")
                        else:
                            add(dl, "result")
                    elif p.startswith("core::result::Result::") and nm in ALTER:
                        problems.append(("altered", "error passed through Result::%s (R04.4: returned unchanged)" % nm, tt.get("sp", "")))
                    elif (p.startswith("core::result::Result::") or p.startswith("core::mem::") or p.startswith("core::ops::control_flow")) and nm in DISCARD:
                        problems.append(("discard", "result handed to discarding fn %s" % p, tt.get("sp", "")))
                    elif p.startswith("core::convert::From::from") or p.startswith("core::convert::Into::into"):
                        if ckind == "err":
                            add(dl, "err")
                        else:
                            problems.append(("escapes", "converted by %s" % p, tt.get("sp", "")))
                    else:
                        problems.append(("escapes", "passed to %s (not a recognised consumer)" % p, tt.get("sp", "")))
            elif tt["k"] == "drop":
                if tt["place"]["l"] == c and not tt["place"]["p"] and ckind in ("result", "cf", "residual", "err"):
                    # a drop of a carrier that may still own the error = discard, unless the
                    # value was moved out on every path to here (checked below via consumption)
                    problems.append(("drop", "carrier _%d dropped" % c, tt.get("sp", "")))

    # ---- consumption points -----------------------------------------------------------
    consume_blocks = set(j for j, _ in ret_writes) | set(j for j, _ in switches)
    # a `drop` problem is only real if reachable from the producer without consumption
    real = []
    start = t["t"]
    for kind, why, sp in problems:
        real.append((kind, why, sp))
    # walk from the producer's successor until consumption: no effectful call, no return
    if dest == 0 and not t["dest"]["p"]:
        walk_starts = []  # consumed immediately by being the return value
        ret_from = [(bi, "term")]
    else:
        walk_starts = [start] if start is not None else []
    visited = set()
    st = list(walk_starts)
    while st:
        x = st.pop()
        if x in visited:
            continue
        visited.add(x)
        blk = body["blocks"][x]
        tt = blk["t"]
        if x in consume_blocks:
            continue
        if tt is None:
            continue
        if tt["k"] == "return":
            real.append(("discard", "a path from the call reaches `return` without the result being returned or inspected", tt.get("sp", "")))
            continue
        if tt["k"] == "call" and fa.effectful(tt):
            recv = op_local(tt["args"][0]) if tt["args"] else None
            if tt["f"].get("path", "") in TRANSPARENT and recv and recv[0] in carriers:
                # `carrier.and_then(|v| draw..)` / `.map(..)`: the closure (the effect) runs on Ok only, an error passes
                # through unchanged into the call's result, which is tracked as a carrier from here on
                st.extend(cfg.succ[x])
                continue
            real.append(("deferral", "effectful call %s before the result is consumed" % tt["f"].get("path"), tt.get("sp", "")))
            continue
        st.extend(cfg.succ[x])
    real = [r for r in real if not (r[0] == "drop")] + [r for r in real if r[0] == "drop" and _drop_reachable_unconsumed(fa, t, consume_blocks, r)]

    # ---- error edges of switches --------------------------------------------------------
    for j, c in switches:
        tt = body["blocks"][j]["t"]
        ok_targets = [b for v, b in tt["targets"] if v == 0]
        err_succ = [b for v, b in tt["targets"] if v != 0] + [tt["otherwise"]]
        err_succ = [b for b in err_succ if not _is_unreachable(body, b)]
        if not ok_targets and len(tt["targets"]) >= 1:
            # switch on value 1 only: otherwise edge is Ok/Continue
            ok_targets = [tt["otherwise"]]
            err_succ = [b for v, b in tt["targets"] if v != 0]
        for e in err_succ:
            if e in ok_targets:
                continue
            # must reach return through a write of _0 from the carrier, no effectful call
            writes0 = set(b for b, _ in ret_writes)
            stack = [(e, False)]
            vis = set()
            while stack:
                x, wrote = stack.pop()
                if (x, wrote) in vis:
                    continue
                vis.add((x, wrote))
                blk = body["blocks"][x]
                xt = blk["t"]
                w = wrote or x in writes0
                if xt is None:
                    continue
                if xt["k"] == "call" and fa.effectful(xt) and not (x in writes0):
                    real.append(("continues", "effectful call %s on the error path" % xt["f"].get("path"), xt.get("sp", "")))
                    continue
                if xt["k"] == "return":
                    if not w:
                        real.append(("not_returned", "error path reaches `return` without the error flowing into the return value", xt.get("sp", "")))
                    continue
                if xt["k"] == "switch" and x != e:
                    pass
                stack.extend((s, w) for s in cfg.succ[x])
    # ---- return flows: after the value is in _0, nothing effectful, no overwrite ------------
    for j, si in ret_writes:
        stack = list(cfg.succ[j])
        vis = set()
        while stack:
            x = stack.pop()
            if x in vis:
                continue
            vis.add(x)
            blk = body["blocks"][x]
            xt = blk["t"]
            for s in blk["s"]:
                if s["k"] == "assign" and s["place"]["l"] == 0 and (x, blk["s"].index(s)) not in ret_writes:
                    real.append(("overwritten", "return value overwritten after it received the error", s.get("sp", "")))
            if xt is None:
                continue
            if xt["k"] == "call":
                if xt["dest"]["l"] == 0 and (x, "term") not in ret_writes:
                    real.append(("overwritten", "return value overwritten by %s" % xt["f"].get("path"), xt.get("sp", "")))
                    continue
                if fa.effectful(xt):
                    real.append(("continues", "effectful call %s after the result was placed in the return slot" % xt["f"].get("path"), xt.get("sp", "")))
                    continue
            if xt["k"] == "return":
                continue
            stack.extend(cfg.succ[x])

    detail = {"call": term_s(t), "carriers": {("_%d" % k): v for k, v in carriers.items()},
              "switches": ["bb%d" % j for j, _ in switches], "return_writes": ["bb%d" % j for j, _ in ret_writes]}
    if not consume_blocks and not real:
        real.append(("discard", "result is never returned or inspected", at))
    if real:
        kinds = sorted(set(r[0] for r in real))
        status = "undecided" if kinds == ["escapes"] else "refuted"
        rule = "R04.3" if any(k in ("discard", "deferral", "drop", "escapes") for k in kinds) else ("R04.4" if "altered" in kinds else "R04.2")
        rep.fail(rule, key, "; ".join("%s: %s [%s]" % r for r in real[:4]), status=status, at=at, fn=fn.path, detail=detail)
    else:
        rep.ok("R04.1-3", key, detail=detail, at=at, fn=fn.path, nontrivial=bool(switches))
        rep.sample({"producer": key, "at": at, "consumed_by": detail["switches"] or detail["return_writes"], "carriers": detail["carriers"]})
    return bool(switches)


def _is_unreachable(body, b):
    t = body["blocks"][b]["t"]
    return t is not None and t["k"] == "unreachable" and not body["blocks"][b]["s"]


def _drop_reachable_unconsumed(fa, t, consume_blocks, r):
    # find drop blocks of carriers reachable from producer successor while avoiding consumption
    body, cfg = fa.body, fa.cfg
    start = t["t"]
    if start is None:
        return False
    vis = set()
    st = [start]
    while st:
        x = st.pop()
        if x in vis or x in consume_blocks:
            continue
        vis.add(x)
        xt = body["blocks"][x]["t"]
        if xt and xt["k"] == "drop" and xt.get("sp", "") == r[2] and ("_%d " % xt["place"]["l"]) in r[1] + " ":
            return True
        st.extend(cfg.succ[x])
    return False


def _helper_short_circuits(prog, g, may_draw, rep, done):
    global _ERR_PARAMS
    if g.id in done:
        return done[g.id]
    rt = g.body["locals"][0]["ty"]
    e = rt["args"][1] if isinstance(rt, dict) and rt.get("adt") == RESULT and len(rt.get("args", [])) == 2 else None
    if not (isinstance(e, dict) and "param" in e):
        done[g.id] = False
        return False
    _ERR_PARAMS = {e["param"]}
    try:
        fa = FnAnalysis(prog, g, may_draw)
        prods = [(i, b["t"]) for i, b in enumerate(g.body["blocks"]) if i in fa.live and b["t"] and fa.is_producer(b["t"])]
        before = len([o for o in rep.obligations if o["status"] != "discharged"])
        for bi, t in prods:
            analyse_producer(fa, bi, t, rep, "R04")
        after = len([o for o in rep.obligations if o["status"] != "discharged"])
        ok = bool(prods) and after == before
    finally:
        _ERR_PARAMS = set()
    done[g.id] = ok
    return ok


def run(ctx, rep):
    n_prod = n_q = 0
    fns_with = set()
    helpers_done = {}
    for config in ctx.configs:
        prog = ctx.program(config)
        rep.configs.append(config)
        may_draw = compute_may_draw(prog)
        for f in sorted(prog.fns.values(), key=lambda f: f.id):
            if not f.body or f.kind not in ("fn", "assoc_fn", "closure"):
                continue
            fa = FnAnalysis(prog, f, may_draw)
            prods = [(i, b["t"]) for i, b in enumerate(f.body["blocks"]) if i in fa.live and b["t"] and fa.is_producer(b["t"])]
            if not prods:
                # R04.4: Err aggregates of E-type outside producer functions are fabricated errors
                continue
            fns_with.add(f.id)
            rk = e_kind(f.body["locals"][0]["ty"])
            if rk != "result":
                rep.fail("R04.4", "carrier:" + f.key(), "function calls a fallible target operation but does not return Result<_, D::Error> (returns %s)" % ty_str(f.body["locals"][0]["ty"]),
                         at=f.span, fn=f.path)
            elif f.kind == "closure":
                # closures returning E-types must be handed to short-circuiting consumers
                ok = _closure_short_circuits(prog, f)
                if isinstance(ok, tuple):
                    # handed to a crate-local helper that is generic in the error type (`fn each<E>(it, f: impl FnMut(..) ->
                    # Result<(), E>) -> Result<(), E>`): the helper is a short-circuiting consumer iff every call it makes to
                    # a Result<_, E>-returning callable is consumed like a target error (R04.1-R04.3 inside the helper)
                    g = ok[1]
                    ok = _helper_short_circuits(prog, g, may_draw, rep, helpers_done)
                rep.check(ok, "R04.4", "closure:" + f.key(), "closure returning a target error is not passed to a short-circuiting consumer (try_for_each / try_fold / Result::and_then)", at=f.span, fn=f.path)
            for bi, t in prods:
                if config == ctx.configs[0]:
                    n_prod += 1
                q = analyse_producer(fa, bi, t, rep, "R04")
                if q and config == ctx.configs[0]:
                    n_q += 1
    rep.floor("R04", "producers", n_prod, 67)
    # `?` is one of several ways to consume a producer (direct return, try_for_each, and_then, match): the producer floor
    # above guards against vacuity, this one only against losing the `?` idiom altogether
    rep.floor("R04", "question_mark_sites", n_q, 10)
    rep.floor("R04", "functions", len(fns_with), 43)


def _closure_short_circuits(prog, clo):
    parent = prog.fns.get(clo.parent_fn)
    if not parent or not parent.body:
        return False
    # find the closure aggregate local, then the call it is passed to
    locs = set()
    for b in parent.body["blocks"]:
        for s in b["s"]:
            if s["k"] == "assign" and s["rv"]["k"] == "agg" and s["rv"].get("closure") == clo.id:
                locs.add(s["place"]["l"])
    # follow simple moves
    changed = True
    while changed:
        changed = False
        for b in parent.body["blocks"]:
            for s in b["s"]:
                if s["k"] == "assign" and s["rv"]["k"] in ("use", "ref"):
                    src = s["rv"].get("a") or {"copy": s["rv"]["place"]}
                    ol = op_local(src) if "a" in s["rv"] else (s["rv"]["place"]["l"], [], "ref")
                    if ol and ol[0] in locs and s["place"]["l"] not in locs:
                        locs.add(s["place"]["l"])
                        changed = True
    for b in parent.body["blocks"]:
        t = b["t"]
        if t and t["k"] == "call":
            for a in t["args"]:
                ol = op_local(a)
                if ol and ol[0] in locs:
                    if t["f"].get("name") in ("try_for_each", "try_fold", "try_rfold"):
                        return True
                    r_ = t["f"].get("resolved") or t["f"]
                    gs = [g for g in prog.by_path.get(r_.get("path", ""), []) if g.body and g.kind in ("fn", "assoc_fn")]
                    if len(gs) == 1 and gs[0].crate in ("embedded_graphics", "embedded_graphics_core"):
                        return ("helper", gs[0])
                    # Option::map_or(opt, default, closure) / map_or_else(opt, default_closure, closure): the closure runs at
                    # most once, nothing runs after it, and its result is the call's result — which is then a producer of
                    # its own (its destination is a Result<_, E>) and falls under R04.1 - R04.3 at this call site
                    if t["f"].get("path", "") in ("core::option::Option::<T>::map_or", "core::option::Option::<T>::map_or_else") and t["args"].index(a) >= 1:
                        return True
                    # Result::and_then(r, closure): the closure runs only when r is Ok and its result is the call's result
                    return t["f"].get("path", "") == "core::result::Result::<T, E>::and_then" and t["args"].index(a) == 1
    return False
