"""C09 — raw images and sub-images reproduce their pixel data exactly (structural part)."""
from mirq import ty_str
from mirq.cfg import CFG
from mirq.origin import Origins, show, walk, decisions, lit_truth, enum_paths, path_conditions, dominating_guards
from mirq.pat import match, find, strip_refs
from mirq.poly import Poly, tree_to_poly, NotPolynomial
from mirq.expand import Expander
from rules.c14 import field_index
from rules.c10 import fold
from rules.c03 import sites

IR = "embedded_graphics::image::image_raw::ImageRaw"
SI = "embedded_graphics::image::sub_image::SubImage"
CP = "embedded_graphics::image::image_raw::ContiguousPixels"
RECT = "embedded_graphics_core::primitives::rectangle::Rectangle"
P = lambda i, n: ("param", i, n)
BPP = "embedded_graphics_core::pixelcolor::raw::RawData::BITS_PER_PIXEL"


def is_bpp(t):
    return t[0] == "const" and isinstance(t[1], str) and t[1].startswith(BPP)


def run(ctx, rep):
    prog = ctx.program("default")
    rep.configs.append(getattr(ctx, "alias", "default"))
    sub_image(prog, rep)
    image_new(prog, rep)
    pixel_and_draw(prog, rep)
    contiguous_count(prog, rep)
    import witness
    witness.check(rep, "W09", ["W09Short", "W09Long", "W09Exact"])


def sub_image(prog, rep):
    n = prog.method1(SI, "new", None)
    ro = strip_refs(Origins(n).return_origin())
    bbp = ("call", "*::bounding_box", "_", (P(1, "parent"),))
    m = match(ro, ("agg", "*SubImage::SubImage", (P(1, "parent"), "?area")))
    ok = m is not None and (match(m["?area"], ("call", "*Rectangle::intersection", "_", (bbp, P(2, "area")))) is not None or match(m["?area"], ("call", "*Rectangle::intersection", "_", (P(2, "area"), bbp))) is not None)
    rep.check(ok, "R09.1", "SubImage::new", "the area of a sub image must be parent.bounding_box().intersection(area); found %s" % show(ro, maxd=5), at=n.span, fn=n.path)
    # writers of SubImage.area
    ws = set()
    for f in prog.fns.values():
        if not f.body:
            continue
        for b in f.body["blocks"]:
            for s in b["s"]:
                if s["k"] == "assign" and s["rv"]["k"] == "agg" and s["rv"].get("adt") == SI:
                    ws.add(f.path.split("::")[-1])
    rep.check(ws <= {"new", "new_unchecked", "clone"} and "new" in ws, "R09.1", "SubImage:constructors", "SubImage may only be built by new / new_unchecked; built in %s" % sorted(ws))
    callers = set()
    for f in prog.fns.values():
        if not f.body:
            continue
        for b in f.body["blocks"]:
            t = b["t"]
            if t and t["k"] == "call" and t["f"].get("name") == "new_unchecked" and "SubImage" in t["f"].get("path", ""):
                callers.add(f.path)
    rep.check(callers == {"embedded_graphics::mono_font::MonoFont::<'_>::glyph"}, "R09.1", "new_unchecked-callers", "SubImage::new_unchecked may only be called from MonoFont::glyph (whose cells are proved inside the atlas by R14.1/R14.5); callers: %s" % sorted(callers))
    # sub_image() extension builds SubImage::new(self, area)
    ext = [f for f in prog.fns.values() if f.name == "sub_image" and f.body and f.kind == "assoc_fn"]
    for f in ext:
        ro = strip_refs(Origins(f).return_origin())
        ok = match(ro, ("call", "*SubImage::<'a, T>::new", "_", (P(1, "self"), P(2, "area")))) is not None
        rep.check(ok, "R09.1", "ImageDrawableExt::sub_image", "sub_image(area) must be SubImage::new(self, area); found %s" % show(ro), at=f.span, fn=f.path)
    # draw / draw_sub_image forward on every path
    area = ("field", P(1, "self"), field_index(prog, SI, "area"))
    parent = ("field", P(1, "self"), field_index(prog, SI, "parent"))
    d = prog.method1(SI, "draw", "embedded_graphics_core::image::ImageDrawable")
    s = sites(d, "draw_sub_image")
    paths = enum_paths(CFG(d.body), 0, None, 64)
    ok = len(s) == 1 and s[0][1] == [parent, P(2, "target"), area] and len(paths) == 1
    rep.check(ok, "R09.1", "SubImage::draw", "SubImage::draw must unconditionally be parent.draw_sub_image(target, &self.area); found %s on %d path(s)" % ([show(x) for x in s[0][1]] if s else "?", len(paths)), at=d.span, fn=d.path)
    d = prog.method1(SI, "draw_sub_image", "embedded_graphics_core::image::ImageDrawable")
    s = sites(d, "draw_sub_image")
    paths = enum_paths(CFG(d.body), 0, None, 64)
    ok = len(s) == 1 and len(paths) == 1 and s[0][1][0] == parent and s[0][1][1] == P(2, "target") and \
        match(s[0][1][2], ("call", "*::translate", "_", (P(3, "area"), ("field", area, field_index(prog, RECT, "top_left"))))) is not None
    rep.check(ok, "R09.1", "SubImage::draw_sub_image", "nested sub images must unconditionally forward area.translate(self.area.top_left) to the parent (nesting composes; the parent rejects what lies outside); found %s on %d path(s)"
              % ([show(x, maxd=4) for x in s[0][1]] if s else "?", len(paths)), at=d.span, fn=d.path)
    sz = prog.method1(SI, "size", "embedded_graphics_core::geometry::OriginDimensions")
    ro = strip_refs(Origins(sz).return_origin())
    rep.check(ro == ("field", area, field_index(prog, RECT, "size")), "R09.1", "SubImage::size", "SubImage::size must be self.area.size; found %s" % show(ro), at=sz.span, fn=sz.path)


def bytes_per_row_form(prog, rep):
    f = prog.fn_by_path("embedded_graphics::image::image_raw::bytes_per_row")
    ro = fold(strip_refs(Origins(f).return_origin()))
    ok = match(ro, ("bin", "Div", ("bin", "Add", ("bin", "Mul", P(1, "width"), P(2, "bits_per_pixel")), ("const", 7)), ("const", 8))) is not None
    rep.check(ok, "R09.2", "bytes_per_row", "rows are padded to whole bytes: bytes_per_row must be (width*bpp + 7) / 8; found %s" % show(ro), at=f.span, fn=f.path)
    return f


def image_new(prog, rep):
    bpr = bytes_per_row_form(prog, rep)
    n = prog.method1(IR, "new", None)
    want_exp = ("bin", "Mul", ("call", bpr.path, "_", (("field", P(2, "size"), 0), "?bpp")), ("field", P(2, "size"), 1))
    ok_paths = 0
    good = True
    for lits, ret, path in decisions(n):
        r = strip_refs(ret)
        if r[0] == "agg" and r[1].endswith("Result::Ok"):
            ok_paths += 1
            cond = False
            for d, lit in lits:
                d = fold(strip_refs(d))
                m = match(d, ("bin", "Ne", ("call", "*::len", "_", (P(1, "data"),)), "?e"))
                if m is not None and lit_truth(lit) is False:
                    mm = match(m["?e"], want_exp)
                    cond = mm is not None and is_bpp(mm["?bpp"])
                m = match(d, ("bin", "Eq", ("call", "*::len", "_", (P(1, "data"),)), "?e"))
                if m is not None and lit_truth(lit) is True:
                    mm = match(m["?e"], want_exp)
                    cond = mm is not None and is_bpp(mm["?bpp"])
            good = good and cond
            # the stored fields are the arguments
            mm = match(r, ("agg", "*Result::Ok", (("agg", "*ImageRaw::ImageRaw", "?ops"),)))
            good = good and mm is not None and mm["?ops"][0] == P(1, "data") and mm["?ops"][1] == P(2, "size")
    rep.check(good and ok_paths >= 1, "R09.2", "ImageRaw::new", "ImageRaw::new must return Ok exactly when data.len() == bytes_per_row(size.width, BITS_PER_PIXEL) * size.height and store data/size unchanged", at=n.span, fn=n.path)
    nc = prog.method1(IR, "new_const", None)
    org = Origins(nc)
    s = sites(nc, "new", org)
    ok = len(s) == 1 and s[0][1] == [P(1, "data"), P(2, "size")]
    # every path that does not return the Ok payload ends in a panic
    cfg = org.cfg
    for lits, ret, path in decisions(nc):
        r = strip_refs(ret)
        ok = ok and match(r, ("field", ("variant", ("call", "*ImageRaw::<'a, C, O>::new", "_", "_"), "Ok"), 0)) is not None
    rep.check(ok, "R09.2", "ImageRaw::new_const", "new_const must return the Ok payload of Self::new(data, size) and panic otherwise", at=nc.span, fn=nc.path)
    dw = prog.method1(IR, "data_width", None)
    w = ("field", ("field", P(1, "self"), field_index(prog, IR, "size")), 0)
    table = {}
    for lits, ret, _ in decisions(dw):
        for d, lit in lits:
            d = fold(strip_refs(d))
            m = match(d, ("bin", "Lt", "?b", ("const", 8)))
            if m is not None and is_bpp(m["?b"]):
                table[lit_truth(lit)] = fold(strip_refs(ret))
            m = match(d, ("bin", "Ge", "?b", ("const", 8)))
            if m is not None and is_bpp(m["?b"]):
                table[not lit_truth(lit)] = fold(strip_refs(ret))
    sub = table.get(True)
    ok = table.get(False) == w and sub is not None
    if ok:
        m = match(sub, ("bin", "Mul", ("call", bpr.path, "_", (w, "?b1")), ("bin", "Div", ("const", 8), "?b2")))
        ok = m is not None and is_bpp(m["?b1"]) and is_bpp(m["?b2"])
    rep.check(ok, "R09.2", "ImageRaw::data_width", "data_width must be bytes_per_row(width, bpp) * (8 / bpp) below 8 bpp and width otherwise; found %s" % {k: show(v) for k, v in table.items()}, at=dw.span, fn=dw.path)


def pixel_and_draw(prog, rep):
    px = prog.method1(IR, "pixel", "embedded_graphics_core::image::GetPixel")
    org = Origins(px)
    size = ("field", P(1, "self"), field_index(prog, IR, "size"))
    x, y = ("field", P(2, "p"), 0), ("field", P(2, "p"), 1)
    s = sites(px, "nth", org)
    ok = len(s) == 1
    if ok:
        bi = s[0][0]
        gs = [(fold(strip_refs(d)), l) for d, l in dominating_guards(px, org, bi)]
        need = {"x>=0": False, "y>=0": False, "x<w": False, "y<h": False}
        for d, lit in gs:
            tv = lit_truth(lit)
            for ax, e, dim, k1, k2 in (("x", x, ("field", size, 0), "x>=0", "x<w"), ("y", y, ("field", size, 1), "y>=0", "y<h")):
                if match(d, ("bin", "Lt", e, ("const", 0))) is not None and tv is False:
                    need[k1] = True
                if match(d, ("bin", "Ge", e, dim)) is not None and tv is False:
                    need[k2] = True
                if match(d, ("bin", "Lt", e, dim)) is not None and tv is True:
                    need[k2] = True
        ok = all(need.values())
        rep.check(ok, "R09.3", "pixel:guards", "the data lookup in pixel() must be guarded by 0 <= x < width and 0 <= y < height (None exactly outside the bounding box); missing %s" % [k for k, v in need.items() if not v], at=px.span, fn=px.path)
        idx = fold(s[0][1][1])
        dwc = ("call", "*::data_width", "_", (P(1, "self"),))
        ok = match(idx, ("bin", "Add", x, ("bin", "Mul", y, dwc))) is not None
        rep.check(ok, "R09.3", "pixel:index", "pixel(p) must read item x + y * data_width(); reads %s" % show(idx), at=px.span, fn=px.path)
        # the iterator is a fresh RawDataSlice over self.data
        it = s[0][1][0]
        ok = any(match(n, ("call", "*RawDataSlice::<'a, R, O>::new", "_", (("field", P(1, "self"), field_index(prog, IR, "data")),))) is not None for n in walk(it))
        rep.check(ok, "R09.3", "pixel:source", "pixel() must index a fresh RawDataSlice over self.data", at=px.span, fn=px.path)
    else:
        rep.fail("R09.3", "pixel:guards", "pixel() no longer has a single nth() lookup", status="undecided", at=px.span, fn=px.path)
    # None on the rejecting paths
    for lits, ret, _ in decisions(px):
        pass

    dsi = prog.method1(IR, "draw_sub_image", "embedded_graphics_core::image::ImageDrawable")
    org = Origins(dsi)
    s = sites(dsi, "fill_contiguous", org)
    area = P(3, "area")
    tl = ("field", area, field_index(prog, RECT, "top_left"))
    asz = ("field", area, field_index(prog, RECT, "size"))
    if len(s) != 1:
        rep.fail("R09.3", "draw_sub_image", "exactly one fill_contiguous expected, found %d" % len(s), status="undecided", at=dsi.span, fn=dsi.path)
        return
    bi, a, t = s[0]
    gs = [(fold(strip_refs(d)), l) for d, l in dominating_guards(dsi, org, bi)]
    need = {"nonzero": False, "x>=0": False, "y>=0": False, "x+w<=W": False, "y+h<=H": False}
    for d, lit in gs:
        tv = lit_truth(lit)
        if match(d, ("call", "*Rectangle::is_zero_sized", "_", (area,))) is not None and tv is False:
            need["nonzero"] = True
        for e, k in ((("field", tl, 0), "x>=0"), (("field", tl, 1), "y>=0")):
            if match(d, ("bin", "Lt", e, ("const", 0))) is not None and tv is False:
                need[k] = True
        for i, k in ((0, "x+w<=W"), (1, "y+h<=H")):
            if match(d, ("bin", "Gt", ("bin", "Add", ("field", tl, i), ("field", asz, i)), ("field", size, i))) is not None and tv is False:
                need[k] = True
            if match(d, ("bin", "Le", ("bin", "Add", ("field", tl, i), ("field", asz, i)), ("field", size, i))) is not None and tv is True:
                need[k] = True
    rep.check(all(need.values()), "R09.3", "draw_sub_image:guards", "the sub-image draw must be rejected unless the area is non-empty and lies completely inside the image; missing guard(s) %s" % [k for k, v in need.items() if not v],
              at=dsi.span, fn=dsi.path)
    dwc = ("call", "*::data_width", "_", (P(1, "self"),))
    ok = match(a[1], ("call", "*Rectangle::new", "_", (("call", "*Point::zero", "_", ()), asz))) is not None
    m = match(fold(a[2]), ("call", "*ContiguousPixels::<'a, C, O>::new", "_", (P(1, "self"), asz, "?init", "?skip")))
    ok = ok and m is not None
    if ok:
        ok = match(m["?init"], ("bin", "Add", ("bin", "Mul", ("field", tl, 1), dwc), ("field", tl, 0))) is not None and match(m["?skip"], ("bin", "Sub", dwc, ("field", asz, 0))) is not None
    rep.check(ok, "R09.3", "draw_sub_image:stream", "the stream must be ContiguousPixels::new(self, area.size, y*data_width + x, data_width - area.width) on every path into Rectangle(zero, area.size); found %s"
              % [show(fold(x), maxd=5) for x in a[1:]], at=dsi.span, fn=dsi.path)
    d = prog.method1(IR, "draw", "embedded_graphics_core::image::ImageDrawable")
    s = sites(d, "fill_contiguous")
    if len(s) == 1:
        m = match(fold(s[0][1][2]), ("call", "*ContiguousPixels::<'a, C, O>::new", "_", (P(1, "self"), size, ("const", 0), "?skip")))
        ok = m is not None and match(m["?skip"], ("bin", "Sub", dwc, ("field", size, 0))) is not None
        rep.check(ok, "R09.3", "draw:stream", "ImageRaw::draw must skip data_width() - width padding pixels per row; found %s" % show(fold(s[0][1][2]), maxd=5), at=d.span, fn=d.path)


def contiguous_count(prog, rep):
    """R09.4 colour count of ContiguousPixels by a potential function.
    Φ = remaining_x + remaining_y * width.  Every path of next() that pulls from the raw iterator lowers Φ
    by exactly 1, the path that stops has Φ = 0, so the stream holds Φ(new) colours; required: width*height."""
    fidx = {f["name"]: i for i, f in enumerate(prog.adts[CP]["variants"][0]["fields"])}
    nx = prog.method1(CP, "next", "core::iter::traits::iterator::Iterator")
    cfg = CFG(nx.body)
    selff = lambda n: ("field", ("deref", P(1, "self")), fidx[n])
    syms = {selff("remaining_x"): "rx", selff("remaining_y"): "ry", selff("width"): "W"}

    def leaf(t):
        return syms.get(t)
    phi = Poly.sym("rx") + Poly.sym("ry") * Poly.sym("W")
    ok = True
    why = []
    n_emit = n_stop = 0
    for path in enum_paths(cfg, 0, None, 64):
        po = Origins(nx, path=path)
        last = len(path) - 1
        pulls = [b for b in path if nx.body["blocks"][b]["t"] and nx.body["blocks"][b]["t"]["k"] == "call" and nx.body["blocks"][b]["t"]["f"].get("name") in ("next", "nth")
                 and "image_raw" not in nx.body["blocks"][b]["t"]["f"].get("path", "")]
        try:
            after = {s: tree_to_poly(fold(po._place(1, ("*", ("f", fidx[n])), last, po.end(last))), leaf) for n, s in (("remaining_x", "rx"), ("remaining_y", "ry"), ("width", "W"))}
        except NotPolynomial as e:
            ok = False
            why.append("counter update not polynomial: %s" % e)
            continue
        # equalities from the path condition: !(rx > 0) => rx = 0 ; ry == 0 => ry = 0
        eqs = {}
        for d, lit in path_conditions(nx, path, po):
            d = fold(d)
            tv = lit_truth(lit)
            for s_tree, s in syms.items():
                if match(d, ("bin", "Gt", s_tree, ("const", 0))) is not None and tv is False:
                    eqs[s] = 0
                if match(d, ("bin", "Eq", s_tree, ("const", 0))) is not None and tv is True:
                    eqs[s] = 0
                if match(d, ("bin", "Ne", s_tree, ("const", 0))) is not None and tv is False:
                    eqs[s] = 0
        before = phi
        aft = phi
        for s in ("rx", "ry", "W"):
            aft = aft.subs(s, after[s]) if False else aft
        # simultaneous substitution
        aft = Poly()
        for k, v in phi.t.items():
            term = Poly.const(v)
            for s in k:
                term = term * after[s]
            aft = aft + term
        for s, val in eqs.items():
            before = before.subs(s, Poly.const(val))
            aft = aft.subs(s, Poly.const(val))
        if pulls:
            n_emit += 1
            if len(pulls) != 1 or not (before - aft == Poly.const(1)):
                ok = False
                why.append("a path that pulls a colour changes the remaining count by %s instead of -1" % (aft - before))
        else:
            n_stop += 1
            if not before.is_zero():
                ok = False
                why.append("next() can stop while %s colours remain" % before)
    rep.check(ok and n_emit >= 2 and n_stop >= 1, "R09.4", "ContiguousPixels::next:potential",
              "remaining_x + remaining_y*width must be the number of colours still to come (each pulling path lowers it by 1, stop only at 0): %s" % "; ".join(why[:3]), at=nx.span, fn=nx.path, status="undecided")
    # initial potential from new()
    nw = prog.method1(CP, "new", None)
    sz = P(2, "size")
    isyms = {("field", sz, 0): "w", ("field", sz, 1): "h"}
    bad = []
    n_paths = 0
    for lits, ret, path in decisions(nw):
        r = strip_refs(ret)
        if r[0] != "agg":
            bad.append("constructor does not return the struct aggregate")
            continue
        n_paths += 1
        try:
            init = {n: tree_to_poly(fold(r[2][fidx[n]]), lambda t: isyms.get(t)) for n in ("remaining_x", "remaining_y", "width")}
        except NotPolynomial as e:
            bad.append("initial counters not polynomial in the size: %s" % e)
            continue
        phi0 = init["remaining_x"] + init["remaining_y"] * init["width"]
        want = Poly.sym("w") * Poly.sym("h")
        # path facts: width > 0 or width == 0
        eq = {}
        for d, lit in lits:
            d = fold(strip_refs(d))
            tv = lit_truth(lit)
            for s_tree, s in isyms.items():
                if match(d, ("bin", "Gt", s_tree, ("const", 0))) is not None and tv is False:
                    eq[s] = 0
                if match(d, ("bin", "Eq", s_tree, ("const", 0))) is not None and tv is True:
                    eq[s] = 0
        for s, v in eq.items():
            phi0 = phi0.subs(s, Poly.const(v))
            want = want.subs(s, Poly.const(v))
        if not (phi0 == want):
            cond = " (width = 0)" if eq.get("w") == 0 else (" (height = 0)" if eq.get("h") == 0 else " (width > 0)")
            bad.append("the stream is initialised with %s colours%s, the area has %s" % (phi0, cond, want))
    rep.check(not bad and n_paths >= 1, "R09.4", "ContiguousPixels::new:count",
              "the colour stream handed to fill_contiguous must contain exactly width x height colours: " + "; ".join(bad[:2]), at=nw.span, fn=nw.path, detail=bad)
    rep.sample({"rule": "R09.4", "potential": "remaining_x + remaining_y*width", "emitting_paths": n_emit, "stopping_paths": n_stop})
