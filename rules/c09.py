"""C09 — raw images and sub-images reproduce their pixel data exactly (structural part)."""
from mirq import ty_str
from mirq.cfg import CFG
from mirq.origin import Origins, show, walk, decisions, lit_truth, enum_paths, path_conditions, dominating_guards
from mirq.pat import match, find, strip_refs
from mirq.poly import Poly, tree_to_poly, NotPolynomial
from mirq.expand import Expander
from rules.c14 import field_index
from rules.c10 import fold
from rules.c03 import sites
from mirq.paths import Paths, Unsupported, check_guarded, show_fact, show_eff, NONE, UNIT, passes_result

IR = "embedded_graphics::image::image_raw::ImageRaw"
SI = "embedded_graphics::image::sub_image::SubImage"
CP = "embedded_graphics::image::image_raw::ContiguousPixels"
RECT = "embedded_graphics_core::primitives::rectangle::Rectangle"
P = lambda i, n: ("param", i, n)
BPP = "embedded_graphics_core::pixelcolor::raw::RawData::BITS_PER_PIXEL"


def image_src(prog, t):
    """the image whose data a ContiguousPixels stream reads: `self`, or `self.data` for a constructor that takes the slice"""
    t = strip_refs(t)
    return t == P(1, "self") or t == ("field", P(1, "self"), field_index(prog, IR, "data"))


def is_bpp(t):
    return t[0] == "const" and isinstance(t[1], str) and t[1].startswith(BPP)


def run(ctx, rep):
    prog = ctx.program("default")
    rep.configs.append(getattr(ctx, "alias", "default"))
    sub_image(prog, rep)
    image_new(prog, rep)
    pixel_and_draw(prog, rep)
    contiguous_count(prog, rep)
    stream_layout(prog, rep)
    from rules import c01 as _c01
    _c01.image_paths(prog, rep)     # R01.5: Image::draw / ImageRaw::draw wiring on every path (whole-image path fills its own box)
    from rules import axis
    axis.run_for(prog, rep, 'R09.5', ['src/image'], 'image data is addressed as row * width + column and sub images are cut per axis')
    import witness
    witness.check(rep, "W09", ["W09Short", "W09Long", "W09Exact"])


def stream_layout(prog, rep):
    """R09.6 which raw item the image's colour stream emits for which (column, row): the potential-function rule of
    rules/streams.py on ContiguousPixels::next / new (item (c, r) = raw item initial_skip + r * (width + row_skip) + c)."""
    from rules import c03
    try:
        # consumed so far, up to a constant: -(remaining_y * (width + row_skip) + remaining_x); a row change happens at
        # remaining_x = 0
        c03.stream_position(prog, rep, "R09.6", "ContiguousPixels::next:position", CP,
                            {"remaining_x": "rx", "remaining_y": "ry", "width": "w", "row_skip": "k"},
                            lambda st: Poly() - st["ry"] * (st["w"] + st["k"]) - st["rx"], ("rx", 0, "le"), check_ret=False)   # the returned colour: R09.4
    except Exception as e:
        import traceback; traceback.print_exc()
        rep.fail("R09.6", "engine", "stream layout analysis crashed: %r" % (e,), status="undecided")


def sub_image(prog, rep):
    P_ = Paths(prog, inline=lambda g: prog.is_new(g) or (g.name == "new_unchecked" and "sub_image::SubImage" in g.path))
    n = prog.method1(SI, "new", None)
    bbp = ("call", "*::bounding_box", "_", (P(1, "parent"),))
    inter = {("call", "*Rectangle::intersection", "_", (bbp, P(2, "area"))), ("call", "*Rectangle::intersection", "_", (P(2, "area"), bbp))}
    try:
        summs = P_.of(n)
        ok = bool(summs)
        for sm in summs:
            m = match(sm.ret, ("agg", "*SubImage::SubImage", (P(1, "parent"), "?area")))
            ok = ok and not sm.effects and m is not None and match(m["?area"], inter) is not None
        rep.check(ok, "R09.1", "SubImage::new", "the area of a sub image must be parent.bounding_box().intersection(area) on every path; found %s" % [show(sm.ret, maxd=5) for sm in summs][:2], at=n.span, fn=n.path)
    except Unsupported as e:
        rep.fail("R09.1", "SubImage::new", "cannot summarise SubImage::new: %s" % e, status="undecided", at=n.span, fn=n.path)
    # writers of SubImage.area
    ws = set()
    for f in prog.fns.values():
        if not f.body:
            continue
        for b in f.body["blocks"]:
            for s in b["s"]:
                if s["k"] == "assign" and s["rv"]["k"] == "agg" and s["rv"].get("adt") == SI:
                    ws.add(f.path.split("::")[-1])
    rep.check(ws <= {"new", "new_unchecked", "clone"} and ws & {"new", "new_unchecked"}, "R09.1", "SubImage:constructors", "SubImage may only be built by new / new_unchecked; built in %s" % sorted(ws))
    callers = set()
    for f in prog.fns.values():
        if not f.body:
            continue
        for b in f.body["blocks"]:
            t = b["t"]
            if t and t["k"] == "call" and t["f"].get("name") == "new_unchecked" and "SubImage" in t["f"].get("path", ""):
                callers.add(f.root_fn().path)
    # SubImage::new may build through new_unchecked: its area is the intersection (checked above)
    allowed = {"embedded_graphics::mono_font::MonoFont::<'_>::glyph", n.path}
    rep.check(callers <= allowed and "embedded_graphics::mono_font::MonoFont::<'_>::glyph" in callers, "R09.1", "new_unchecked-callers",
              "SubImage::new_unchecked may only be called from MonoFont::glyph (whose cells are proved inside the atlas by R14.1/R14.5) and from SubImage::new with the intersected area; callers: %s" % sorted(callers))
    # sub_image() extension builds SubImage::new(self, area)
    ext = [f for f in prog.fns.values() if f.name == "sub_image" and f.body and f.kind == "assoc_fn"]
    for f in ext:
        ro = strip_refs(Origins(f).return_origin())
        ok = match(ro, ("call", "*SubImage::<'a, T>::new", "_", (P(1, "self"), P(2, "area")))) is not None
        rep.check(ok, "R09.1", "ImageDrawableExt::sub_image", "sub_image(area) must be SubImage::new(self, area); found %s" % show(ro), at=f.span, fn=f.path)
    # draw / draw_sub_image forward on every path and pass the parent's result on
    area = ("field", P(1, "self"), field_index(prog, SI, "area"))
    parent = ("field", P(1, "self"), field_index(prog, SI, "parent"))
    tr = {("call", "*::translate", "_", (P(3, "area"), ("field", area, field_index(prog, RECT, "top_left")))),
          ("call", "*::translate", "_", (area, ("field", P(3, "area"), field_index(prog, RECT, "top_left"))))} if False else \
        ("call", "*::translate", "_", (P(3, "area"), ("field", area, field_index(prog, RECT, "top_left"))))
    for name, key, want_area, msg in (("draw", "SubImage::draw", area, "SubImage::draw must unconditionally be parent.draw_sub_image(target, &self.area)"),
                                      ("draw_sub_image", "SubImage::draw_sub_image", tr, "nested sub images must unconditionally forward area.translate(self.area.top_left) to the parent (nesting composes; the parent rejects what lies outside)")):
        d = prog.method1(SI, name, "embedded_graphics_core::image::ImageDrawable")
        try:
            summs = P_.of(d)
        except Unsupported as e:
            rep.fail("R09.1", key, "cannot summarise: %s" % e, status="undecided", at=d.span, fn=d.path)
            continue
        ok = bool(summs)
        found = []
        for sm in summs:
            cs = [e[1] for e in sm.calls() if e[1][1].split("::")[-1] == "draw_sub_image"]
            found.append("; ".join(show_eff(e) for e in sm.effects))
            good = len(sm.effects) == 1 and len(cs) == 1 and cs[0][3][0] == parent and cs[0][3][1] == P(2, "target") and match(cs[0][3][2], want_area) is not None and passes_result(sm, cs[0])
            # the only conditions allowed are on the outcome of the forwarded call
            good = good and all(f[0] == "variant" and f[1][:4] == cs[0][:4] for f in sm.facts)
            ok = ok and good
        rep.check(ok, "R09.1", key, msg + "; found %s" % found[:2], at=d.span, fn=d.path)
    sz = prog.method1(SI, "size", "embedded_graphics_core::geometry::OriginDimensions")
    ro = strip_refs(Origins(sz).return_origin())
    rep.check(ro == ("field", area, field_index(prog, RECT, "size")), "R09.1", "SubImage::size", "SubImage::size must be self.area.size; found %s" % show(ro), at=sz.span, fn=sz.path)


def _bpr(w):
    """(w * bpp + 7) / 8 with bpp = the colour's BITS_PER_PIXEL (pattern; casts stripped, constants folded)"""
    return ("bin", "Div", ("bin", "Add", ("bin", "Mul", w, "?bpp"), ("const", 7)), ("const", 8))


def _inl_bpr(prog):
    return lambda g: prog.is_new(g) or (g.name == "bytes_per_row" and "image_raw" in g.path)


def _nocast(t):
    from mirq.origin import subst
    return subst(t, lambda n: n[1] if n[0] == "cast" else None)


def bytes_per_row_form(prog, rep):
    """the row-length helper, wherever it lives (free function or associated, with the depth as a parameter or read from the
    colour type): (width * bpp + 7) / 8"""
    fs = [f for f in prog.fns.values() if f.body and f.name == "bytes_per_row" and f.kind in ("fn", "assoc_fn") and "image_raw" in f.path]
    if len(fs) != 1:
        # no helper (inlined at its uses): the formula is matched where it is used (ImageRaw::new, data_width)
        rep.ok("R09.2", "bytes_per_row", detail="no bytes_per_row helper (%d); the formula is matched at its uses" % len(fs))
        return None
    f = fs[0]
    ro = _nocast(fold(strip_refs(Origins(f).return_origin())))
    m = match(ro, _bpr(P(1, "width")))
    ok = m is not None and (m["?bpp"] == P(2, "bits_per_pixel") or is_bpp(m["?bpp"]))
    rep.check(ok, "R09.2", "bytes_per_row", "rows are padded to whole bytes: bytes_per_row must be (width*bpp + 7) / 8; found %s" % show(ro), at=f.span, fn=f.path)
    return f


def image_new(prog, rep):
    bytes_per_row_form(prog, rep)
    n = prog.method1(IR, "new", None)
    P_ = Paths(prog, inline=_inl_bpr(prog))
    want_exp = ("bin", "Mul", _bpr(("field", P(2, "size"), 0)), ("field", P(2, "size"), 1))
    ok_paths = 0
    good = True
    try:
        summs = P_.of(n)
    except Unsupported:
        summs = []
        good = False
    for sm in summs:
        r = strip_refs(sm.ret)
        if r[0] == "agg" and r[1].endswith("Result::Ok"):
            ok_paths += 1
            cond = False
            for fc in sm.facts:
                if fc[0] != "eq":
                    continue
                sides = [_nocast(fold(strip_refs(x))) for x in fc[1:3]]
                for a_, b_ in (sides, sides[::-1]):
                    if match(a_, ("call", "*::len", "_", (P(1, "data"),))) is not None or (a_[0] == "un" and a_[1] == "PtrMetadata" and strip_refs(a_[2]) == P(1, "data")):
                        mm = match(b_, want_exp)
                        cond = cond or (mm is not None and is_bpp(mm["?bpp"]))
            good = good and cond and len(sm.facts) == 1
            # the stored fields are the arguments
            mm = match(r, ("agg", "*Result::Ok", (("agg", "*ImageRaw::ImageRaw", "?ops"),)))
            good = good and mm is not None and strip_refs(mm["?ops"][0]) == P(1, "data") and strip_refs(mm["?ops"][1]) == P(2, "size")
    rep.check(good and ok_paths >= 1, "R09.2", "ImageRaw::new", "ImageRaw::new must return Ok exactly when data.len() == bytes_per_row(size.width, BITS_PER_PIXEL) * size.height and store data/size unchanged", at=n.span, fn=n.path)
    nc = prog.method1(IR, "new_const", None)
    org = Origins(nc)
    s = sites(nc, "new", org)
    ok = len(s) == 1 and s[0][1] == [P(1, "data"), P(2, "size")]
    # every path that does not return the Ok payload ends in a panic
    cfg = org.cfg
    for lits, ret, path in decisions(nc):
        r = strip_refs(ret)
        ok = ok and match(r, ("field", ("variant", ("call", "*ImageRaw::<'a, C, O>::new", "_", "_"), "Ok"), 0)) is not None
    rep.check(ok, "R09.2", "ImageRaw::new_const", "new_const must return the Ok payload of Self::new(data, size) and panic otherwise", at=nc.span, fn=nc.path)
    dw = prog.method1(IR, "data_width", None)
    w = ("field", ("field", P(1, "self"), field_index(prog, IR, "size")), 0)
    table = {}
    try:
        for sm in Paths(prog, inline=_inl_bpr(prog)).of(dw):
            for fc in sm.facts:
                a_, b_ = (_nocast(fold(strip_refs(x))) if isinstance(x, tuple) and x and isinstance(x[0], str) else x for x in fc[1:3])
                if fc[0] == "lt" and is_bpp(a_) and b_ == ("const", 8):
                    table[True] = _nocast(fold(strip_refs(sm.ret)))
                elif fc[0] == "le" and a_ == ("const", 8) and is_bpp(b_):
                    table[False] = _nocast(fold(strip_refs(sm.ret)))
                elif fc[0] == "le" and is_bpp(a_) and b_ == ("const", 7):
                    table[True] = _nocast(fold(strip_refs(sm.ret)))
                elif fc[0] == "lt" and a_ == ("const", 7) and is_bpp(b_):
                    table[False] = _nocast(fold(strip_refs(sm.ret)))
    except Unsupported:
        pass
    sub = table.get(True)
    ok = table.get(False) == w and sub is not None
    if ok:
        m = match(sub, ("bin", "Mul", _bpr(w), ("bin", "Div", ("const", 8), "?b2")))
        ok = m is not None and is_bpp(m["?bpp"]) and is_bpp(m["?b2"])
    rep.check(ok, "R09.2", "ImageRaw::data_width", "data_width must be bytes_per_row(width, bpp) * (8 / bpp) below 8 bpp and width otherwise; found %s" % {k: show(v) for k, v in table.items()}, at=dw.span, fn=dw.path)


def pixel_and_draw(prog, rep):
    """R09.3 on path summaries: the lookup / the draw happens exactly when the point / the area lies inside."""
    P_ = Paths(prog)
    px = prog.method1(IR, "pixel", "embedded_graphics_core::image::GetPixel")
    size = ("field", P(1, "self"), field_index(prog, IR, "size"))
    x, y = ("field", P(2, "p"), 0), ("field", P(2, "p"), 1)
    w, h = ("field", size, 0), ("field", size, 1)
    Z = ("const", 0)

    def lookup(sm):
        return [n for f in sm.facts if f[0] == "variant" for n in [f[1]] if n[0] == "call" and n[1].split("::")[-1] == "nth"] + \
               [n for n in walk(sm.ret) if n[0] == "call" and n[1].split("::")[-1] == "nth"]
    try:
        summs = P_.of(px)
    except Unsupported as e:
        summs = None
        rep.fail("R09.3", "pixel:guards", "cannot summarise pixel(): %s" % e, status="undecided", at=px.span, fn=px.path)
    if summs is not None:
        needs = {"x>=0": ("le", Z, x), "y>=0": ("le", Z, y), "x<w": ("lt", x, w), "y<h": ("lt", y, h)}
        missing, unjust = check_guarded(summs, lambda sm: bool(lookup(sm)), needs)
        rep.check(not missing, "R09.3", "pixel:guards", "the data lookup in pixel() must be guarded by 0 <= x < width and 0 <= y < height (None exactly outside the bounding box); missing %s" % missing, at=px.span, fn=px.path)
        bad = ["a path returns without a lookup although %s" % ("; ".join(show_fact(f) for f in sm.facts) or "nothing was tested") for sm in unjust]
        bad += ["a path without lookup returns %s" % show(sm.ret, maxd=3) for sm in summs if not lookup(sm) and sm.ret != NONE]
        rep.check(not bad, "R09.3", "pixel:none-only-outside", "pixel() may return without a lookup only for points outside the image, and then None: " + "; ".join(bad[:2]), at=px.span, fn=px.path)
        ls = list(dict.fromkeys(n[:4] for sm in summs for n in lookup(sm)))
        if len(ls) != 1:
            rep.fail("R09.3", "pixel:index", "pixel() no longer has a single nth() lookup (%d)" % len(ls), status="undecided", at=px.span, fn=px.path)
        else:
            L = ls[0]
            idx = fold(L[3][1])
            dwc = ("call", "*::data_width", "_", (P(1, "self"),))
            ok = match(idx, ("bin", "Add", x, ("bin", "Mul", y, dwc))) is not None
            rep.check(ok, "R09.3", "pixel:index", "pixel(p) must read item x + y * data_width(); reads %s" % show(idx), at=px.span, fn=px.path)
            ok = any(match(n, ("call", "*RawDataSlice::<'a, R, O>::new", "_", (("field", P(1, "self"), field_index(prog, IR, "data")),))) is not None for n in walk(L[3][0]))
            rep.check(ok, "R09.3", "pixel:source", "pixel() must index a fresh RawDataSlice over self.data", at=px.span, fn=px.path)
            # the outcome of the lookup is passed on, converted to the colour
            bad = []
            for sm in summs:
                for f in sm.facts:
                    if f[0] == "variant" and f[1][:4] == L:
                        if f[2] == ("None",) and sm.ret != NONE:
                            bad.append("lookup failed but pixel() returns %s" % show(sm.ret, maxd=3))
                        if f[2] == ("Some",):
                            r = sm.ret
                            good = r[0] == "agg" and r[1].endswith("Option::Some") and r[2][0][0] == "call" and r[2][0][1].endswith(("::from", "::into")) and len(r[2][0][3]) == 1 \
                                and r[2][0][3][0][0] == "payload" and r[2][0][3][0][1][:4] == L
                            if not good:
                                bad.append("lookup succeeded but pixel() returns %s" % show(sm.ret, maxd=4))
            rep.check(not bad, "R09.3", "pixel:result", "pixel() must return the looked-up raw value converted to the colour: " + "; ".join(bad[:2]), at=px.span, fn=px.path)

    dsi = prog.method1(IR, "draw_sub_image", "embedded_graphics_core::image::ImageDrawable")
    area = P(3, "area")
    tl = ("field", area, field_index(prog, RECT, "top_left"))
    asz = ("field", area, field_index(prog, RECT, "size"))
    try:
        summs = P_.of(dsi)
    except Unsupported as e:
        rep.fail("R09.3", "draw_sub_image", "cannot summarise draw_sub_image(): %s" % e, status="undecided", at=dsi.span, fn=dsi.path)
        return
    fills = lambda sm: [e[1] for e in sm.calls() if e[1][1].split("::")[-1] == "fill_contiguous"]
    aw, ah = ("field", asz, 0), ("field", asz, 1)
    zs = ("call", "embedded_graphics_core::primitives::rectangle::Rectangle::is_zero_sized", (), (area,))
    needs = {"nonzero": ("alt", ("false", zs), ("all", ("ne", aw, Z), ("ne", ah, Z))),
             "x>=0": ("le", Z, ("field", tl, 0)), "y>=0": ("le", Z, ("field", tl, 1)),
             "x+w<=W": ("alt", ("le", ("bin", "Add", ("field", tl, 0), aw), w), ("le", ("bin", "Add", aw, ("field", tl, 0)), w)),
             "y+h<=H": ("alt", ("le", ("bin", "Add", ("field", tl, 1), ah), h), ("le", ("bin", "Add", ah, ("field", tl, 1)), h))}
    missing, unjust = check_guarded(summs, lambda sm: bool(sm.effects), needs)
    rep.check(not missing, "R09.3", "draw_sub_image:guards", "the sub-image draw must be rejected unless the area is non-empty and lies completely inside the image; missing guard(s) %s" % missing,
              at=dsi.span, fn=dsi.path)
    bad = ["nothing is drawn although %s" % ("; ".join(show_fact(f) for f in sm.facts) or "nothing was tested") for sm in unjust]
    bad += ["a path that draws nothing returns %s" % show(sm.ret, maxd=3) for sm in summs if not sm.effects and sm.ret != ("agg", "core::result::Result::Ok", (UNIT,))]
    rep.check(not bad, "R09.3", "draw_sub_image:draws-inside", "a sub image inside the image must be drawn (Ok(()) without drawing only for empty or overhanging areas): " + "; ".join(bad[:2]), at=dsi.span, fn=dsi.path)
    acting = [sm for sm in summs if sm.effects]
    dwc = ("call", "*::data_width", "_", (P(1, "self"),))
    ok = bool(acting)
    shown = "?"
    for sm in acting:
        fc = fills(sm)
        if len(sm.effects) != 1 or len(fc) != 1:
            ok = False
            shown = "; ".join(show_eff(e) for e in sm.effects)
            continue
        a = fc[0][3]
        shown = [show(fold(v), maxd=5) for v in a[1:]]
        good = a[0] == P(2, "target") and match(a[1], ("call", "*Rectangle::new", "_", (("call", "*Point::zero", "_", ()), asz))) is not None
        m = match(fold(a[2]), ("call", "*ContiguousPixels::<'a, C, O>::new", "_", ("?src", asz, "?init", "?skip")))
        good = good and m is not None and image_src(prog, m["?src"])
        if good:
            good = match(m["?init"], ("bin", "Add", ("bin", "Mul", ("field", tl, 1), dwc), ("field", tl, 0))) is not None and match(m["?skip"], ("bin", "Sub", dwc, ("field", asz, 0))) is not None
        good = good and sm.ret[:4] == fc[0][:4]
        ok = ok and good
    rep.check(ok, "R09.3", "draw_sub_image:stream", "the stream must be ContiguousPixels::new(self, area.size, y*data_width + x, data_width - area.width) on every path into Rectangle(zero, area.size), and its result returned; found %s"
              % shown, at=dsi.span, fn=dsi.path)
    d = prog.method1(IR, "draw", "embedded_graphics_core::image::ImageDrawable")
    s = sites(d, "fill_contiguous")
    if len(s) == 1:
        m = match(fold(s[0][1][2]), ("call", "*ContiguousPixels::<'a, C, O>::new", "_", ("?src", size, ("const", 0), "?skip")))
        ok = m is not None and image_src(prog, m["?src"]) and match(m["?skip"], ("bin", "Sub", dwc, ("field", size, 0))) is not None
        rep.check(ok, "R09.3", "draw:stream", "ImageRaw::draw must skip data_width() - width padding pixels per row; found %s" % show(fold(s[0][1][2]), maxd=5), at=d.span, fn=d.path)


def contiguous_count(prog, rep):
    """R09.4 colour count of ContiguousPixels by a potential function, on path summaries.
    Φ = remaining_x + remaining_y * width.  Every path of next() that pulls from the raw iterator lowers Φ
    by exactly 1 and returns the pulled colour, the path that stops has Φ = 0, so the stream holds Φ(new) colours;
    required: width*height."""
    fidx = {f["name"]: i for i, f in enumerate(prog.adts[CP]["variants"][0]["fields"])}
    nx = prog.method1(CP, "next", "core::iter::traits::iterator::Iterator")
    P_ = Paths(prog)
    selff = lambda n: ("field", P(1, "self"), fidx[n])
    syms = {selff("remaining_x"): "rx", selff("remaining_y"): "ry", selff("width"): "W"}
    Z = ("const", 0)

    def zero_syms(facts, table):
        """symbols a path's facts force to 0 (unsigned counters: x <= 0, x == 0, !(0 < x))"""
        out = {}
        for f in facts:
            f = tuple(fold(x) if isinstance(x, tuple) else x for x in f)
            for tree, sname in table.items():
                if f in (("eq", tree, Z), ("eq", Z, tree), ("le", tree, Z)):
                    out[sname] = 0
        return out

    phi = Poly.sym("rx") + Poly.sym("ry") * Poly.sym("W")
    ok = True
    why = []
    n_emit = n_stop = 0
    try:
        summs = P_.of(nx)
    except Unsupported as e:
        summs = []
        why.append("cannot summarise next(): %s" % e)
        ok = False
    for sm in summs:
        pulls = [e[1] for e in sm.calls() if e[1][1].split("::")[-1] in ("next", "nth") and e[1][3] and e[1][3][0] == selff("iter")]
        other = [e for e in sm.calls() if e[1] not in pulls]
        after = {"rx": Poly.sym("rx"), "ry": Poly.sym("ry"), "W": Poly.sym("W")}
        try:
            for w in sm.writes():
                lv = w[1]
                if lv in syms:
                    after[syms[lv]] = tree_to_poly(fold(w[2]), lambda t: syms.get(t))
                elif lv[0] == "field" and lv[1] == P(1, "self"):
                    pass  # another field of the iterator (not a counter)
                else:
                    raise NotPolynomial("write to %s" % show(lv, maxd=3))
        except NotPolynomial as e:
            ok = False
            why.append("counter update not polynomial: %s" % e)
            continue
        if other:
            ok = False
            why.append("unexpected effect %s" % show_eff(other[0]))
        eqs = zero_syms(sm.facts, syms)
        before = phi
        aft = Poly()
        for k, v in phi.t.items():
            term = Poly.const(v)
            for s_ in k:
                term = term * after[s_]
            aft = aft + term
        for s_, val in eqs.items():
            before = before.subs(s_, Poly.const(val))
            aft = aft.subs(s_, Poly.const(val))
        if pulls:
            n_emit += 1
            if len(pulls) != 1 or not (before - aft == Poly.const(1)):
                ok = False
                why.append("a path that pulls a colour changes the remaining count by %s instead of -1" % (aft - before))
            # the pulled colour is what the path returns
            L = pulls[0]
            vs = [f[2] for f in sm.facts if f[0] == "variant" and f[1][:4] == L[:4]]
            r = sm.ret
            if vs == [("None",)]:
                good = r == NONE
            elif vs == [("Some",)]:
                good = r[0] == "agg" and r[1].endswith("Option::Some") and r[2][0][0] == "call" and r[2][0][1].endswith(("::from", "::into")) and r[2][0][3][0][0] == "payload" and r[2][0][3][0][1][:4] == L[:4]
            else:
                good = r[0] == "call" and r[:4] == L[:4] or (r[0] == "comb" and r[2][:4] == L[:4])
            if not good:
                ok = False
                why.append("a path that pulls a colour returns %s" % show(r, maxd=4))
        else:
            n_stop += 1
            if not before.is_zero():
                ok = False
                why.append("next() can stop while %s colours remain" % before)
            if sm.ret != NONE or sm.effects:
                ok = False
                why.append("the stopping path returns %s / has effects" % show(sm.ret, maxd=3))
    rep.check(ok and n_emit >= 2 and n_stop >= 1, "R09.4", "ContiguousPixels::next:potential",
              "remaining_x + remaining_y*width must be the number of colours still to come (each pulling path lowers it by 1 and returns the pulled colour, stop only at 0): %s" % "; ".join(why[:3]), at=nx.span, fn=nx.path, status="undecided")
    # initial potential from new()
    nw = prog.method1(CP, "new", None)
    # the stream reads the data of the image it is built for: iter = RawDataSlice::new(<image>.data | <data slice>).into_iter()
    try:
        from mirq.origin import Origins as _O
        src_ok = False
        ro_ = strip_refs(_O(nw).return_origin())
        alts = ro_[1] if ro_[0] == "phi" else (ro_,)
        src_ok = bool(alts)
        its = []
        for alt in alts:
            alt = strip_refs(alt)
            it0 = strip_refs(alt[2][fidx["iter"]]) if alt[0] == "agg" else None
            its += list(it0[1]) if it0 is not None and it0[0] == "phi" else [it0]
        for it in its:
            it = strip_refs(it) if it is not None else None
            while it is not None and it[0] == "mut":
                it = strip_refs(it[1])
            mm = match(it, ("call", "*::into_iter", "_", (("call", "*RawDataSlice::<'a, R, BO>::new", "_", ("?d",)),))) if it is not None else None
            if mm is None and it is not None and it[0] == "call" and it[1].split("::")[-1] == "into_iter" and len(it[3]) == 1:
                inner = strip_refs(it[3][0])
                if inner[0] == "call" and inner[1].split("::")[-1] == "new" and "RawDataSlice" in inner[1] and len(inner[3]) == 1:
                    mm = {"?d": inner[3][0]}
            d_ = strip_refs(mm["?d"]) if mm else None
            p1 = nw.body["locals"][1]["ty"]
            is_img = "ImageRaw" in str(p1)
            src_ok = src_ok and d_ is not None and (d_ == ("field", ("param", 1, nw.body["locals"][1].get("name")), field_index(prog, IR, "data")) if is_img else (d_[0] == "param" and d_[1] == 1))
    except Exception:
        src_ok = False
    rep.check(src_ok, "R09.4", "ContiguousPixels::new:source", "the colour stream must iterate RawDataSlice::new(image.data) of the image (or data slice) it is constructed with", at=nw.span, fn=nw.path, status="undecided")
    sz = P(2, "size")
    isyms = {("field", sz, 0): "w", ("field", sz, 1): "h"}
    bad = []
    n_paths = 0
    try:
        summs = P_.of(nw)
    except Unsupported as e:
        summs = []
        bad.append("cannot summarise new(): %s" % e)
    for sm in summs:
        r = sm.ret
        if r[0] != "agg" or not str(r[1]).endswith("ContiguousPixels"):
            bad.append("constructor does not return the struct aggregate")
            continue
        n_paths += 1
        try:
            init = {n: tree_to_poly(fold(r[2][fidx[n]]), lambda t: isyms.get(t)) for n in ("remaining_x", "remaining_y", "width")}
        except NotPolynomial as e:
            bad.append("initial counters not polynomial in the size: %s" % e)
            continue
        phi0 = init["remaining_x"] + init["remaining_y"] * init["width"]
        want = Poly.sym("w") * Poly.sym("h")
        eq = zero_syms(sm.facts, isyms)
        for s_, v in eq.items():
            phi0 = phi0.subs(s_, Poly.const(v))
            want = want.subs(s_, Poly.const(v))
        if not (phi0 == want):
            cond = " (width = 0)" if eq.get("w") == 0 else (" (height = 0)" if eq.get("h") == 0 else " (width > 0)")
            bad.append("the stream is initialised with %s colours%s, the area has %s" % (phi0, cond, want))
    rep.check(not bad and n_paths >= 1, "R09.4", "ContiguousPixels::new:count",
              "the colour stream handed to fill_contiguous must contain exactly width x height colours: " + "; ".join(bad[:2]), at=nw.span, fn=nw.path, detail=bad)
    rep.sample({"rule": "R09.4", "potential": "remaining_x + remaining_y*width", "emitting_paths": n_emit, "stopping_paths": n_stop})
