def run(ctx, rep):
    from rules import degree
    degree.run_c07(ctx, rep)
