"""C05 — points() enumerates exactly the points contains() accepts (structural part: both sides evaluate the same
membership predicate on the same arguments)."""
import re
from mirq import ty_str
from mirq.cfg import CFG
from mirq.origin import Origins, show, walk, decisions, lit_truth, enum_paths, path_conditions, dominating_guards
from mirq.pat import match, find, strip_refs
from rules.c14 import field_index
from rules.c10 import fold
from rules.c03 import sites, closure_ret
from rules.c16 import family_signature
from rules import c19
from mirq.paths import Paths, Unsupported, CONTINUES, is_continues, ptr_root, show_fact
from mirq.origin import subst

PRIM = "embedded_graphics::primitives::"
P = lambda i, n: ("param", i, n)


def dist_predicate(t):
    """-> (op, a, b, threshold) for  cast(length_squared(a - b)) op threshold   (t in canonical form: Lt / Le only,
    `th > d` is `d < th`)"""
    for n in walk(t):
        m = match(n, ("bin", "?op", ("cast", ("call", "*::length_squared", "_", (("call", "*Sub>::sub", "_", ("?a", "?b")),)), "u32"), "?th"))
        if m is not None and m["?op"] in ("Lt", "Le"):
            return m["?op"], m["?a"], m["?b"], m["?th"]
        m = match(n, ("bin", "?op", "?th", ("cast", ("call", "*::length_squared", "_", (("call", "*Sub>::sub", "_", ("?a", "?b")),)), "u32")))
        if m is not None and m["?op"] in ("Lt", "Le"):
            return {"Lt": "Gt", "Le": "Ge"}[m["?op"]], m["?a"], m["?b"], m["?th"]
    return None


def pred_tree(prog, f):
    """canonical tree of a straight-line boolean function / closure, helpers introduced by an edit looked through"""
    key = "_c05_paths"
    if not hasattr(prog, key):
        setattr(prog, key, Paths(prog))
    try:
        summs = getattr(prog, key).of(f)
    except Unsupported:
        return None
    if len(summs) == 1 and not summs[0].facts and not summs[0].effects:
        return summs[0].ret
    return None


def search_acceptance(prog, f):
    """The ways an iterator's next() hands out an item of an inner search (loops / find / rfind walked once):
    [(item, facts, returned value)] for the summaries that return Some(..) without going on to a further item.
    item = the payload of the inner next()/next_back() the facts talk about (None if there is none)."""
    key = "_c05_paths_once"
    if not hasattr(prog, key):
        setattr(prog, key, Paths(prog, loops="once"))
    summs = getattr(prog, key).of(f)
    out = []
    for sm in summs:
        if sm.ret is None or sm.ret[0] != "agg" or not str(sm.ret[1]).endswith("Option::Some"):
            continue
        if any(is_continues(n) for x in [sm.ret] + [y for fct in sm.facts for y in fct[1:] if isinstance(y, tuple)] for n in walk(x)):
            continue
        items = [fct[1] for fct in sm.facts if fct[0] == "variant" and fct[2] == ("Some",) and fct[1][0] == "call" and fct[1][1].split("::")[-1] in ("next", "next_back")]
        out.append((("payload", items[-1]) if items else None, list(sm.facts), sm.ret[2][0]))
    return out


def is_doubled(t, pt):
    return match(t, ("call", "*Mul<i32>>::mul", "_", (pt, ("const", 2)))) is not None


def run(ctx, rep):
    prog = ctx.program("default")
    rep.configs.append(getattr(ctx, "alias", "default"))
    circle(prog, rep)
    ellipse(prog, rep)
    sector(prog, rep)
    rounded(prog, rep)
    rows_without_hit(prog, rep)
    points_end(prog, rep)
    rounded_wrapper(prog, rep)
    # triangle: canonical edges in contains() and in the scanline intersection (shared with C19)
    c19.triangle_edges(prog, rep)
    c19.edge_rasteriser(prog, rep)
    rectangle(prog, rep)


def circle(prog, rep):
    C = PRIM + "circle::Circle"
    co = prog.method1(C, "contains", PRIM + "ContainsPoint")
    pt_ = pred_tree(prog, co)
    pc = dist_predicate(pt_) if pt_ is not None else None
    SL = PRIM + "circle::points::Scanlines"
    nx = prog.method1(SL, "next", "core::iter::traits::iterator::Iterator")
    nw = prog.method1(SL, "new", None)
    fidx = {f["name"]: i for i, f in enumerate(prog.adts[SL]["variants"][0]["fields"])}
    init = strip_refs(Origins(nw).return_origin())
    ps = None
    try:
        for item, facts, val in search_acceptance(prog, nx):
            for fct in facts:
                if fct[0] in ("lt", "le"):
                    r = dist_predicate(("bin", "Lt" if fct[0] == "lt" else "Le", fct[1], fct[2]))
                    if r is not None:
                        ps = (nx, r)
    except Unsupported:
        pass
    ok = pc is not None and ps is not None and init[0] == "agg"
    why = "distance predicate not found on one side"
    if ok:
        op1, a1, b1, th1 = pc
        c, (op2, a2, b2, th2) = ps
        # contains: center_2x(self) - point*2 ; threshold(self)
        cen1 = a1 if is_doubled(b1, P(2, "point")) else (b1 if is_doubled(a1, P(2, "point")) else None)
        good1 = cen1 is not None and match(cen1, ("call", "*Circle::center_2x", "_", (P(1, "self"),))) is not None and match(th1, ("call", "*Circle::threshold", "_", (P(1, "self"),))) is not None
        # scanline: Point::new(x, y)*2 - self.center_2x ; self.threshold  (fields initialised from the same circle)
        pt2 = a2 if a2[0] == "call" and a2[1].endswith("Mul<i32>>::mul") else b2
        cen2 = b2 if pt2 is a2 else a2
        good2 = match(pt2, ("call", "*Mul<i32>>::mul", "_", (("call", "*Point::new", "_", ("_", "_")), ("const", 2)))) is not None
        def self_field(t, fname):
            # the iterator's own field
            return t[0] == "field" and t[2] == fidx[fname] and t[1][0] == "param" and t[1][1] == 1
        good2 = good2 and self_field(cen2, "center_2x") and self_field(th2, "threshold")
        i_c, i_t = init[2][fidx["center_2x"]], init[2][fidx["threshold"]]
        good3 = match(i_c, ("call", "*Circle::center_2x", "_", (P(1, "circle"),))) is not None and match(i_t, ("call", "*Circle::threshold", "_", (P(1, "circle"),))) is not None
        ok = good1 and good2 and good3 and op1 == op2 == "Lt"
        why = "Circle::contains tests |center_2x - 2p|^2 %s threshold() and the row search tests |2p - center_2x|^2 %s threshold with fields initialised as center_2x=%s threshold=%s: both must be the same strict comparison against the same circle's values" % (op1, op2, show(i_c, maxd=3), show(i_t, maxd=3))
    rep.check(ok, "R05.1", "circle", why, at=co.span, fn=co.path)
    rep.sample({"rule": "R05.1", "circle": "|center_2x - 2p|^2 < threshold on both sides"})


from rules.c16_tables import _artifact


def _point_comps(t):
    t = strip_refs(t)
    if t[0] == "agg" and str(t[1]).endswith("Point::Point") and len(t[2]) == 2:
        return t[2]
    if t[0] == "call" and t[1].endswith("Point::new") and len(t[3]) == 2:
        return t[3]
    return None


def _is_centred(pt, p_of, tl_of, ext_of):
    """pt == 2 * p - (2 * top_left + (extent - 1)) per axis (saturating), as polynomial normal forms"""
    from rules.c16_tables import nf
    comps = _point_comps(pt)
    if comps is None:
        return False
    for i in (0, 1):
        want = ("bin", "Sub", ("bin", "Mul", p_of(i), ("const", 2)),
                ("bin", "Add", ("bin", "Mul", tl_of(i), ("const", 2)), ("call", "core::num::<impl u32>::saturating_sub", (), (ext_of(i), ("const", 1)))))
        if nf(comps[i]) is None or nf(comps[i]) != nf(want):
            return False
    return True


def _is_centre2x(t, tl_of, ext_of):
    from rules.c16_tables import nf
    comps = _point_comps(t)
    if comps is None:
        return False
    return all(nf(comps[i]) is not None and nf(comps[i]) == nf(("bin", "Add", ("bin", "Mul", tl_of(i), ("const", 2)), ("call", "core::num::<impl u32>::saturating_sub", (), (ext_of(i), ("const", 1))))) for i in (0, 1))


def ellipse(prog, rep):
    """the wiring is compared with every crate-local callee inlined except the predicate itself (EllipseContains), so a
    centre method that has been inlined, moved or turned into a free function makes no difference"""
    E = PRIM + "ellipse::Ellipse"
    keep = lambda g: "EllipseContains" in g.path or g.name in ("rows", "columns", "bounding_box")
    Pin = Paths(prog, inline=lambda g: not keep(g), depth=6)
    co = prog.method1(E, "contains", PRIM + "ContainsPoint")
    sz_i = field_index(prog, E, "size")
    tl_i = field_index(prog, E, "top_left")
    ok, found = False, "?"
    try:
        ss = Pin.of(co)
        found = "; ".join(show(x.ret, maxd=5) for x in ss[:2])
        ok = len(ss) == 1 and not [f for f in ss[0].facts if not _artifact(f)]
        if ok:
            m = match(strip_refs(ss[0].ret), ("call", "*EllipseContains::contains", "_", ("?ec", "?pt")))
            ok = m is not None and match(strip_refs(m["?ec"]), ("call", "*EllipseContains::new", "_", (("field", P(1, "self"), sz_i),))) is not None \
                and _is_centred(m["?pt"], lambda i: ("field", P(2, "point"), i), lambda i: ("field", ("field", P(1, "self"), tl_i), i), lambda i: ("field", ("field", P(1, "self"), sz_i), i))
    except Unsupported as e:
        found = "cannot summarise: %s" % e
    rep.check(ok, "R05.1", "ellipse:contains", "Ellipse::contains must be EllipseContains::new(self.size).contains(2p - center_2x()); found %s" % found, at=co.span, fn=co.path)
    SL = PRIM + "ellipse::points::Scanlines"
    nw = prog.method1(SL, "new", None)
    fidx = {f["name"]: i for i, f in enumerate(prog.adts[SL]["variants"][0]["fields"])}
    ok, init = False, ("const", "?")
    try:
        ss = Pin.of(nw)
        ok = len(ss) == 1 and not [f for f in ss[0].facts if not _artifact(f)] and ss[0].ret[0] == "agg"
        if ok:
            init = ss[0].ret
            el = P(1, "ellipse")
            ok = _is_centre2x(init[2][fidx["center_2x"]], lambda i: ("field", ("field", el, tl_i), i), lambda i: ("field", ("field", el, sz_i), i))
            ok = ok and match(strip_refs(init[2][fidx["ellipse_contains"]]) if "ellipse_contains" in fidx else ("x",), ("call", "*EllipseContains::new", "_", (("field", el, sz_i),))) is not None
    except Unsupported as e:
        pass
    rep.check(ok, "R05.1", "ellipse:scanlines-init", "the row search must be initialised with the same ellipse's center_2x() and EllipseContains::new(size); found %s" % show(init, maxd=4), at=nw.span, fn=nw.path)
    nx = prog.method1(SL, "next", "core::iter::traits::iterator::Iterator")
    n = 0
    good = True
    selff = lambda nm: ("field", P(1, "self"), fidx[nm])
    try:
        acc = search_acceptance(prog, nx)
    except Unsupported:
        acc = []
    for item, facts, val in acc:
        tests = [fct[1] for fct in facts if fct[0] == "true" and fct[1][0] == "call" and fct[1][1].endswith("EllipseContains::contains")]
        for t in tests:
            n += 1
            ec, pt = t[3]
            good = good and ec == selff("ellipse_contains")
            vec = match(pt, ("call", "*Sub>::sub", "_", (("call", "*Mul<i32>>::mul", "_", (("call", "*Point::new", "_", ("_", "_")), ("const", 2))), selff("center_2x")))) is not None
            comp = match(fold(pt), ("call", "*Point::new", "_", (("bin", "Sub", ("bin", "Mul", "_", ("const", 2)), ("field", selff("center_2x"), 0)), "?sy"))) is not None
            good = good and (vec or comp)
        if not tests:
            good = False
    rep.check(good and n >= 1, "R05.1", "ellipse:scanlines-predicate", "the row search must accept a column exactly on ellipse_contains.contains(2*(x, y) - center_2x) (%d accepting path(s) found)" % n, at=nx.span, fn=nx.path)


def sector(prog, rep):
    S = PRIM + "sector::Sector"
    C = PRIM + "circle::Circle"
    co = prog.method1(S, "contains", PRIM + "ContainsPoint")
    angs = (("field", P(1, "self"), field_index(prog, S, "angle_start")), ("field", P(1, "self"), field_index(prog, S, "angle_sweep")))
    # summarised with everything inlined except the two predicates (the circle's contains and PlaneSector): helper
    # methods (to_circle, center_2x, plane_sector ..) may come and go
    keep = lambda g: "PlaneSector" in g.path or (g.name == "contains" and "circle::Circle" in g.path)
    ok_paths = 0
    good = True
    tl_i, d_i = field_index(prog, S, "top_left"), field_index(prog, S, "diameter")
    me = P(1, "self")
    try:
        for sm in Paths(prog, inline=lambda g: not keep(g), depth=6).of(co):
            cf = [f for f in sm.facts if f[0] in ("true", "false") and f[1][0] == "call" and f[1][1].endswith("ContainsPoint>::contains") and "Circle" in f[1][1]]
            rest = [f for f in sm.facts if f not in cf and not _artifact(f)]
            if len(cf) != 1 or rest:
                good = False
                continue
            c_, p_ = [strip_refs(x) for x in cf[0][1][3]]
            circ_ok = p_ == P(2, "point") and ((c_[0] == "agg" and str(c_[1]).endswith("Circle::Circle") and [strip_refs(x) for x in c_[2]] == [("field", me, tl_i), ("field", me, d_i)])
                                               or match(c_, ("call", "*Circle::new", "_", (("field", me, tl_i), ("field", me, d_i)))) is not None
                                               or match(c_, ("call", "*Sector::to_circle", "_", (me,))) is not None)
            good = good and circ_ok
            r = strip_refs(sm.ret)
            if cf[0][0] == "true":
                ok_paths += 1
                m = match(r, ("call", "*PlaneSector::contains", "_", (("call", "*PlaneSector::new", "_", angs), "?pt")))
                good = good and m is not None and _is_centred(m["?pt"], lambda i: ("field", P(2, "point"), i), lambda i: ("field", ("field", me, tl_i), i), lambda i: ("field", me, d_i))
            else:
                good = good and r == ("const", False)
    except Unsupported as e:
        good = False
    rep.check(good and ok_paths == 1, "R05.1", "sector:contains", "Sector::contains must be to_circle().contains(p) && PlaneSector::new(angle_start, angle_sweep).contains(2p - center_2x())", at=co.span, fn=co.path)
    PT = PRIM + "sector::points::Points"
    nw = prog.method1(PT, "new", None)
    init = strip_refs(Origins(nw).return_origin())
    fidx = {f["name"]: i for i, f in enumerate(prog.adts[PT]["variants"][0]["fields"])}
    circ = ("call", "*Sector::to_circle", "_", (P(1, "sector"),))
    sang = (("field", P(1, "sector"), field_index(prog, S, "angle_start")), ("field", P(1, "sector"), field_index(prog, S, "angle_sweep")))
    ok = init[0] == "agg" and match(init[2][fidx["iter"]], ("call", "*Circle::distances", "_", (circ,))) is not None \
        and match(init[2][fidx["threshold"]], ("call", "*Circle::threshold", "_", (circ,))) is not None \
        and match(init[2][fidx["plane_sector"]], ("call", "*PlaneSector::new", "_", sang)) is not None
    rep.check(ok, "R05.1", "sector:points-init", "Sector::points must scan the distances of the whole circle sector.to_circle() (every candidate point of the bounding box) with that circle's threshold and PlaneSector::new(angle_start, angle_sweep); found %s" % show(init, maxd=4),
              at=nw.span, fn=nw.path)
    nx = prog.method1(PT, "next", "core::iter::traits::iterator::Iterator")
    selfp = lambda nm: ("field", P(1, "self"), fidx[nm])
    good = False
    n_acc = 0
    try:
        acc = search_acceptance(prog, nx)
    except Unsupported:
        acc = []
    for item, facts, val in acc:
        n_acc += 1
        if item is None or ptr_root(item[1])[:2] != ("param", 1) or not any(n == selfp("iter") for n in walk(item[1])):
            good = False
            break
        rest = [fct for fct in facts if not (fct[0] == "variant" and fct[1] == item[1])]
        want = [("lt", ("field", item, 2), selfp("threshold")), ("true", ("call", "embedded_graphics::primitives::common::plane_sector::PlaneSector::contains", (), (selfp("plane_sector"), ("field", item, 1))))]
        good = sorted(map(repr, rest)) == sorted(map(repr, want)) and val == ("field", item, 0)
        if not good:
            break
    rep.check(good and n_acc >= 1, "R05.1", "sector:points-predicate", "the point search must accept (point, delta, distance) iff distance < threshold && plane_sector.contains(delta), and yield that point", at=nx.span, fn=nx.path)
    # the iterator yields delta = 2p - center_2x and distance = |delta|^2
    DI = PRIM + "common::distance_iterator::DistanceIterator"
    dn = prog.method1(DI, "next", "core::iter::traits::iterator::Iterator")
    dfidx = {f["name"]: i for i, f in enumerate(prog.adts[DI]["variants"][0]["fields"])}
    ok = False
    try:
        summs = Paths(prog).of(dn)
        some = [sm for sm in summs if sm.ret[0] == "agg" and str(sm.ret[1]).endswith("Option::Some")]
        none = [sm for sm in summs if sm not in some]
        ok = len(some) >= 1 and all(sm.ret == ("agg", "core::option::Option::None", ()) for sm in none)
        for sm in some:
            m = match(sm.ret[2][0], ("agg", "tuple", ("?p", "?delta", "?dist")))
            c2x = ("field", P(1, "self"), dfidx["center_2x"])
            ok = ok and m is not None and m["?p"][0] == "payload" and m["?p"][1][0] == "call" and m["?p"][1][1].endswith("::next") \
                and match(m["?delta"], ("call", "*Sub>::sub", "_", (("call", "*Mul<i32>>::mul", "_", (m["?p"], ("const", 2))), c2x))) is not None \
                and match(m["?dist"], ("cast", ("call", "*::length_squared", "_", (m["?delta"],)), "u32")) is not None
    except Unsupported:
        ok = False
    rep.check(ok, "R05.1", "distance-iterator", "DistanceIterator must yield (p, 2p - center_2x, |2p - center_2x|^2) for every point p of its inner iterator", at=dn.span, fn=dn.path)
    # two copies of one formula: compared as polynomial normal forms with every crate-local callee inlined (a sector that
    # delegates to its circle, destructuring, Size::new_equal vs Size::new make no difference)
    from rules.c16_tables import nf, canon
    Pall = Paths(prog, inline=lambda g: True, depth=6)
    b = prog.method1(C, "center_2x", None)
    me = P(1, "self")
    want = lambda i: ("bin", "Add", ("bin", "Mul", ("field", ("field", me, 0), i), ("const", 2)), ("call", "core::num::<impl u32>::saturating_sub", (), (("field", me, 1), ("const", 1))))
    fi_s = {f["name"]: i for i, f in enumerate(prog.adts[S]["variants"][0]["fields"])}
    fi_c = {f["name"]: i for i, f in enumerate(prog.adts[C]["variants"][0]["fields"])}
    layout_ok = fi_s.get("top_left") == 0 and fi_s.get("diameter") == 1 and fi_c.get("top_left") == 0 and fi_c.get("diameter") == 1
    bad = []
    cands = [f for f in prog.fns.values() if f.body and f.name == "center_2x" and f.impl and prog.impls[f.impl]["self_ty"].get("adt") == S]
    for f_ in cands + [b]:
        try:
            for sm in Pall.of(f_):
                r = sm.ret
                comps = r[2] if r[0] == "agg" and len(r[2]) == 2 else None
                if comps is None or any(nf(comps[i]) is None or nf(comps[i]) != nf(want(i)) for i in (0, 1)):
                    bad.append("%s::center_2x gives %s" % (f_.path.split("::")[-2], show(canon(r), maxd=5)))
        except Unsupported as e:
            bad.append("cannot summarise %s: %s" % (f_.path, e))
    rep.check(not bad and layout_ok, "R05.1", "sector:center_2x", "Sector::center_2x and Circle::center_2x must both be top_left * 2 + (diameter - 1): %s" % "; ".join(bad[:2]), at=b.span, fn=b.path)


def rounded(prog, rep):
    RC = PRIM + "rounded_rectangle::RoundedRectangleContains"
    fidx = {f["name"]: i for i, f in enumerate(prog.adts[RC]["variants"][0]["fields"])}
    names = {v: k for k, v in fidx.items()}
    co = prog.method1(RC, "contains", None)
    want = {"top_left": ("straight_rows_left", 0, "Lt"), "top_right": ("straight_rows_right", 0, "Lt"), "bottom_left": ("straight_rows_left", 1, "Ge"), "bottom_right": ("straight_rows_right", 1, "Ge")}
    selff = lambda n: ("field", P(1, "self"), fidx[n])
    py = ("field", P(2, "point"), 1)
    table = {}
    probs = []

    def guard_fact(base, w, y):
        side, bound, op = w
        B = ("field", ("field", base, fidx[side]), bound)
        return ("lt", y, B) if op == "Lt" else ("le", B, y)

    def neg(f):
        return ("le", f[2], f[1]) if f[0] == "lt" else ("lt", f[2], f[1])

    def nocast(facts):
        return [tuple(fold(x) if isinstance(x, tuple) and x and isinstance(x[0], str) and x[0] not in ("not", "any") else x for x in fct) for fct in facts]
    me = P(1, "self")
    px = ("field", P(2, "point"), 0)
    n_true = 0
    try:
        summs = Paths(prog).of(co)
    except Unsupported as e:
        summs = []
        probs.append("cannot summarise contains(): %s" % e)
    for sm in summs:
        r = sm.ret
        fs = nocast(sm.facts)
        if r[0] == "call" and "EllipseQuadrant" in r[1] and r[1].endswith("::contains") and len(r[3]) == 2 and r[3][1] == P(2, "point") and r[3][0][0] == "field" and r[3][0][1] == me:
            q = names.get(r[3][0][2])
            w = want.get(q)
            has = w is not None and guard_fact(me, w, py) in fs
            if not has:
                probs.append("quadrant %s is consulted without its row guard %s (conditions on the path: %s)" % (q, w, "; ".join(show_fact(x) for x in sm.facts)))
            table[q] = w if has else None
        elif r == ("const", True):
            n_true += 1
            # accepted without asking a quadrant: the point must lie outside each quadrant's region — its row guard
            # is false on the path, or its column test is
            for q, w in want.items():
                qf = ("field", me, fidx[q])
                row_excl = neg(guard_fact(me, w, py)) in fs
                if q.endswith("left"):
                    col_excl = any(fct[0] == "le" and fct[2] == px and any(n == qf for n in walk(fct[1])) for fct in fs)
                else:
                    col_excl = any(fct[0] == "lt" and fct[1] == px and any(n == qf for n in walk(fct[2])) for fct in fs)
                if not row_excl and not col_excl:
                    probs.append("an accepting path does not exclude the %s corner region first (a shortcut that accepts a point by a row test alone bypasses the corner curves): %s" % (q, "; ".join(show_fact(x) for x in sm.facts)))
                    break
        elif r == ("const", False):
            pass
        else:
            probs.append("unrecognised result %s" % show(r, maxd=4))
    if set(table) != set(want):
        probs.append("quadrants consulted: %s" % sorted(table))
    if not n_true:
        probs.append("no accepting fall-through found")
    rep.check(not probs, "R05.2", "rounded:contains-table", "; ".join(probs[:3]), at=co.span, fn=co.path, detail={k: str(v) for k, v in table.items()})
    # points side: each row search consults the quadrant of its side under the same row guard, first column (find)
    # on the left, last column (rfind) on the right
    SL = PRIM + "rounded_rectangle::points::Scanlines"
    nx = prog.method1(SL, "next", "core::iter::traits::iterator::Iterator")
    rr = ("field", me, field_index(prog, SL, "rounded_rectangle"))
    got = {}
    probs = []
    try:
        if not hasattr(prog, "_c05_paths_once"):
            prog._c05_paths_once = Paths(prog, loops="once")
        summs = prog._c05_paths_once.of(nx)
    except Unsupported as e:
        summs = []
        probs.append("cannot summarise the row search: %s" % e)
    for sm in summs:
        fs = nocast(sm.facts)
        for fct in fs:
            if fct[0] in ("true", "false") and fct[1][0] == "call" and "EllipseQuadrant" in fct[1][1] and fct[1][1].endswith("::contains") and len(fct[1][3]) == 2:
                qt, pt = fct[1][3]
                if not (qt[0] == "field" and qt[1] == rr):
                    probs.append("a row search consults %s" % show(qt, maxd=3))
                    continue
                q = names.get(qt[2])
                m = match(pt, ("call", "*Point::new", "_", ("?x", "?y")))
                if m is None or q not in want:
                    probs.append("unrecognised quadrant test %s" % show(fct[1], maxd=4))
                    continue
                x, y = m["?x"], m["?y"]
                cons = x[1][1].split("::")[-1] if x[0] == "payload" and x[1][0] == "call" else None
                if cons in ("next", "next_back") and x[1][3]:
                    # a forward search over the reversed range is the backward search (and vice versa)
                    it_ = strip_refs(x[1][3][0])
                    while it_[0] == "call" and it_[1].split("::")[-1] in ("into_iter", "by_ref", "clone", "rev") and len(it_[3]) == 1:
                        if it_[1].split("::")[-1] == "rev":
                            cons = "next_back" if cons == "next" else "next"
                        it_ = strip_refs(it_[3][0])
                rows_ok = guard_fact(rr, want[q], y) in fs
                y_ok = y[0] == "payload" and y[1][0] == "call" and y[1][1].split("::")[-1] == "next" and any(n == ("field", rr, fidx["rows"]) for n in walk(y[1]))
                prev = got.get(q)
                cur = (rows_ok and y_ok, {"next": "find", "next_back": "rfind"}.get(cons))
                got[q] = cur if prev is None or prev == cur else (False, "inconsistent")
    for q, w in want.items():
        g = got.get(q)
        if g is None:
            probs.append("no row search consults %s" % q)
            continue
        rows_ok, cons = g
        if not rows_ok:
            probs.append("%s is searched without the row guard contains() uses (%s) on the row taken from self.rounded_rectangle.rows" % (q, w))
        wc = "find" if q.endswith("left") else "rfind"
        if cons != wc:
            probs.append("%s must be searched with %s (first/last contained column), found %s" % (q, wc, cons))
    rep.check(not probs, "R05.2", "rounded:points-table", "; ".join(probs[:3]), at=nx.span, fn=nx.path, detail={k: str(v) for k, v in got.items()})
    rep.sample({"rule": "R05.2", "contains_table": {k: str(v) for k, v in table.items()}, "points_table": {str(k): str(v) for k, v in got.items()}})
    # R05.5 a corner row in which the corner search accepts no column: contains() rejects every column of the corner's
    # box in that row (contains-table above: in a corner row the columns of the corner are decided by the quadrant
    # alone), so the row starts right of the left corner / ends left of the right corner.  Falling back to the
    # rectangle's own first / last column hands out the corner's columns although no point of them is contained.
    def unclone(t):
        t = strip_refs(fold(t)) if isinstance(t, tuple) else t
        while isinstance(t, tuple) and t and t[0] == "call" and t[1].split("::")[-1] in ("clone", "into_iter", "by_ref") and len(t[3]) == 1:
            t = strip_refs(t[3][0])
        return t
    cols = ("field", rr, fidx["columns"])
    bad5, und5, n5 = [], [], 0
    for sm in summs:
        r = sm.ret
        m = match(r, ("agg", "*Option::Some", (("call", "*Scanline::new", "_", ("?y", ("agg", "*Range::Range", ("?s", "?e")))),))) if r is not None else None
        if m is None:
            continue
        fs = nocast(sm.facts)
        for side, qs, own, edge in (("left", ("top_left", "bottom_left"), 0, 1), ("right", ("top_right", "bottom_right"), 1, 0)):
            q = [q_ for q_ in qs if guard_fact(rr, want[q_], m["?y"]) in fs]
            if len(q) != 1:
                continue                      # a straight row on this side
            q = q[0]
            qf = ("field", rr, fidx[q])
            if any(fct[0] == "true" and fct[1][0] == "call" and fct[1][1].endswith("::contains") and len(fct[1][3]) == 2 and fct[1][3][0] == qf for fct in fs):
                continue                      # the search accepted a column: R05.2 (find / rfind) speaks for the bound
            v = m["?s"] if side == "left" else m["?e"]
            v = fold(v) if isinstance(v, tuple) else v
            if any(n_[0] == "payload" and n_[1][0] == "call" and (is_continues(n_[1]) or n_[1][1].split("::")[-1] in ("next", "next_back", "find", "rfind")) for n_ in walk(v)):
                continue                      # a column the search handed out (found after the first one)
            n5 += 1
            base = unclone(v[1]) if v[0] == "field" else None
            if v[0] == "field" and base == cols and v[2] == own:
                bad5.append("a %s row in which no column of the corner is inside it %s at the rectangle's own %s column: contains() rejects the corner's columns of that row" % (q.replace("_", " "), "starts" if side == "left" else "ends", "first" if side == "left" else "last"))
            elif v[0] == "field" and v[2] == edge and base is not None and match(base, ("call", "*::columns", "_", (("call", "*::bounding_box", "_", (qf,)),))) is not None:
                pass
            else:
                und5.append("%s bound of a %s row without an accepted column is %s" % (side, q, show(v, maxd=5)))
    if bad5:
        rep.fail("R05.5", "rounded:corner-row-without-hit", "; ".join(sorted(set(bad5))[:2]), at=nx.span, fn=nx.path)
    elif und5 or n5 < 4:
        rep.fail("R05.5", "rounded:corner-row-without-hit", "; ".join(sorted(set(und5))[:2]) or "expected failed-search paths for the four corners (%d)" % n5, status="undecided", at=nx.span, fn=nx.path)
    else:
        rep.ok("R05.5", "rounded:corner-row-without-hit", at=nx.span, fn=nx.path, detail={"paths": n5})
    # constructor: straight rows
    nw = prog.method1(RC, "new", None)
    init = strip_refs(Origins(nw).return_origin())
    ok = init[0] == "agg"
    if ok:
        for side, top, bot in (("straight_rows_left", "TopLeft", "BottomLeft"), ("straight_rows_right", "TopRight", "BottomRight")):
            v = fold(init[2][fidx[side]])
            m = match(v, ("agg", "*Range::Range", (("bin", "Add", "?rs", "?th"), ("bin", "Sub", "?re", "?bh"))))
            good = m is not None and ("Quadrant::" + top) in show(m["?th"], maxd=12) and ("Quadrant::" + bot) in show(m["?bh"], maxd=12) and "rows" in show(m["?rs"], maxd=6) and "rows" in show(m["?re"], maxd=6)
            ok = ok and good
    rep.check(ok, "R05.2", "rounded:straight-rows", "straight_rows_{left,right} must be rows.start + top corner height .. rows.end - bottom corner height of the same side", at=nw.span, fn=nw.path)


def rectangle(prog, rep):
    """Rectangle::points is the row-major enumeration of exactly the rectangle: Points::new takes the corners from
    the rectangle itself and is empty for zero sizes."""
    PT = "embedded_graphics_core::primitives::rectangle::points::Points"
    nw = prog.method1(PT, "new", None)
    ok = True
    seen = 0
    for lits, ret, path in decisions(nw):
        r = strip_refs(ret)
        if r[0] == "call" and r[1].endswith("Points::empty"):
            continue
        seen += 1
        ok = ok and match(r, ("agg", "*Points::Points", (("call", "*Rectangle::columns", "_", (P(1, "rectangle"),)), ("call", "*Rectangle::rows", "_", (P(1, "rectangle"),)), ("field", ("call", "*Rectangle::columns", "_", (P(1, "rectangle"),)), 0)))) is not None
    rep.check(ok and seen >= 1, "R05.3", "rectangle:points-new", "Rectangle's point iterator must walk rectangle.columns() within rectangle.rows(), starting at columns().start", at=nw.span, fn=nw.path)


# rows in which the search finds nothing: "cannot happen" beliefs, confirmed by reading, one line each
ROW_ALWAYS_HIT = {
    "circle": "every row of a circle's bounding box contains a point (diameter_to_threshold makes the circle touch all four sides, rows are contiguous: the C18 clauses) — the find() cannot fail",
}


def rows_without_hit(prog, rep):
    """R05.4 the row searches behind points() (and behind the styled renderers): a row in which no column is accepted
    must not END the enumeration — later rows may still contain points (narrow, tall ellipses have empty top rows).
    On the path summaries (loops walked once): no path that has taken a row from `rows` returns None."""
    for shape in ("circle", "ellipse", "rounded_rectangle"):
        SL = PRIM + shape + "::points::Scanlines"
        try:
            nx = prog.method1(SL, "next", "core::iter::traits::iterator::Iterator")
        except Exception as e:
            rep.fail("R05.4", shape + ":empty-row", "anchor lost: %s" % e, status="undecided")
            continue
        if shape in ROW_ALWAYS_HIT:
            rep.assume("R05.4 %s: %s" % (shape, ROW_ALWAYS_HIT[shape]))
            continue
        bad = []
        n = 0
        try:
            if not hasattr(prog, "_c05_paths_once"):
                prog._c05_paths_once = Paths(prog, loops="once")
            for sm in prog._c05_paths_once.of(nx):
                took = [fct for fct in sm.facts if fct[0] == "variant" and fct[2] == ("Some",) and fct[1][0] == "call" and fct[1][1].split("::")[-1] == "next"
                        and any(n_[0] == "field" and n_[1] == P(1, "self") for n_ in walk(fct[1])) and "rows" in _field_names(prog, SL, fct[1])]
                if not took:
                    continue
                n += 1
                if sm.ret == ("agg", "core::option::Option::None", ()) and not any(is_continues(x) for fct in sm.facts for y in fct[1:] if isinstance(y, tuple) for x in walk(y)):
                    bad.append("after taking a row the enumeration ends when %s" % "; ".join(show_fact(x) for x in sm.facts if x not in took))
                outer = True
                if sm.ret is None and sm.trail:
                    # which loop does this partial path close?  the row loop iff its head lies at or before the block
                    # that pulls the row (an inner `for x in columns` closes behind it: next column, not next row)
                    blocks_ = nx.body["blocks"]
                    tr_ = list(sm.trail)
                    t_last = blocks_[tr_[-1]]["t"] or {}
                    succ_ = [t_last.get("t")] if t_last.get("k") in ("goto", "call", "drop", "assert") else [b_ for _, b_ in t_last.get("targets", [])] + [t_last.get("otherwise")]
                    heads_ = [tr_.index(b_) for b_ in succ_ if b_ in tr_]
                    pulls_ = [i_ for i_, b_ in enumerate(tr_) if (blocks_[b_]["t"] or {}).get("k") == "call" and (blocks_[b_]["t"]["f"].get("name") == "next")]
                    if heads_ and pulls_ and min(heads_) > pulls_[0]:
                        outer = False
                if sm.ret is None and outer:
                    # the row is given up without a scanline (next iteration): only an exhausted column search justifies
                    # that — a shortcut test ("the centre column is outside") is a second membership predicate
                    searched = any(fct[0] == "variant" and fct[2] == ("None",) and (is_continues(fct[1]) or (fct[1][0] == "call" and fct[1][1].split("::")[-1] in ("next", "next_back", "find", "rfind", "position")
                                                                                                              and "columns" in _field_names(prog, SL, fct[1]))) for fct in sm.facts)
                    if not searched:
                        bad.append("a row is skipped without an exhausted column search when %s" % "; ".join(show_fact(x)[:80] for x in sm.facts if x not in took)[:300])
        except Unsupported as e:
            bad.append("cannot summarise: %s" % e)
        rep.check(not bad and n >= 1, "R05.4", shape + ":empty-row", "a row without an accepted column must not end points(): %s" % "; ".join(sorted(set(bad))[:2]), at=nx.span, fn=nx.path)


def rounded_wrapper(prog, rep):
    """R05.7 the public `RoundedRectangle::contains` is `RoundedRectangleContains::new(self).contains(point)` on every
    path: `points()` and the styled renderers work on that helper (R05.2, R05.5), so an answer the wrapper gives by itself
    (a fast path for "rows without corners") is a second membership predicate."""
    fs = [f for f in prog.fns.values() if f.name == "contains" and f.impl and (prog.impls[f.impl].get("trait") or "").endswith("primitives::ContainsPoint")
          and str(prog.impls[f.impl]["self_ty"].get("adt", "")).endswith("rounded_rectangle::RoundedRectangle")]
    if len(fs) != 1:
        rep.fail("R05.7", "rounded:contains-wrapper", "anchor lost (%d)" % len(fs), status="undecided")
        return
    f = fs[0]
    try:
        summs = Paths(prog, inline=lambda g: prog.is_new(g)).of(f)
    except Unsupported as e:
        rep.fail("R05.7", "rounded:contains-wrapper", "cannot summarise: %s" % e, status="undecided", at=f.span, fn=f.path)
        return
    bad = []
    for sm in summs:
        r = strip_refs(sm.ret)
        ok = r[0] == "call" and r[1].endswith("RoundedRectangleContains::contains") and len(r[3]) == 2 and strip_refs(r[3][1]) == P(2, "point") \
            and strip_refs(r[3][0])[0] == "call" and strip_refs(r[3][0])[1].endswith("RoundedRectangleContains::new") and strip_refs(strip_refs(r[3][0])[3][0]) == P(1, "self")
        if not ok:
            bad.append("a path answers %s%s" % (show(r, maxd=3)[:100], (" when " + "; ".join(show_fact(x)[:60] for x in sm.facts[:3])) if sm.facts else ""))
    rep.check(not bad and len(summs) >= 1, "R05.7", "rounded:contains-wrapper", "RoundedRectangle::contains must be RoundedRectangleContains::new(self).contains(point) on every path: %s" % "; ".join(bad[:2]), at=f.span, fn=f.path)


def points_end(prog, rep):
    """R05.6 rounded_rectangle::Points::next ends only when its scanline source is exhausted.  A scanline of a rounded
    rectangle can be empty (both corner searches of a row fail and the corners touch; a left hit right of the right
    hit) while later rows hold points, so a path that ends because the *freshly taken* scanline yields no point loses
    them.  (circle / ellipse: their Scanlines hand out a scanline only for an accepted column, it is never empty.)"""
    PT = PRIM + "rounded_rectangle::points::Points"
    try:
        nx = prog.method1(PT, "next", "core::iter::traits::iterator::Iterator")
    except Exception as e:
        rep.fail("R05.6", "rounded:points-end", "anchor lost: %s" % e, status="undecided")
        return
    NONE = ("agg", "core::option::Option::None", ())
    bad, und, n_end = [], [], 0
    try:
        summs = Paths(prog, loops="once").of(nx)
    except Unsupported as e:
        rep.fail("R05.6", "rounded:points-end", "cannot summarise: %s" % e, status="undecided", at=nx.span, fn=nx.path)
        return
    fields = prog.adts[PT]["variants"][0]["fields"]
    def src_call(t):
        return t[0] == "call" and t[1].endswith("points::Scanlines as core::iter::traits::iterator::Iterator>::next")
    for sm in summs:
        r = sm.ret
        if r is None or (r[0] == "agg" and str(r[1]).endswith("Option::Some")):
            continue
        exhausted = any(fct[0] == "variant" and fct[2] == ("None",) and src_call(fct[1]) for fct in sm.facts)
        took = any(fct[0] == "variant" and fct[2] == ("Some",) and src_call(fct[1]) for fct in sm.facts)
        if r == NONE:
            n_end += 1
            if not exhausted:
                bad.append("next() returns None although the scanline source is not exhausted (%s)" % "; ".join(show_fact(x)[:90] for x in sm.facts)[:260])
        elif (r[0] == "call" and r[1].endswith("scanline::Scanline as core::iter::traits::iterator::Iterator>::next") and not took
              and any(fct[0] == "false" and fct[1][0] == "call" and fct[1][1].split("::")[-1] == "is_empty" and fct[1][3] == r[3] for fct in sm.facts)):
            pass        # a point of the current scanline, which the path has found not to be empty: not an end
        elif took and not exhausted:
            bad.append("after taking a fresh scanline next() returns %s, which is None for an empty scanline: the enumeration ends although later rows may hold points" % show(r, maxd=2)[:120])
        else:
            und.append("next() returns %s" % show(r, maxd=3)[:160])
    if bad:
        rep.fail("R05.6", "rounded:points-end", "; ".join(sorted(set(bad))[:2]), at=nx.span, fn=nx.path)
    elif und or n_end < 1:
        rep.fail("R05.6", "rounded:points-end", "; ".join(sorted(set(und))[:2]) or "no ending path found", status="undecided", at=nx.span, fn=nx.path)
    else:
        rep.ok("R05.6", "rounded:points-end", at=nx.span, fn=nx.path, detail={"ending_paths": n_end})


def _field_names(prog, adt, t):
    """names of the fields of `adt` read from self anywhere in t"""
    fields = prog.adts[adt]["variants"][0]["fields"]
    out = set()
    for n in walk(t):
        if n[0] == "field" and n[1] == P(1, "self") and n[2] < len(fields):
            out.add(fields[n[2]]["name"])
        # nested: self.rounded_rectangle.rows
        if n[0] == "field" and n[1][0] == "field" and n[1][1] == P(1, "self"):
            inner = fields[n[1][2]]["ty"] if n[1][2] < len(fields) else None
            if isinstance(inner, dict) and inner.get("adt") in prog.adts:
                f2 = prog.adts[inner["adt"]]["variants"][0]["fields"]
                if n[2] < len(f2):
                    out.add(f2[n[2]]["name"])
    return out
