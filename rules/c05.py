"""C05 — points() enumerates exactly the points contains() accepts (structural part: both sides evaluate the same
membership predicate on the same arguments)."""
import re
from mirq import ty_str
from mirq.cfg import CFG
from mirq.origin import Origins, show, walk, decisions, lit_truth, enum_paths, path_conditions, dominating_guards
from mirq.pat import match, find, strip_refs
from rules.c14 import field_index
from rules.c10 import fold
from rules.c03 import sites, closure_ret
from rules.c16 import family_signature
from rules import c19
from mirq.paths import Paths, Unsupported

PRIM = "embedded_graphics::primitives::"
P = lambda i, n: ("param", i, n)


def dist_predicate(t):
    """-> (op, a, b, threshold) for  cast(length_squared(a - b)) op threshold   (t in canonical form: Lt / Le only,
    `th > d` is `d < th`)"""
    for n in walk(t):
        m = match(n, ("bin", "?op", ("cast", ("call", "*::length_squared", "_", (("call", "*Sub>::sub", "_", ("?a", "?b")),)), "u32"), "?th"))
        if m is not None and m["?op"] in ("Lt", "Le"):
            return m["?op"], m["?a"], m["?b"], m["?th"]
        m = match(n, ("bin", "?op", "?th", ("cast", ("call", "*::length_squared", "_", (("call", "*Sub>::sub", "_", ("?a", "?b")),)), "u32")))
        if m is not None and m["?op"] in ("Lt", "Le"):
            return {"Lt": "Gt", "Le": "Ge"}[m["?op"]], m["?a"], m["?b"], m["?th"]
    return None


def pred_tree(prog, f):
    """canonical tree of a straight-line boolean function / closure, helpers introduced by an edit looked through"""
    key = "_c05_paths"
    if not hasattr(prog, key):
        setattr(prog, key, Paths(prog))
    try:
        summs = getattr(prog, key).of(f)
    except Unsupported:
        return None
    if len(summs) == 1 and not summs[0].facts and not summs[0].effects:
        return summs[0].ret
    return None


def is_doubled(t, pt):
    return match(t, ("call", "*Mul<i32>>::mul", "_", (pt, ("const", 2)))) is not None


def run(ctx, rep):
    prog = ctx.program("default")
    rep.configs.append(getattr(ctx, "alias", "default"))
    circle(prog, rep)
    ellipse(prog, rep)
    sector(prog, rep)
    rounded(prog, rep)
    # triangle: canonical edges in contains() and in the scanline intersection (shared with C19)
    c19.triangle_edges(prog, rep)
    rectangle(prog, rep)


def circle(prog, rep):
    C = PRIM + "circle::Circle"
    co = prog.method1(C, "contains", PRIM + "ContainsPoint")
    pt_ = pred_tree(prog, co)
    pc = dist_predicate(pt_) if pt_ is not None else None
    SL = PRIM + "circle::points::Scanlines"
    nx = prog.method1(SL, "next", "core::iter::traits::iterator::Iterator")
    nw = prog.method1(SL, "new", None)
    fidx = {f["name"]: i for i, f in enumerate(prog.adts[SL]["variants"][0]["fields"])}
    init = strip_refs(Origins(nw).return_origin())
    ps = None
    for c in prog.closures_of.get(nx.id, []):
        pt_ = pred_tree(prog, c)
        r = dist_predicate(pt_) if pt_ is not None else None
        if r is not None:
            ps = (c, r)
    ok = pc is not None and ps is not None and init[0] == "agg"
    why = "distance predicate not found on one side"
    if ok:
        op1, a1, b1, th1 = pc
        c, (op2, a2, b2, th2) = ps
        # contains: center_2x(self) - point*2 ; threshold(self)
        cen1 = a1 if is_doubled(b1, P(2, "point")) else (b1 if is_doubled(a1, P(2, "point")) else None)
        good1 = cen1 is not None and match(cen1, ("call", "*Circle::center_2x", "_", (P(1, "self"),))) is not None and match(th1, ("call", "*Circle::threshold", "_", (P(1, "self"),))) is not None
        # scanline: Point::new(x, y)*2 - self.center_2x ; self.threshold  (fields initialised from the same circle)
        pt2 = a2 if a2[0] == "call" and a2[1].endswith("Mul<i32>>::mul") else b2
        cen2 = b2 if pt2 is a2 else a2
        good2 = match(pt2, ("call", "*Mul<i32>>::mul", "_", (("call", "*Point::new", "_", ("_", "_")), ("const", 2)))) is not None
        def self_field(t, fname):
            # the iterator's own field: captured as `self.<f>` (an upvar named after it) or read through captured `self`
            if t[0] == "upvar":
                return fname in (t[2] or "")
            return t[0] == "field" and t[2] == fidx[fname] and t[1][0] in ("upvar", "param") and "self" in (t[1][2] or "")
        good2 = good2 and self_field(cen2, "center_2x") and self_field(th2, "threshold")
        i_c, i_t = init[2][fidx["center_2x"]], init[2][fidx["threshold"]]
        good3 = match(i_c, ("call", "*Circle::center_2x", "_", (P(1, "circle"),))) is not None and match(i_t, ("call", "*Circle::threshold", "_", (P(1, "circle"),))) is not None
        ok = good1 and good2 and good3 and op1 == op2 == "Lt"
        why = "Circle::contains tests |center_2x - 2p|^2 %s threshold() and the row search tests |2p - center_2x|^2 %s threshold with fields initialised as center_2x=%s threshold=%s: both must be the same strict comparison against the same circle's values" % (op1, op2, show(i_c, maxd=3), show(i_t, maxd=3))
    rep.check(ok, "R05.1", "circle", why, at=co.span, fn=co.path)
    rep.sample({"rule": "R05.1", "circle": "|center_2x - 2p|^2 < threshold on both sides"})


def ellipse(prog, rep):
    E = PRIM + "ellipse::Ellipse"
    co = prog.method1(E, "contains", PRIM + "ContainsPoint")
    ro = strip_refs(Origins(co).return_origin())
    m = find(ro, ("call", "*EllipseContains::contains", "_", ("?ec", "?pt")))
    ok = bool(m)
    if ok:
        ec, pt = m[0][1]["?ec"], m[0][1]["?pt"]
        ok = match(ec, ("call", "*EllipseContains::new", "_", (("field", P(1, "self"), field_index(prog, E, "size")),))) is not None
        ok = ok and match(pt, ("call", "*Sub>::sub", "_", (("call", "*Mul<i32>>::mul", "_", (P(2, "point"), ("const", 2))), ("call", "*Ellipse::center_2x", "_", (P(1, "self"),))))) is not None
    rep.check(ok, "R05.1", "ellipse:contains", "Ellipse::contains must be EllipseContains::new(self.size).contains(2p - center_2x()); found %s" % show(ro, maxd=6), at=co.span, fn=co.path)
    SL = PRIM + "ellipse::points::Scanlines"
    nw = prog.method1(SL, "new", None)
    init = strip_refs(Origins(nw).return_origin())
    fidx = {f["name"]: i for i, f in enumerate(prog.adts[SL]["variants"][0]["fields"])}
    ok = init[0] == "agg"
    if ok:
        ok = match(init[2][fidx["center_2x"]], ("call", "*Ellipse::center_2x", "_", (P(1, "ellipse"),))) is not None
        ok = ok and match(init[2][fidx["ellipse_contains"]] if "ellipse_contains" in fidx else ("x",), ("call", "*EllipseContains::new", "_", (("field", P(1, "ellipse"), field_index(prog, E, "size")),))) is not None
    rep.check(ok, "R05.1", "ellipse:scanlines-init", "the row search must be initialised with the same ellipse's center_2x() and EllipseContains::new(size); found %s" % show(init, maxd=4), at=nw.span, fn=nw.path)
    nx = prog.method1(SL, "next", "core::iter::traits::iterator::Iterator")
    n = 0
    good = True
    for c in prog.closures_of.get(nx.id, []):
        r = strip_refs(Origins(c).return_origin())
        for nn, mm in find(r, ("call", "*EllipseContains::contains", "_", ("?ec", "?pt"))):
            n += 1
            good = good and "ellipse_contains" in show(mm["?ec"])
            vec = match(mm["?pt"], ("call", "*Sub>::sub", "_", (("call", "*Mul<i32>>::mul", "_", (("call", "*Point::new", "_", ("_", "_")), ("const", 2))), "?c"))) is not None
            comp = match(fold(mm["?pt"]), ("call", "*Point::new", "_", (("bin", "Sub", ("bin", "Mul", "_", ("const", 2)), "?cx"), "?sy"))) is not None
            good = good and (vec or comp) and "center_2x" in show(mm["?pt"])
    rep.check(good and n >= 1, "R05.1", "ellipse:scanlines-predicate", "the row search must test ellipse_contains.contains(2*(x, y) - center_2x) (%d predicate closures found)" % n, at=nx.span, fn=nx.path)


def sector(prog, rep):
    S = PRIM + "sector::Sector"
    C = PRIM + "circle::Circle"
    co = prog.method1(S, "contains", PRIM + "ContainsPoint")
    org = Origins(co)
    angs = (("field", P(1, "self"), field_index(prog, S, "angle_start")), ("field", P(1, "self"), field_index(prog, S, "angle_sweep")))
    ok_paths = 0
    good = True
    for lits, ret, path in decisions(co):
        r = strip_refs(ret)
        circ = None
        for d, lit in lits:
            d = strip_refs(d)
            m = match(d, ("call", "*Circle as embedded_graphics::primitives::ContainsPoint>::contains", "_", (("call", "*Sector::to_circle", "_", (P(1, "self"),)), P(2, "point"))))
            if m is not None:
                circ = lit_truth(lit)
        if circ is True:
            ok_paths += 1
            m = match(r, ("call", "*PlaneSector::contains", "_", (("call", "*PlaneSector::new", "_", angs), ("call", "*Sub>::sub", "_", (("call", "*Mul<i32>>::mul", "_", (P(2, "point"), ("const", 2))), ("call", "*Sector::center_2x", "_", (P(1, "self"),)))))))
            good = good and m is not None
        elif circ is False:
            good = good and r == ("const", False)
        else:
            good = False
    rep.check(good and ok_paths == 1, "R05.1", "sector:contains", "Sector::contains must be to_circle().contains(p) && PlaneSector::new(angle_start, angle_sweep).contains(2p - center_2x())", at=co.span, fn=co.path)
    PT = PRIM + "sector::points::Points"
    nw = prog.method1(PT, "new", None)
    init = strip_refs(Origins(nw).return_origin())
    fidx = {f["name"]: i for i, f in enumerate(prog.adts[PT]["variants"][0]["fields"])}
    circ = ("call", "*Sector::to_circle", "_", (P(1, "sector"),))
    sang = (("field", P(1, "sector"), field_index(prog, S, "angle_start")), ("field", P(1, "sector"), field_index(prog, S, "angle_sweep")))
    ok = init[0] == "agg" and match(init[2][fidx["iter"]], ("call", "*Circle::distances", "_", (circ,))) is not None \
        and match(init[2][fidx["threshold"]], ("call", "*Circle::threshold", "_", (circ,))) is not None \
        and match(init[2][fidx["plane_sector"]], ("call", "*PlaneSector::new", "_", sang)) is not None
    rep.check(ok, "R05.1", "sector:points-init", "Sector::points must scan the distances of the whole circle sector.to_circle() (every candidate point of the bounding box) with that circle's threshold and PlaneSector::new(angle_start, angle_sweep); found %s" % show(init, maxd=4),
              at=nw.span, fn=nw.path)
    nx = prog.method1(PT, "next", "core::iter::traits::iterator::Iterator")
    preds = []
    for c in prog.closures_of.get(nx.id, []):
        for lits, ret, path in decisions(c):
            r = strip_refs(ret)
            conds = [(strip_refs(d), lit_truth(l)) for d, l in lits]
            preds.append((conds, r, c))
    # accept exactly: distance < threshold (true) then plane_sector.contains(delta)
    good = False
    for conds, r, c in preds:
        lt = [d for d, tv in conds if d[0] == "bin" and d[1] == "Lt" and tv is True]
        if lt and r[0] == "call" and r[1].endswith("PlaneSector::contains"):
            d = lt[0]
            good = ("threshold" in show(d[3])) and d[2][0] == "field" and d[2][2] == 2 and r[3][1][0] == "field" and r[3][1][2] == 1 and "plane_sector" in show(r[3][0])
    rep.check(good, "R05.1", "sector:points-predicate", "the point search must accept (point, delta, distance) iff distance < threshold && plane_sector.contains(delta)", at=nx.span, fn=nx.path)
    # the iterator yields delta = 2p - center_2x and distance = |delta|^2
    DI = PRIM + "common::distance_iterator::DistanceIterator"
    dn = prog.method1(DI, "next", "core::iter::traits::iterator::Iterator")
    ok = False
    for c in prog.closures_of.get(dn.id, []):
        r = strip_refs(Origins(c).return_origin())
        m = match(r, ("agg", "tuple", ("?p", "?delta", "?dist")))
        if m is not None:
            ok = match(m["?delta"], ("call", "*Sub>::sub", "_", (("call", "*Mul<i32>>::mul", "_", (m["?p"], ("const", 2))), "?c"))) is not None and "center_2x" in show(m["?delta"]) \
                and match(m["?dist"], ("cast", ("call", "*::length_squared", "_", (m["?delta"],)), "u32")) is not None
    rep.check(ok, "R05.1", "distance-iterator", "DistanceIterator must yield (p, 2p - center_2x, |2p - center_2x|^2)", at=dn.span, fn=dn.path)
    # two copies of one formula
    a = prog.method1(S, "center_2x", None)
    b = prog.method1(C, "center_2x", None)
    sa = family_signature(prog, a)
    sb = family_signature(prog, b)
    rep.check(sa == sb, "R05.1", "sector:center_2x", "Sector::center_2x and Circle::center_2x are two copies of one formula and must agree:\n  sector: %s\n  circle: %s" % (sa[:300], sb[:300]), at=a.span, fn=a.path)


def rounded(prog, rep):
    RC = PRIM + "rounded_rectangle::RoundedRectangleContains"
    fidx = {f["name"]: i for i, f in enumerate(prog.adts[RC]["variants"][0]["fields"])}
    names = {v: k for k, v in fidx.items()}
    co = prog.method1(RC, "contains", None)
    want = {"top_left": ("straight_rows_left", 0, "Lt"), "top_right": ("straight_rows_right", 0, "Lt"), "bottom_left": ("straight_rows_left", 1, "Ge"), "bottom_right": ("straight_rows_right", 1, "Ge")}
    selff = lambda n: ("field", P(1, "self"), fidx[n])
    py = ("field", P(2, "point"), 1)
    table = {}
    true_paths = []
    probs = []

    def row_lits(lits):
        out = set()
        for d, lit in lits:
            d = fold(strip_refs(d))
            tv = lit_truth(lit)
            for side in ("straight_rows_left", "straight_rows_right"):
                for bound in (0, 1):
                    for op in ("Lt", "Ge"):
                        if match(d, ("bin", op, py, ("field", selff(side), bound))) is not None and tv is not None:
                            # normalise to the positive comparison
                            if tv:
                                out.add((side, bound, op))
                            else:
                                out.add((side, bound, {"Lt": "Ge", "Ge": "Lt"}[op]))
        return out
    for lits, ret, path in decisions(co):
        r = strip_refs(ret)
        rl = row_lits(lits)
        m = match(r, ("call", "*::contains", "_", (("field", P(1, "self"), "?q"), P(2, "point"))))
        if m is not None and "EllipseQuadrant" in r[1]:
            q = names.get(m["?q"])
            w = want.get(q)
            if w is None or w not in rl:
                probs.append("quadrant %s is consulted without its row guard %s (guards on the path: %s)" % (q, w, sorted(rl)))
            table[q] = w if w in rl else None
        elif r == ("const", True):
            true_paths.append((rl, lits))
        elif r == ("const", False):
            pass
        else:
            probs.append("unrecognised result %s" % show(r, maxd=4))
    if set(table) != set(want):
        probs.append("quadrants consulted: %s" % sorted(table))
    # every path that accepts without asking a quadrant must lie outside each quadrant's region: for every
    # quadrant either its row guard is false on the path or a test mentioning that quadrant (its columns) is false
    n_bad = 0
    for rl, lits in true_paths:
        for q, (side, bound, op) in want.items():
            neg = (side, bound, {"Lt": "Ge", "Ge": "Lt"}[op])
            col_excl = any(lit_truth(l) is False and any(n == ("field", P(1, "self"), fidx[q]) for n in walk(strip_refs(d))) for d, l in lits)
            if neg not in rl and not col_excl:
                n_bad += 1
                break
    if n_bad:
        probs.append("%d accepting path(s) do not exclude every corner region first (a shortcut that accepts a point by a row test alone bypasses the corner curves)" % n_bad)
    if not true_paths:
        probs.append("no accepting fall-through found")
    rep.check(not probs, "R05.2", "rounded:contains-table", "; ".join(probs[:3]), at=co.span, fn=co.path, detail={k: str(v) for k, v in table.items()})
    # points side
    SL = PRIM + "rounded_rectangle::points::Scanlines"
    nx = prog.method1(SL, "next", "core::iter::traits::iterator::Iterator")
    org = Origins(nx)
    got = {}
    for c in prog.closures_of.get(nx.id, []):
        r = strip_refs(Origins(c).return_origin())
        m = match(r, ("call", "*::contains", "_", ("?q", ("call", "*Point::new", "_", ("_", "_")))))
        if m is None or "EllipseQuadrant" not in r[1]:
            continue
        qs = show(m["?q"])
        q = next((k for k in want if k in qs.replace("self__rounded_rectangle__", "")), None)
        # where is the closure created, and under which guards, and passed to find or rfind
        for bi in sorted(org.cfg.live_blocks()):
            for si, s in enumerate(nx.body["blocks"][bi]["s"]):
                if s["k"] == "assign" and s["rv"]["k"] == "agg" and s["rv"].get("closure") == c.id:
                    gs = [(fold(strip_refs(d)), lit_truth(l)) for d, l in dominating_guards(nx, org, bi)]
                    rows = set()
                    rr = field_index(prog, SL, "rounded_rectangle")
                    for d, tv in gs:
                        for side in ("straight_rows_left", "straight_rows_right"):
                            for bound in (0, 1):
                                for op in ("Lt", "Ge"):
                                    bnd = ("field", ("field", ("field", P(1, "self"), rr), fidx[side]), bound)
                                    if match(d, ("bin", op, "_", bnd)) is not None and tv is True:
                                        rows.add((side, bound, op))
                    # consumer
                    cons = None
                    for bj in sorted(org.cfg.live_blocks()):
                        t = nx.body["blocks"][bj]["t"]
                        if t and t["k"] == "call" and t["f"].get("name") in ("find", "rfind"):
                            for a in org.term_args(bj):
                                if any(n[0] == "agg" and n[1] == "closure:" + c.id for n in walk(a)):
                                    cons = t["f"]["name"]
                    got[q] = (rows, cons)
    probs = []
    for q, w in want.items():
        g = got.get(q)
        if g is None:
            probs.append("no row search consults %s" % q)
            continue
        rows, cons = g
        if w not in rows:
            probs.append("%s searched under guards %s, contains() uses %s" % (q, sorted(rows), w))
        wc = "find" if q.endswith("left") else "rfind"
        if cons != wc:
            probs.append("%s must be searched with %s (first/last contained column), found %s" % (q, wc, cons))
    rep.check(not probs, "R05.2", "rounded:points-table", "; ".join(probs[:3]), at=nx.span, fn=nx.path, detail={k: str(v) for k, v in got.items()})
    rep.sample({"rule": "R05.2", "contains_table": {k: str(v) for k, v in table.items()}, "points_table": {str(k): str(v) for k, v in got.items()}})
    # constructor: straight rows
    nw = prog.method1(RC, "new", None)
    init = strip_refs(Origins(nw).return_origin())
    ok = init[0] == "agg"
    if ok:
        for side, top, bot in (("straight_rows_left", "TopLeft", "BottomLeft"), ("straight_rows_right", "TopRight", "BottomRight")):
            v = fold(init[2][fidx[side]])
            m = match(v, ("agg", "*Range::Range", (("bin", "Add", "?rs", "?th"), ("bin", "Sub", "?re", "?bh"))))
            good = m is not None and ("Quadrant::" + top) in show(m["?th"], maxd=12) and ("Quadrant::" + bot) in show(m["?bh"], maxd=12) and "rows" in show(m["?rs"], maxd=6) and "rows" in show(m["?re"], maxd=6)
            ok = ok and good
    rep.check(ok, "R05.2", "rounded:straight-rows", "straight_rows_{left,right} must be rows.start + top corner height .. rows.end - bottom corner height of the same side", at=nw.span, fn=nw.path)


def rectangle(prog, rep):
    """Rectangle::points is the row-major enumeration of exactly the rectangle: Points::new takes the corners from
    the rectangle itself and is empty for zero sizes."""
    PT = "embedded_graphics_core::primitives::rectangle::points::Points"
    nw = prog.method1(PT, "new", None)
    ok = True
    seen = 0
    for lits, ret, path in decisions(nw):
        r = strip_refs(ret)
        if r[0] == "call" and r[1].endswith("Points::empty"):
            continue
        seen += 1
        ok = ok and match(r, ("agg", "*Points::Points", (("call", "*Rectangle::columns", "_", (P(1, "rectangle"),)), ("call", "*Rectangle::rows", "_", (P(1, "rectangle"),)), ("field", ("call", "*Rectangle::columns", "_", (P(1, "rectangle"),)), 0)))) is not None
    rep.check(ok and seen >= 1, "R05.3", "rectangle:points-new", "Rectangle's point iterator must walk rectangle.columns() within rectangle.rows(), starting at columns().start", at=nw.span, fn=nw.path)
