"""C17 — thin lines: the structural clauses of `Line::points()` (count, first point, step shape, axis assignment).

Decided here (all inputs): the iterator yields exactly max(|dx|, |dy|) + 1 points (a counter argument), the first one is
`start`, every further point is the previous one moved by exactly one unit step along the major axis and at most one
unit step along the minor axis, the major axis is the axis of the larger |delta| and both unit steps point towards the
end point.  NOT decided (inductive numeric invariants of the error accumulator): that the minor coordinate arrives at
`end`, the half-pixel distance bound, and every clause about stroked (thick) lines."""
from mirq.origin import show, walk
from mirq.pat import match, strip_refs
from mirq.paths import Paths, Unsupported, show_fact, show_eff, variant_of, NONE
from rules.c14 import field_index
from rules.c10 import fold

LINE = "embedded_graphics::primitives::line::"
PTS = LINE + "points::Points"
BR = LINE + "bresenham::Bresenham"
BP = LINE + "bresenham::BresenhamParameters"
MM = LINE + "bresenham::MajorMinor"
LN = LINE + "Line"
P = lambda i, n: ("param", i, n)


def run(ctx, rep):
    prog = ctx.program("default")
    rep.configs.append(getattr(ctx, "alias", "default"))
    count(prog, rep)
    step_shape(prog, rep)
    parameters(prog, rep)
    centred(prog, rep)
    try:
        unmodified_line(prog, rep)
    except Exception as e:
        import traceback; traceback.print_exc()
        rep.fail("R17.7", "engine", "styled entry analysis crashed: %r" % (e,), status="undecided")
    try:
        pass_through(prog, rep)
    except Exception as e:
        import traceback; traceback.print_exc()
        rep.fail("R17.6", "engine", "pixel iterator analysis crashed: %r" % (e,), status="undecided")


def _delta(line):
    return ("call", "*Sub>::sub", "_", (("field", line, 1), ("field", line, 0)))


def count(prog, rep):
    """R17.1 / R17.2: Points::new arms the counter with major_length(line) = max(|dx|, |dy|) + 1 and the walker with
    line.start and error 0; next() emits exactly one walker step per unit of the counter and nothing at zero."""
    P_ = Paths(prog, inline=lambda g: prog.is_new(g) or (g.name in ("new", "with_initial_error") and g.path.startswith(BR + "::")) or g.path.endswith("line::Line::delta"))   # `line.delta()` is `end - start`
    nw = prog.method1(PTS, "new", None)
    fi = {f["name"]: i for i, f in enumerate(prog.adts[PTS]["variants"][0]["fields"])}
    line = P(1, "line")
    bad = []
    try:
        summs = P_.of(nw)
        if len(summs) != 1 or summs[0].facts or summs[0].effects or summs[0].ret[0] != "agg":
            bad.append("Points::new is not one unconditional construction")
        else:
            r = summs[0].ret[2]
            if match(r[fi["points_remaining"]], ("call", "*bresenham::major_length", "_", (line,))) is None:
                bad.append("the counter is armed with %s, not major_length(line)" % show(r[fi["points_remaining"]], maxd=4))
            if match(r[fi["parameters"]], ("call", "*BresenhamParameters::new", "_", (line,))) is None:
                bad.append("the parameters are %s, not BresenhamParameters::new(line)" % show(r[fi["parameters"]], maxd=4))
            b = r[fi["bresenham"]]
            bfi = {f["name"]: i for i, f in enumerate(prog.adts[BR]["variants"][0]["fields"])}
            if not (b[0] == "agg" and str(b[1]).startswith(BR) and b[2][bfi["point"]] == ("field", line, field_index(prog, LN, "start")) and b[2][bfi["error"]] == ("const", 0)):
                bad.append("the walker must start at line.start with error 0; found %s" % show(b, maxd=4))
    except Unsupported as e:
        bad.append("cannot summarise Points::new: %s" % e)
    rep.check(not bad, "R17.2", "Points::new", "Line::points() must start a Bresenham walk at line.start (error 0) with major_length(line) points to go: %s" % "; ".join(bad[:2]), at=nw.span, fn=nw.path)
    ml = prog.fn_by_path(LINE + "bresenham::major_length")
    ok = False
    shown = "?"
    try:
        summs = P_.of(ml)
        if len(summs) == 1 and not summs[0].facts:
            r = fold(summs[0].ret)
            shown = show(r, maxd=6)
            ab = ("call", "*Point::abs", "_", (_delta(P(1, "line")),))
            m = match(r, ("bin", "Add", ("call", "*::max", "_", (("field", ab, "?i"), ("field", ab, "?j"))), ("const", 1)))
            ok = m is not None and {m["?i"], m["?j"]} == {0, 1}
    except Unsupported:
        pass
    rep.check(ok, "R17.1", "major_length", "major_length(line) must be max(|dx|, |dy|) + 1 of end - start; found %s" % shown, at=ml.span, fn=ml.path)
    nx = prog.method1(PTS, "next", "core::iter::traits::iterator::Iterator")
    rem = ("field", P(1, "self"), fi["points_remaining"])
    bad = []
    n_emit = n_stop = 0
    try:
        for sm in Paths(prog).of(nx):
            fs = [tuple(fold(x) if isinstance(x, tuple) and x and isinstance(x[0], str) and x[0] not in ("not", "any") else x for x in fct) for fct in sm.facts]
            pos = any(fct in (("lt", ("const", 0), rem), ("ne", rem, ("const", 0)), ("ne", ("const", 0), rem)) for fct in fs)
            zero = any(fct in (("le", rem, ("const", 0)), ("eq", rem, ("const", 0)), ("eq", ("const", 0), rem)) for fct in fs)
            steps = [e[1] for e in sm.calls() if e[1][1].endswith("Bresenham::next")]
            if pos and len(fs) == 1:
                n_emit += 1
                ws = sm.writes()
                good = len(ws) == 1 and ws[0][1] == rem and fold(ws[0][2]) == ("bin", "Sub", rem, ("const", 1)) and len(steps) == 1 and len(sm.effects) == 2 \
                    and steps[0][3] == (("field", P(1, "self"), fi["bresenham"]), ("field", P(1, "self"), fi["parameters"])) \
                    and sm.ret[0] == "agg" and str(sm.ret[1]).endswith("Option::Some") and sm.ret[2][0][:4] == steps[0][:4]
                if not good:
                    bad.append("with points to go next() does %s and returns %s" % ("; ".join(show_eff(e) for e in sm.effects), show(sm.ret, maxd=3)))
            elif zero and len(fs) == 1:
                n_stop += 1
                if sm.ret != NONE or sm.effects:
                    bad.append("with no points to go next() returns %s / has effects" % show(sm.ret, maxd=3))
            else:
                bad.append("a path depends on %s" % "; ".join(show_fact(x) for x in sm.facts))
    except Unsupported as e:
        bad.append("cannot summarise Points::next: %s" % e)
    rep.check(not bad and n_emit == 1 and n_stop == 1, "R17.1", "Points::next:count",
              "every call with points_remaining > 0 must lower the counter by one and return one step of the walker, a call at 0 must end the iteration (so the line has major_length points): %s" % "; ".join(sorted(set(bad))[:2]), at=nx.span, fn=nx.path)


def step_shape(prog, rep):
    """R17.3: one call of Bresenham::next moves the walker by exactly one major step, preceded by at most one minor
    step, and returns the position between the two — consecutive points differ by one pixel along the major axis and at
    most one along the minor axis.  The first call (error 0 <= threshold) returns the start point itself."""
    nx = prog.method1(BR, "next", None)
    bfi = {f["name"]: i for i, f in enumerate(prog.adts[BR]["variants"][0]["fields"])}
    pfi = {f["name"]: i for i, f in enumerate(prog.adts[BP]["variants"][0]["fields"])}
    mfi = {f["name"]: i for i, f in enumerate(prog.adts[MM]["variants"][0]["fields"])}
    me, par = P(1, "self"), P(2, "parameters")
    point, error = ("field", me, bfi["point"]), ("field", me, bfi["error"])
    step = lambda which: ("field", ("field", par, pfi["position_step"]), mfi[which])
    thr = ("field", par, pfi["error_threshold"])
    bad = []
    seen = set()
    try:
        for sm in Paths(prog).of(nx):
            moves = [e[1] for e in sm.calls() if e[1][1].endswith("AddAssign>::add_assign") and e[1][3][0] == point]
            others = [e for e in sm.effects if not (e[0] == "call" and e[1] in moves) and not (e[0] == "write" and e[1] == error)]
            kinds = ["major" if m[3][1] == step("major") else ("minor" if m[3][1] == step("minor") else "?") for m in moves]
            if others or "?" in kinds:
                bad.append("a step does %s" % "; ".join(show_eff(e) for e in sm.effects))
                continue
            if kinds == ["major"]:
                seen.add("straight")
                # taken when error <= threshold; returns the position before the move
                if not (sm.facts and sm.facts[0] in (("le", error, thr),)) or sm.ret != point:
                    bad.append("the step without a minor move must be taken for error <= error_threshold and return the position before the major move; when %s returns %s" % ("; ".join(show_fact(x) for x in sm.facts), show(sm.ret, maxd=4)))
            elif kinds == ["minor", "major"]:
                seen.add("diagonal")
                r = sm.ret
                ok = r[0] == "mut" and r[1] == point and r[2][:4] == moves[0][:4]
                if not ok:
                    bad.append("a step with a minor move must return the position after the minor and before the major move; returns %s" % show(sm.ret, maxd=4))
            else:
                bad.append("a step makes the moves %s (exactly one major move, at most one minor move before it)" % kinds)
    except Unsupported as e:
        bad.append("cannot summarise Bresenham::next: %s" % e)
    rep.check(not bad and seen == {"straight", "diagonal"}, "R17.3", "Bresenham::next:step",
              "each point is the previous one moved one pixel along the major axis and at most one along the minor axis: %s" % ("; ".join(sorted(set(bad))[:2]) or "cases %s" % sorted(seen)), at=nx.span, fn=nx.path)


def parameters(prog, rep):
    """R17.4: BresenhamParameters::new — the major axis is the axis of the larger |delta| (the counter counts its steps),
    both position steps are unit vectors along different axes pointing from start to end, and the error threshold is the
    (non-negative) major delta, so a fresh walker (error 0) does not move sideways before its first point."""
    nw = prog.method1(BP, "new", None)
    pfi = {f["name"]: i for i, f in enumerate(prog.adts[BP]["variants"][0]["fields"])}
    mfi = {f["name"]: i for i, f in enumerate(prog.adts[MM]["variants"][0]["fields"])}
    line = P(1, "line")
    d = _delta(line)
    ab = ("call", "*Point::abs", "_", (d,))
    P_ = Paths(prog, inline=lambda g: prog.is_new(g) or (g.name == "new" and g.path.startswith(MM + "::")) or g.path.endswith("line::Line::delta"))
    bad = []
    seen = set()
    try:
        for sm in P_.of(nw):
            sx = sy = major = None
            for fct in sm.facts:
                f2 = tuple(fold(x) if isinstance(x, tuple) and x and isinstance(x[0], str) and x[0] not in ("not", "any") else x for x in fct)
                for axis in (0, 1):
                    dc = ("field", None, axis)
                    if f2[0] in ("le", "lt") and match(f2[2] if f2[0] == "le" else f2[1], ("field", d, axis)) is not None and (f2[1] if f2[0] == "le" else f2[2]) == ("const", 0):
                        if axis == 0:
                            sx = 1 if f2[0] == "le" else -1
                        else:
                            sy = 1 if f2[0] == "le" else -1
                ax_, ay_ = ("field", None, 0), ("field", None, 1)
                if f2[0] in ("le", "lt") and all(match(x, ("field", ab, "?k")) is not None for x in f2[1:3]):
                    a_, b_ = f2[1][2], f2[2][2]
                    if f2[0] == "le" and (a_, b_) == (0, 1):
                        major = 1      # |dx| <= |dy|: y is the major axis
                    elif f2[0] == "lt" and (a_, b_) == (1, 0):
                        major = 0      # |dy| < |dx|
                    elif f2[0] == "lt" and (a_, b_) == (0, 1):
                        major = 1
                    elif f2[0] == "le" and (a_, b_) == (1, 0):
                        major = 0
            if None in (sx, sy, major) or len(sm.facts) != 3:
                bad.append("a path is taken when %s" % "; ".join(show_fact(x) for x in sm.facts))
                continue
            seen.add((sx, sy, major))
            r = sm.ret
            if r[0] != "agg":
                bad.append("not a construction")
                continue
            ps = r[2][pfi["position_step"]]
            dirp = ("call", "*Point::new", "_", (("const", sx), ("const", sy)))
            axis_fn = lambda k: "*Point::x_axis" if k == 0 else "*Point::y_axis"
            want_major = ("call", axis_fn(major), "_", (dirp,))
            want_minor = ("call", axis_fn(1 - major), "_", (dirp,))
            if not (ps[0] == "agg" and match(ps[2][mfi["major"]], want_major) is not None and match(ps[2][mfi["minor"]], want_minor) is not None):
                bad.append("for direction (%d, %d) with the %s axis major the steps are %s" % (sx, sy, "xy"[major], show(ps, maxd=5)))
            if match(fold(r[2][pfi["error_threshold"]]), ("field", ab, major)) is None:
                bad.append("the error threshold must be the major delta |d%s|; found %s" % ("xy"[major], show(r[2][pfi["error_threshold"]], maxd=4)))
    except Unsupported as e:
        bad.append("cannot summarise BresenhamParameters::new: %s" % e)
    want = {(sx, sy, m) for sx in (1, -1) for sy in (1, -1) for m in (0, 1)}
    rep.check(not bad and seen == want, "R17.4", "BresenhamParameters::new",
              "the major axis must be that of the larger |delta| and both steps unit vectors towards the end point in all 8 octants: %s" % ("; ".join(sorted(set(bad))[:2]) or "octants seen %d of 8" % len(seen)), at=nw.span, fn=nw.path)
    # the axis helpers really are unit vectors along one axis
    from mirq.origin import Origins
    from mirq.pat import strip_refs
    for nm, keep in (("x_axis", 0), ("y_axis", 1)):
        cands = [f for f in prog.fns.values() if f.name == nm and f.kind == "assoc_fn" and f.path.endswith("point::Point::" + nm)]
        ok = False
        if len(cands) == 1:
            r = strip_refs(Origins(cands[0]).return_origin())
            me = ("param", 1, "self")
            comps = None
            m = match(r, ("call", "*Point::new", "_", ("?a", "?b")))
            if m is not None:
                comps = (m["?a"], m["?b"])
            elif r[0] == "agg" and len(r[2]) == 2:
                comps = r[2]
            ok = comps is not None and comps[keep] == ("field", me, keep) and comps[1 - keep] == ("const", 0)
        rep.check(ok, "R17.4", "Point::" + nm, "Point::%s must keep the %s component and zero the other" % (nm, "xy"[keep]), at=cands[0].span if cands else "", fn=cands[0].path if cands else "")


PAR = LINE + "thick_points::ParallelsIterator"
NONE_OFFSET = "embedded_graphics::primitives::common::StrokeOffset::None"


def _callees(prog, f):
    out = []
    for blk in f.body["blocks"]:
        t = blk["t"]
        if t and t["k"] == "call" and "indirect" not in t["f"]:
            r = t["f"].get("resolved") or t["f"]
            out += [g for g in prog.by_path.get(r.get("path", ""), []) if g.body and g.kind in ("fn", "assoc_fn")]
    out += [g for g in prog.fns.values() if g.body and g.parent_fn == f.id]
    return out


def centred(prog, rep):
    """R17.5: the stroke of a styled Line is centred on the line whatever the style says — in everything reachable from the
    line's own styled code (src/primitives/line/styled.rs) the stroke offset that reaches ParallelsIterator::new and
    Line::extents is the constant StrokeOffset::None.  (A one-sided stroke is w - 1 pixels away from the ideal line, more
    than the w/2 + 2.5 of the property for w >= 8.)"""
    from mirq.canon import Canon
    C = Canon(prog)
    roots = [f for f in prog.fns.values() if f.body and f.kind in ("fn", "assoc_fn") and (f.span or "").startswith("src/primitives/line/styled.rs") and "::tests::" not in f.id]
    rep.floor("R17.5", "functions of the line's styled code", len(roots), 4)
    reach, todo = {}, list(roots)
    while todo:
        f = todo.pop()
        if f.id in reach or "::tests::" in f.id:
            continue
        reach[f.id] = f
        todo += _callees(prog, f)

    def sinks(f):
        out = []
        for nm, pred in (("new", lambda p: p == PAR + "::new"), ("extents", lambda p: p == LN + "::extents")):
            for st in C.sites(f, nm):
                if pred((st.t["f"].get("resolved") or st.t["f"]).get("path", "")):
                    out.append((st, st.args[-1]))
        return out

    bad, n = [], [0]

    def settle(f, arg, trail, depth=0):
        """is `arg` (a tree over f's parameters) the constant None on every way into f from the styled code?"""
        a = arg
        while a[0] in ("ref", "deref", "cast"):
            a = a[1]
        if a == ("agg", NONE_OFFSET, ()) or a == ("const", NONE_OFFSET):
            return
        if a[0] == "param" and depth < 4 and f not in roots:
            callers = 0
            for g in reach.values():
                for st in C.sites(g, f.name):
                    if (st.t["f"].get("resolved") or st.t["f"]).get("path", "") == f.path and a[1] - 1 < len(st.args):
                        callers += 1
                        settle(g, st.args[a[1] - 1], trail + [g.path.split("::")[-2] + "::" + g.name], depth + 1)
            if callers:
                return
        bad.append("%s: the stroke offset is %s" % (" <- ".join(trail), show(a, maxd=4)))

    first = None
    for f in sorted(reach.values(), key=lambda f: f.id):
        for st, arg in sinks(f):
            n[0] += 1
            first = first or f
            settle(f, arg, ["%s in %s::%s" % (st.t["f"].get("name"), f.path.split("::")[-2], f.name)])
    rep.floor("R17.5", "ParallelsIterator::new / Line::extents call sites reachable from the line's styled code", n[0], 3)
    rep.check(not bad, "R17.5", "line:centred-stroke", "a styled Line must build its stroke with StrokeOffset::None (centred on the line, independent of the style's stroke alignment): %s" % "; ".join(bad[:3]),
              at=(first.span if first else ""), fn=(first.path if first else ""), detail={"reachable_functions": len(reach), "sites": n[0]})


def pass_through(prog, rep):
    """R17.6 the styled line's pixel iterator passes on every point of its point iterator: with a stroke colour, each call
    of `next` pulls exactly one item from ThickPoints::next on the iterator's own state, ends iff that pull ends, and
    otherwise returns Pixel(the pulled point, the stroke colour).  A filter or a search (`find`) over the point iterator
    drops points of the line (the stroke no longer contains the thin line; width 1 no longer equals points())."""
    from mirq.paths import variant_of, show_fact
    SP = "embedded_graphics::primitives::line::styled::StyledPixelsIterator"
    TP = "embedded_graphics::primitives::line::thick_points::ThickPoints"
    try:
        nx = prog.method1(SP, "next", "core::iter::traits::iterator::Iterator")
        fi = {f["name"]: i for i, f in enumerate(prog.adts[SP]["variants"][0]["fields"])}
        it_idx = [i for i, f in enumerate(prog.adts[SP]["variants"][0]["fields"]) if isinstance(f["ty"], dict) and f["ty"].get("adt") == TP][0]
    except Exception as e:
        rep.fail("R17.6", "line:pixels-pass-through", "anchor lost: %r" % (e,), status="undecided")
        return
    try:
        summs = Paths(prog, inline=lambda g: prog.is_new(g)).of(nx)
    except Unsupported as e:
        rep.fail("R17.6", "line:pixels-pass-through", "the pixel iterator's next() cannot be summarised (a loop or search over the point iterator?): %s" % e, status="undecided", at=nx.span, fn=nx.path)
        return
    state = ("field", P(1, "self"), it_idx)

    def is_pull(t):
        t = strip_refs(t)
        return t[0] == "call" and t[1].endswith("::next") and TP in t[1] and len(t[3]) == 1 and strip_refs(t[3][0]) == state
    bad, n_some, n_none = [], 0, 0
    for sm in summs:
        pulls = [e for e in sm.effects if e[0] == "call" and is_pull(e[1])]
        others = [e for e in sm.effects if e not in pulls]
        vo = variant_of(sm.ret)
        cond = "; ".join(show_fact(f) for f in sm.facts)
        if others:
            bad.append("a path [%s] has other effects on the iterator: %s" % (cond[:120], show(others[0][1] if others[0][0] == "call" else others[0][2], maxd=3)))
            continue
        if not pulls:
            # without a pull the call must end the iteration for lack of a colour
            if not (vo and vo[1] == "None"):
                bad.append("a path [%s] returns %s without pulling a point" % (cond[:120], show(sm.ret, maxd=3)))
            continue
        if len(pulls) != 1:
            bad.append("a path [%s] pulls %d points" % (cond[:120], len(pulls)))
            continue
        pv = {tuple(f[2]) for f in sm.facts if f[0] == "variant" and is_pull(f[1])}
        other_conds = [f for f in sm.facts if not (f[0] == "variant" and (is_pull(f[1]) or strip_refs(f[1])[0] == "field"))]
        if other_conds:
            bad.append("the outcome depends on %s" % show_fact(other_conds[0]))
            continue
        if pv == {("None",)} and vo and vo[1] == "None":
            n_none += 1
        elif pv == {("Some",)} and vo and vo[1] == "Some" and sm.ret[2]:
            px = strip_refs(sm.ret[2][0])
            okp = px[0] == "agg" and len(px[2]) == 2 and strip_refs(px[2][0])[0] == "payload" and is_pull(strip_refs(px[2][0])[1])
            if okp:
                n_some += 1
            else:
                bad.append("the pixel is %s, not Pixel(the pulled point, colour)" % show(px, maxd=4))
        else:
            bad.append("a path [%s] returns %s" % (cond[:120], show(sm.ret, maxd=3)))
    rep.check(not bad and n_some >= 1 and n_none >= 1, "R17.6", "line:pixels-pass-through",
              "StyledPixelsIterator::next of a line must return Pixel(p, colour) for exactly the next point p of its ThickPoints iterator: %s" % ("; ".join(bad[:2]) or "no passing path found"),
              at=nx.span, fn=nx.path, detail={"paths": len(summs)})


def unmodified_line(prog, rep):
    """R17.7 both styled entry points of a Line build their pixel iterator from the line as it is, on every path:
    `pixels(style)` returns StyledPixelsIterator::new(self, style) and `draw_styled` hands exactly that to draw_iter.  A
    "normalised" (reversed) line walks the other way — Bresenham breaks ties relative to the direction, so the stroke no
    longer contains the thin line of the original."""
    fs = {}
    for f in prog.fns.values():
        if f.body and f.kind == "assoc_fn" and (f.span or "").startswith("src/primitives/line/styled.rs") and f.name in ("pixels", "draw_styled") and "::tests" not in f.id:
            fs[f.name] = f
    if set(fs) != {"pixels", "draw_styled"}:
        rep.fail("R17.7", "line:styled-entry", "anchor lost: %s" % sorted(fs), status="undecided")
        return
    P_ = Paths(prog, inline=lambda g: prog.is_new(g))
    for nm, f in sorted(fs.items()):
        try:
            summs = P_.of(f)
        except Unsupported as e:
            rep.fail("R17.7", "line:" + nm, "cannot summarise: %s" % e, status="undecided", at=f.span, fn=f.path)
            continue
        bad = []
        for sm in summs:
            news = []
            for tr in [sm.ret] + [e[1] if e[0] == "call" else e[2] for e in sm.effects]:
                if isinstance(tr, tuple):
                    news += [n for n in walk(tr) if isinstance(n, tuple) and n and n[0] == "call" and n[1].endswith("StyledPixelsIterator::<C>::new") and "line::styled" in n[1]]
            cond = "; ".join(show_fact(x)[:70] for x in sm.facts[:2]) or "always"
            if not news:
                bad.append("when %s no pixel iterator is built" % cond)
                continue
            for nn in news:
                a = [strip_refs(x) for x in nn[3]]
                if len(a) != 2 or a[0] != P(1, "self") or a[1] != P(2, "style"):
                    bad.append("when %s the iterator is built from %s" % (cond, show(nn, maxd=4)))
        rep.check(bool(summs) and not bad, "R17.7", "line:" + nm, "%s of a Line must build StyledPixelsIterator::new(self, style) on every path: %s" % (nm, "; ".join(sorted(set(bad))[:2])), at=f.span, fn=f.path)
