"""D3 — translation-degree abstract domain (DESIGN.md R07.2), evaluated over origin trees with inlining.

Every integer has a degree k meaning value(x.translate(d)) = value(x) + k*d (per axis): positions 1, sizes and
differences 0, doubled positions 2.  Equivariant code never divides / shifts / masks a value of degree != 0 (the
rounding would depend on the absolute position), never scales it by a non-constant, never takes |.| of it and only
compares values of equal degree.  Position-valued results must have degree 1, everything else degree 0."""
import json
from mirq import ty_str
from mirq.origin import Origins, show, decisions, walk
from mirq.pat import strip_refs

POINT = "embedded_graphics_core::geometry::point::Point"
SIZE = "embedded_graphics_core::geometry::size::Size"
RECT = "embedded_graphics_core::primitives::rectangle::Rectangle"
DISPLACEMENT = {"by", "delta", "offset_by", "translate_by", "d", "size", "normal_vector", "direction", "normal"}
T = "T"


class D:
    def __init__(self, d, c=None):
        self.d = d
        self.c = c  # known constant value (for scaling by constants through inlined calls)

    def __repr__(self):
        return "deg%s" % self.d


class S:
    def __init__(self, ty, fields):
        self.ty = ty
        self.fields = fields

    def __repr__(self):
        return "%s{%s}" % (str(self.ty).split("::")[-1], ", ".join("%s" % v for v in self.fields.values()))


class Z:
    """opaque value computed only from position-independent inputs (degree 0 whatever its shape)"""
    def __repr__(self):
        return "deg0*"


def is_zero(v):
    if isinstance(v, Z):
        return True
    if isinstance(v, D):
        return v.d == 0
    if isinstance(v, S):
        return all(is_zero(x) for x in v.fields.values())
    return False


class C:
    """a closure value: the closure function and the values of its captures (for helpers that take a callable)"""
    def __init__(self, clo, caps):
        self.clo, self.caps = clo, caps

    def __repr__(self):
        return "closure"


class U:
    def __init__(self, why=""):
        self.why = why

    def __repr__(self):
        return "?"


def jd(a, b):
    if isinstance(a, U) and a.why == "none":
        return b
    if isinstance(b, U) and b.why == "none":
        return a
    if isinstance(a, D) and isinstance(b, D):
        return D(a.d if a.d == b.d else T)
    if isinstance(a, S) and isinstance(b, S) and a.fields.keys() == b.fields.keys():
        return S(a.ty, {k: jd(a.fields[k], b.fields[k]) for k in a.fields})
    if isinstance(a, U):
        return b
    if isinstance(b, U):
        return a
    return U("join")


class DegEval:
    def __init__(self, prog):
        self.prog = prog
        self._ret = {}
        self.reports = []
        self.stack = []
        self._conds_done = set()
        self._rep_seen = set()

    def ret(self, f):
        if f.id not in self._ret:
            self._ret[f.id] = Origins(f).return_origin()
        return self._ret[f.id]

    def report(self, kind, fn, what):
        root = self.stack[0].key() if self.stack else fn.key()
        k = (kind, fn.key())
        if k in self._rep_seen:
            return
        self._rep_seen.add(k)
        self.reports.append((kind, fn.key(), what, root))

    # ---- entry values by type and role ------------------------------------------------------------
    def entry(self, ty, name, pos=None):
        """pos: degree given to Point coordinates (1 position / 0 displacement)"""
        while isinstance(ty, dict) and "ref" in ty:
            ty = ty["ref"]
        if isinstance(ty, str):
            return D(0)
        if isinstance(ty, dict) and "adt" in ty:
            if ty["adt"] == POINT:
                d = pos if pos is not None else (0 if name in DISPLACEMENT else (2 if str(name).endswith("_2x") else 1))
                return S(POINT, {0: D(d), 1: D(d)})
            if ty["adt"] == "core::option::Option":
                return S("Option", {0: self.entry(ty["args"][0], name, pos)})
            adt = self.prog.adts.get(ty["adt"])
            if adt and adt["kind"] == "struct":
                fs = {}
                for i, f in enumerate(adt["variants"][0]["fields"]):
                    fs[i] = self.entry(f["ty"], f["name"], None)
                return S(ty["adt"], fs)
            if adt is None and not ty["adt"].startswith("embedded_graphics") and (ty["adt"].startswith("fixed::") or not ty.get("args")):
                return D(0)   # a value of a foreign type (fixed::FixedI32, ..) cannot hold a position: it does not move
            return U("adt " + ty["adt"])
        if isinstance(ty, dict) and ("array" in ty or "slice" in ty):
            inner = self.entry(ty.get("array") or ty.get("slice"), name, pos)
            return S("array", {"*": inner})
        if isinstance(ty, dict) and "tuple" in ty:
            return S("tuple", {i: self.entry(t, name, pos) for i, t in enumerate(ty["tuple"])})
        return U("type")

    def run_fn(self, f, args=None):
        if args is None:
            ins = f.d.get("inputs") or [f.body["locals"][i + 1]["ty"] for i in range(f.body["argc"])]
            args = [self.entry(t, f.body["locals"][i + 1].get("name")) for i, t in enumerate(ins)]
        return self.call_fn(f, args, 0)

    def call_fn(self, f, args, depth):
        if depth > 10 or f in self.stack:
            return U("depth")
        self.stack.append(f)
        env = {i + 1: a for i, a in enumerate(args)}
        try:
            v = self.eval(self.ret(f), env, f, depth)
            self.conditions(f, env, depth)
        finally:
            self.stack.pop()
        return v

    def conditions(self, f, env, depth):
        """evaluate every branch condition of f (comparisons must relate equal degrees)"""
        sig = (f.id, repr(sorted(((str(k), repr(v)) for k, v in env.items()))))
        if sig in self._conds_done:
            return
        self._conds_done.add(sig)
        org = Origins(f)
        for bi in sorted(org.cfg.live_blocks()):
            blk = f.body["blocks"][bi]
            t = blk["t"]
            if t and t["k"] == "switch":
                d = org.operand(t["d"], bi, len(blk["s"]))
                self.eval(d, env, f, depth)

    # ---- evaluation ---------------------------------------------------------------------------------
    def eval(self, t, env, fn, depth):
        k = t[0]
        if k == "param":
            return env.get(t[1], U("param"))
        if k in ("ref", "deref"):
            return self.eval(t[1], env, fn, depth)
        if k == "const":
            v = t[1]
            if isinstance(v, str) and v.startswith("val:"):
                return self.from_json(json.loads(v[4:]))
            if isinstance(v, int) and not isinstance(v, bool):
                return D(0, v)
            return D(0)
        if k == "cast":
            return self.eval(t[1], env, fn, depth)
        if k == "upvar":
            return env.get(("upvar", t[1]), U("upvar"))
        if k == "bin":
            a, b = self.eval(t[2], env, fn, depth), self.eval(t[3], env, fn, depth)
            if isinstance(a, Z):
                a = D(0)
            if isinstance(b, Z):
                b = D(0)
            op = t[1]
            if not (isinstance(a, D) and isinstance(b, D)):
                return D(T) if op not in ("Eq", "Ne", "Lt", "Le", "Gt", "Ge") else D(0)
            if op in ("Eq", "Ne", "Lt", "Le", "Gt", "Ge"):
                if a.d != b.d or a.d == T:
                    if not (a.d == T and b.d == T and False):
                        self.report("cmp", fn, "%s compares a value of degree %s with one of degree %s: %s" % (op, a.d, b.d, show(t, maxd=4)))
                return D(0)
            if T in (a.d, b.d):
                if op in ("Div", "Rem", "Shr", "BitAnd") and a.d == T:
                    pass
                return D(T)
            if op.startswith("Add"):
                return D(a.d + b.d)
            if op.startswith("Sub"):
                return D(a.d - b.d)
            if op.startswith("Mul"):
                if a.d == 0 and b.d == 0:
                    return D(0)
                if a.c is not None and a.d == 0:
                    return D(b.d * a.c)
                if b.c is not None and b.d == 0:
                    return D(a.d * b.c)
                self.report("scale", fn, "a position-dependent value (degree %s/%s) is multiplied by a non-constant: %s" % (a.d, b.d, show(t, maxd=4)))
                return D(T)
            if op in ("Div", "Rem", "Shr", "ShrUnchecked", "BitAnd", "BitOr", "BitXor", "Shl", "ShlUnchecked"):
                if a.d == 0 and b.d == 0:
                    return D(0)
                if op.startswith("Shl") and b.d == 0 and b.c is not None:
                    return D(a.d * (1 << b.c))
                self.report("div", fn, "%s applied to a position-dependent value (degree %s): the rounding depends on the absolute position: %s" % (op, a.d, show(t, maxd=4)))
                return D(T)
            return D(T)
        if k == "un":
            a = self.eval(t[2], env, fn, depth)
            if isinstance(a, Z):
                return a
            if isinstance(a, D):
                if t[1] == "Neg":
                    return D(-a.d if a.d != T else T)
                return D(0 if a.d == 0 else T)
            return U("un")
        if k == "field":
            a = self.eval(t[1], env, fn, depth)
            if isinstance(a, Z):
                return a
            if isinstance(a, S):
                if t[2] in a.fields:
                    return a.fields[t[2]]
                if "*" in a.fields:
                    return a.fields["*"]
            return U("field")
        if k == "index":
            a = self.eval(t[1], env, fn, depth)
            if isinstance(a, S) and "*" in a.fields:
                return a.fields["*"]
            if isinstance(a, S) and a.fields:
                out = None
                for v in a.fields.values():
                    out = v if out is None else jd(out, v)
                return out
            return U("index")
        if k == "variant":
            a = self.eval(t[1], env, fn, depth)
            if isinstance(a, S) and a.ty == "Option":
                return S("Some", {0: a.fields[0]})
            return a
        if k == "agg":
            name = str(t[1])
            ops = [self.eval(o, env, fn, depth) for o in t[2]]
            if name.endswith("Option::Some"):
                return S("Option", {0: ops[0]})
            if name.endswith("Option::None"):
                return U("none")
            if name in ("tuple", "array"):
                return S(name, dict(enumerate(ops)))
            if "::" in name and not name.startswith("closure:"):
                return S(name.rsplit("::", 1)[0], dict(enumerate(ops)))
            if name.startswith("closure:") and self.prog.fns.get(name[len("closure:"):]) is not None:
                return C(self.prog.fns[name[len("closure:"):]], ops)
            return U("agg")
        if k == "phi":
            out = None
            for a in t[1]:
                v = self.eval(a, env, fn, depth)
                out = v if out is None else jd(out, v)
            return out
        if k == "discr":
            self.eval(t[1], env, fn, depth)
            return D(0)
        if k == "call":
            return self.call(t, env, fn, depth)
        if k in ("mut", "update"):
            return self.eval(t[1], env, fn, depth)
        return U(k)

    def from_json(self, v):
        if isinstance(v, (int, bool)):
            return D(0)
        if isinstance(v, dict) and "struct" in v:
            return S(v["struct"], {i: self.from_json(x) for i, x in enumerate(v["fields"].values())})
        return U("const")

    def call(self, t, env, fn, depth):
        path, targs = t[1], t[3]
        name = path.split("::")[-1]
        args = [self.eval(a, env, fn, depth) for a in targs]
        if path.endswith("Rectangle::zero") and not args:
            return U("none")  # the documented "empty" result carries no position (neutral in joins)
        cands = [f for f in self.prog.by_path.get(path, []) if f.body and f.kind in ("fn", "assoc_fn")]
        if len(cands) == 1 and not cands[0].d.get("trait_def"):
            return self.call_fn(cands[0], args, depth + 1)
        # closures handed to Option combinators
        if name in ("map", "and_then", "is_some_and", "filter", "map_or", "unwrap_or_else", "or_else") and targs and targs[-1][0] == "agg" and str(targs[-1][1]).startswith("closure:"):
            clo = self.prog.fns.get(targs[-1][1][len("closure:"):])
            if clo is not None:
                subj = args[0]
                payload = subj.fields[0] if isinstance(subj, S) and subj.ty in ("Option", "Some") else U("payload")
                caps = [self.eval(c, env, fn, depth) for c in targs[-1][2]]
                cenv = {2: payload}
                for i, c in enumerate(caps):
                    cenv[("upvar", i)] = c
                self.stack.append(clo)
                try:
                    r = self.eval(self.ret(clo), cenv, clo, depth + 1)
                    self.conditions(clo, cenv, depth + 1)
                finally:
                    self.stack.pop()
                if name == "is_some_and":
                    return D(0)
                if name in ("map",):
                    return S("Option", {0: r})
                return r
        # a callable parameter bound to a closure by the caller: `f(self.top_left)` inside `map_corners(self, f)`
        if name in ("call", "call_mut", "call_once") and "ops::function" in path and len(args) == 2 and isinstance(args[0], C) and isinstance(args[1], S) and args[1].ty == "tuple":
            clo = args[0].clo
            if clo not in self.stack and depth < 10:
                cenv = {i + 2: v for i, v in args[1].fields.items() if isinstance(i, int)}
                for i, c in enumerate(args[0].caps):
                    cenv[("upvar", i)] = c
                self.stack.append(clo)
                try:
                    r = self.eval(self.ret(clo), cenv, clo, depth + 1)
                    self.conditions(clo, cenv, depth + 1)
                finally:
                    self.stack.pop()
                return r
        # bool::then(cond, || value) / then_some(cond, value): Some(value) or None, the condition carries no position
        if name in ("then", "then_some") and path.startswith(("core::bool", "<impl bool>", "bool::")) and len(targs) == 2:
            if name == "then_some":
                return S("Option", {0: args[1]})
            if targs[1][0] == "agg" and str(targs[1][1]).startswith("closure:"):
                clo = self.prog.fns.get(targs[1][1][len("closure:"):])
                if clo is not None:
                    cenv = {}
                    for i, c in enumerate([self.eval(c, env, fn, depth) for c in targs[1][2]]):
                        cenv[("upvar", i)] = c
                    self.stack.append(clo)
                    try:
                        r = self.eval(self.ret(clo), cenv, clo, depth + 1)
                        self.conditions(clo, cenv, depth + 1)
                    finally:
                        self.stack.pop()
                    return S("Option", {0: r})
        ds = [a for a in args if isinstance(a, D)]
        if name in ("min", "max", "clamp") and len(ds) >= 2:
            if all(x.d == ds[0].d for x in ds) and ds[0].d != T:
                return D(ds[0].d)
            self.report("cmp", fn, "%s of values with different degrees %s: %s" % (name, [x.d for x in ds], show(t, maxd=4)))
            return D(T)
        if name in ("saturating_add", "wrapping_add", "checked_add") and len(ds) == 2:
            return D(T if T in (ds[0].d, ds[1].d) else ds[0].d + ds[1].d)
        if name in ("saturating_sub", "wrapping_sub", "checked_sub") and len(ds) == 2:
            return D(T if T in (ds[0].d, ds[1].d) else ds[0].d - ds[1].d)
        if name in ("abs", "unsigned_abs", "pow", "signum", "saturating_mul", "isqrt", "abs_diff") and ds:
            if all(x.d == 0 for x in ds):
                return D(0)
            self.report("div", fn, "%s applied to a position-dependent value (degree %s): %s" % (name, [x.d for x in ds], show(t, maxd=4)))
            return D(T)
        if name in ("into_iter", "iter", "by_ref", "copied", "cloned") and len(args) == 1 and isinstance(args[0], S) and args[0].ty in ("array", "tuple") and args[0].fields and "*" not in args[0].fields:
            return args[0]        # an iterator over a literal array: carries the elements' degrees
        if name in ("next", "next_back") and len(args) == 1 and isinstance(args[0], S) and args[0].ty == "array" and args[0].fields and "*" not in args[0].fields:
            out = None
            for v in args[0].fields.values():
                out = v if out is None else jd(out, v)
            return S("Option", {0: out})
        if name in ("unwrap_or", "unwrap", "expect", "unwrap_or_default", "unwrap_unchecked") and args:
            a = args[0]
            if isinstance(a, S) and a.ty in ("Option", "Some"):
                a = a.fields.get(0, U("payload"))      # the payload, not the Option around it
            if name == "unwrap_or" and len(args) == 2:
                a = jd(a, args[1])
            return a
        if name in ("saturating_as", "into", "from", "clone", "try_into", "try_from", "copied", "cloned", "as_ref", "borrow") and args:
            return args[0]
        if name in ("is_some", "is_none", "eq", "ne", "contains") and args:
            return D(0)
        if all(is_zero(a) for a in args):
            return Z()  # pure function of position-independent inputs (angles, sizes, trigonometry …)
        return U("call " + path)


# ---- obligations ----------------------------------------------------------------------------------
def expected_result(prog, ty, displacement=False):
    """degrees a result of this type must have: positions 1, everything else 0"""
    de = DegEval(prog)
    return de.entry(ty, "result", 0 if displacement else 1)


def same(a, b):
    if isinstance(a, Z):
        return is_zero(b)
    if isinstance(a, D) and isinstance(b, D):
        return a.d == b.d
    if isinstance(a, S) and isinstance(b, S):
        if a.ty in ("Option", "Some") or b.ty in ("Option", "Some"):
            return same(a.fields.get(0), b.fields.get(0))
        if "*" in a.fields or "*" in b.fields:
            xs = list(a.fields.values()) + list(b.fields.values())
            return all(same(xs[0], x) for x in xs[1:])
        return a.fields.keys() == b.fields.keys() and all(same(a.fields[k], b.fields[k]) for k in a.fields)
    if isinstance(a, U) and a.why == "none":
        return True
    return False


def check_table(prog, rep, rule, table, known_prefix=()):
    """table: [(function, displacement_result: bool | explicit expected value)]"""
    n = 0
    for f, disp in table:
        de = DegEval(prog)
        res = de.run_fn(f)
        n += 1
        key = f.key()
        seen = set()
        for kind, where, what, root in de.reports:
            k2 = (kind, where)
            if k2 in seen:
                continue
            seen.add(k2)
            rep.fail(rule, "%s:%s@%s" % (key, kind, where), "not translation-equivariant: in %s (reached from %s): %s" % (where, key, what), at=f.span, fn=f.path,
                     status="refuted" if kind == "div" else "undecided")
        out_ty = f.d.get("output")
        if isinstance(disp, (D, S)):
            want = disp
        else:
            want = DegEval(prog).entry(out_ty, "result", 0 if disp else 1) if out_ty is not None else None
        if isinstance(want, U) or want is None:
            if not de.reports:
                rep.ok(rule, key, detail="no position-dependent rounding/scaling/comparison; result %r" % (res,), at=f.span, fn=f.path)
            continue
        ok = same(res, want)
        if not de.reports or not ok:
            rep.check(ok, rule, key, "the result must shift with the object (positions degree 1, sizes/flags degree 0): expected %r, computed %r" % (want, res), at=f.span, fn=f.path,
                      detail={"result": repr(res), "expected": repr(want)}, status="undecided")
        if len(rep.samples) < 10 and ok:
            rep.sample({"rule": rule, "fn": key, "result_degrees": repr(res)})
    return n


def run_c16(ctx, rep):
    prog = ctx.program("default")
    names = ["new", "with_corners", "with_center", "center", "bottom_right", "contains", "intersection", "envelope", "resized", "resized_width", "resized_height",
             "offset", "anchor_point", "anchor_x", "anchor_y", "is_zero_sized", "columns", "rows"]
    explicit = {"anchor_x": D(1), "anchor_y": D(1)}
    table = []
    for nm in names:
        for f in prog.method(RECT, nm):
            impl = prog.impls.get(f.impl)
            if impl and impl.get("trait") in (None, "embedded_graphics::primitives::ContainsPoint", "embedded_graphics::primitives::OffsetOutline", "embedded_graphics_core::geometry::Dimensions"):
                table.append((f, explicit.get(nm, False)))
    n = check_table(prog, rep, "R16.5", table)
    rep.floor("R16.5", "Rectangle API functions", n, 17)


PRIMS = ["circle::Circle", "ellipse::Ellipse", "arc::Arc", "sector::Sector", "rounded_rectangle::RoundedRectangle", "line::Line", "triangle::Triangle"]
TRAITS_OK = (None, "embedded_graphics::primitives::ContainsPoint", "embedded_graphics::primitives::OffsetOutline", "embedded_graphics_core::geometry::Dimensions",
             "embedded_graphics::primitives::styled::StyledDimensions")


# outside the rule's reach, one line each:
EXCLUDE = {
    ("Triangle", "contains"): "barycentric test multiplies absolute coordinates pairwise; the degree-2 terms cancel only as a polynomial identity",
    ("Triangle", "area_doubled"): "same (signed area from products of absolute coordinates)",
    ("Triangle", "sorted_clockwise"): "uses area_doubled",
    ("Triangle", "scanline_intersection"): "uses area_doubled; Bresenham edge walk (C17/C19)",
    ("Triangle", "joins"): "thick join machinery: known deviation (IntersectionParams::intersection rounds a position-dependent numerator)",
    ("Triangle", "is_collapsed"): "thick join machinery",
    ("Triangle", "styled_bounding_box"): "thick join machinery",
    ("Line", "styled_bounding_box"): "thick line extents: perpendicular Bresenham walk",
    ("Line", "extents"): "thick line extents: perpendicular Bresenham walk",
    ("Circle", "distances"): "iterator over doubled coordinates (construction only)",
}
EXPLICIT = {"center_2x": S(POINT, {0: D(2), 1: D(2)}), "delta": S(POINT, {0: D(0), 1: D(0)})}


def c07_table(prog):
    table = []
    for short in PRIMS:
        adt = "embedded_graphics::primitives::" + short
        for impl in prog.impls.values():
            st = impl["self_ty"]
            if not (isinstance(st, dict) and st.get("adt") == adt and impl.get("trait") in TRAITS_OK):
                continue
            for nm, fid in impl["fns"].items():
                f = prog.fns.get(fid)
                if f is None or not f.body or f.body["argc"] < 1:
                    continue
                first = f.body["locals"][1]
                if first.get("name") != "self":
                    continue
                if (short.split("::")[-1], nm) in EXCLUDE:
                    continue
                if prog.is_new(f):
                    continue   # a helper introduced by an edit: covered through the functions that call it (callees are inlined)
                table.append((f, EXPLICIT.get(nm, False)))
    return table


def run_c07(ctx, rep):
    prog = ctx.program("default")
    table = c07_table(prog)
    n = check_table(prog, rep, "R07.2", table)
    rep.floor("R07.2", "primitive query functions", n, 30)


if __name__ == "__main__":
    import sys, os
    sys.path.insert(0, "/verif/engine"); sys.path.insert(0, "/verif")
    from mirq import Program
    prog = Program("default")
    for f, disp in c07_table(prog):
        de = DegEval(prog)
        res = de.run_fn(f)
        print(f.key()[-90:], "=>", res, "|", len(de.reports), "reports")
        for r in de.reports[:2]:
            print("      ", r[0], r[1][-60:], r[2][:160])
