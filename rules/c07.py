"""C07 — rendering commutes with translation (structural part: R07.1 translate ≡ translate_mut and both
move exactly the anchors)."""
from mirq import ty_str
from mirq.origin import Origins, show, walk
from mirq.pat import match, find, strip_refs
from rules.c03 import closure_ret

TRANSFORM = "embedded_graphics::transform::Transform"
# anchors confirmed by reading: fields that carry absolute position
ANCHORS = {
    "Rectangle": {"top_left"}, "Circle": {"top_left"}, "Ellipse": {"top_left"}, "Arc": {"top_left"}, "Sector": {"top_left"},
    "Line": {"start", "end"}, "Triangle": {"vertices"}, "RoundedRectangle": {"rectangle"}, "Polyline": {"translate"},
    "Text": {"position"}, "Image": {"offset"}, "Styled": {"primitive"},
}
BY = ("param", 2, "by")
SELF = ("param", 1, "self")


def norm_clone(t):
    from mirq.origin import subst
    return subst(t, lambda n: n[3][0] if n[0] == "call" and n[1].endswith("::clone") and len(n[3]) == 1 else None)


def classify(op, i):
    """'same' | 'shift' | '?'"""
    op = norm_clone(strip_refs(op))
    f = ("field", SELF, i)
    if op == f:
        return "same"
    for pat in (("call", "*Add>::add", "_", (f, BY)), ("call", "*Add>::add", "_", (BY, f)), ("call", "*::translate", "_", (f, BY)),
                ("call", "*Add<embedded_graphics_core::geometry::point::Point>>::add", "_", (f, BY))):
        if match(op, pat) is not None:
            return "shift"
    return "?"


def effects_mut(prog, f, nfields):
    """Per-field effect of translate_mut from its writes through self."""
    org = Origins(f)
    eff = {i: "same" for i in range(nfields)}
    body = f.body

    def field_of(tree):
        m = match(strip_refs(tree), ("field", SELF, "?i"))
        return m["?i"] if m is not None else None
    for bi in sorted(org.cfg.live_blocks()):
        blk = body["blocks"][bi]
        for si, s in enumerate(blk["s"]):
            if s["k"] == "assign" and s["place"]["l"] == 1 and "*" in s["place"]["p"]:
                fs = [e["f"] for e in s["place"]["p"] if isinstance(e, dict) and "f" in e]
                if len(fs) == 1:
                    eff[fs[0]] = classify(org._rvalue(s["rv"], bi, si), fs[0])
                elif fs:
                    eff[fs[0]] = "?"
        t = blk["t"]
        if t and t["k"] == "call":
            nm = t["f"].get("name")
            args = [strip_refs(a) for a in org.term_args(bi)]
            touched = [field_of(a) for a in args if field_of(a) is not None]
            if nm in ("add_assign", "translate_mut") and len(args) == 2 and touched and args[1] == BY:
                i = field_of(args[0])
                if i is not None:
                    eff[i] = "shift"
                continue
            if nm == "for_each" and len(args) == 2:
                m = match(args[0], ("call", "*::iter_mut", "_", ("?x",)))
                i = field_of(m["?x"]) if m else None
                c, cr, caps = closure_ret(prog, args[1])
                good = False
                if i is not None and cr is not None:
                    mm = match(cr, ("call", "*AddAssign>::add_assign", "_", (("param", 2, "?n"), "?b")))
                    if mm is None:
                        mm = match(cr, ("call", "*::translate_mut", "_", (("param", 2, "?n"), "?b")))
                    good = mm is not None and mm["?b"][0] == "upvar" and caps and caps[mm["?b"][1]] == BY
                if i is not None:
                    eff[i] = "shift" if good else "?"
                continue
            # any other call that gets `&mut self.field`
            for a_raw, a in zip(t["args"], args):
                pl = a_raw.get("move") or a_raw.get("copy")
                if pl is None:
                    continue
                ty = body["locals"][pl["l"]]["ty"]
                if isinstance(ty, dict) and ty.get("mut") and "ref" in ty:
                    i = field_of(a)
                    if i is not None and nm not in ("iter_mut",):
                        eff[i] = "?"
    return eff


def effects_pure(prog, f, nfields, eff_mut):
    ro = norm_clone(strip_refs(Origins(f).return_origin()))
    if ro[0] == "agg" and len(ro[2]) == nfields:
        return {i: classify(op, i) for i, op in enumerate(ro[2])}, ro
    # copy, translate_mut on the copy, return the copy
    m = match(ro, ("mut", SELF, ("call", "*::translate_mut", "_", (SELF, BY)), ()))
    if m is not None:
        return dict(eff_mut), ro
    return {i: "?" for i in range(nfields)}, ro


def run(ctx, rep):
    prog = ctx.program("default")
    rep.configs.append(getattr(ctx, "alias", "default"))
    impls = prog.impls_of_trait(TRANSFORM)
    rep.floor("R07.1", "Transform impls", len(impls), 12)
    seen = set()
    for impl in sorted(impls, key=lambda i: ty_str(i["self_ty"])):
        adt_path = impl["self_ty"].get("adt")
        name = adt_path.split("::")[-1] if adt_path else ty_str(impl["self_ty"])
        seen.add(name)
        adt = prog.adts.get(adt_path)
        if adt is None or name not in ANCHORS:
            rep.fail("R07.1", name, "Transform impl for a type without a confirmed anchor table entry", status="undecided")
            continue
        fields = [f["name"] for f in adt["variants"][0]["fields"]]
        tm = prog.fns[impl["fns"]["translate_mut"]]
        tr = prog.fns[impl["fns"]["translate"]]
        em = effects_mut(prog, tm, len(fields))
        ep, ro = effects_pure(prog, tr, len(fields), em)
        named = lambda e: {fields[i]: v for i, v in e.items()}
        shifted_m = {fields[i] for i, v in em.items() if v == "shift"}
        shifted_p = {fields[i] for i, v in ep.items() if v == "shift"}
        unk = [fields[i] for i, v in list(em.items()) + list(ep.items()) if v == "?"]
        if unk:
            rep.fail("R07.1", name, "cannot classify the effect on field(s) %s (translate: %s, translate_mut: %s)" % (sorted(set(unk)), named(ep), named(em)),
                     status="undecided", at=tr.span, fn=tr.path, detail=show(ro, maxd=6))
            continue
        ok = shifted_m == shifted_p == ANCHORS[name]
        rep.check(ok, "R07.1", name,
                  "translate shifts %s, translate_mut shifts %s, the position-carrying fields are %s: all three must coincide (every other field unchanged)"
                  % (sorted(shifted_p), sorted(shifted_m), sorted(ANCHORS[name])), at=tr.span, fn=tr.path, detail={"translate": named(ep), "translate_mut": named(em)})
        rep.sample({"rule": "R07.1", "type": name, "translate": named(ep), "translate_mut": named(em)})
        # translate_mut returns self
        rm = strip_refs(Origins(tm).return_origin())
        rep.check(rm == SELF or (rm[0] == "mut" and rm[1] == SELF), "R07.1", name + ":returns-self", "translate_mut must return self; returns %s" % show(rm, maxd=4), at=tm.span, fn=tm.path)
    missing = set(ANCHORS) - seen
    rep.check(not missing, "R07.1", "coverage", "Transform impls missing for %s" % sorted(missing), status="undecided")
    polyline_translate_use(prog, rep)


def polyline_translate_use(prog, rep):
    """R07.3: the consumers that rasterise or measure a polyline from its untranslated vertices apply the
    extra `translate` offset: each listed function family (function + closures) reads a `translate` field."""
    PL = "embedded_graphics::primitives::polyline::"
    consumers = [
        ("<" + PL + "Polyline<'_> as embedded_graphics_core::geometry::Dimensions>::bounding_box", "Polyline::bounding_box"),
        (PL + "points::Points::<'a>::new", "polyline::Points::new"),
        ("<" + PL + "points::Points<'_> as core::iter::traits::iterator::Iterator>::next", "polyline::Points::next"),
    ]
    styled = [f for f in prog.fns.values() if f.kind == "assoc_fn" and "polyline::styled" in f.id and f.name in ("draw_styled", "styled_bounding_box", "next", "new")]
    fams = [(prog.by_path.get(p, [None])[0], k) for p, k in consumers] + [(f, "polyline::styled::" + f.path.split("::")[-2 if f.name != "next" else -1] + "::" + f.name) for f in styled]
    n = 0
    for f, key in fams:
        if f is None:
            rep.fail("R07.3", key, "anchor lost", status="undecided")
            continue
        n += 1
        fam = [f]
        i = 0
        while i < len(fam):
            fam.extend(prog.closures_of.get(fam[i].id, []))
            i += 1
        reads = False
        for g in fam:
            for b in g.body["blocks"]:
                for s in b["s"]:
                    if s["k"] != "assign":
                        continue
                    for pl in _places(s):
                        lty = g.body["locals"][pl["l"]]["ty"]
                        base = lty
                        while isinstance(base, dict) and "ref" in base:
                            base = base["ref"]
                        if isinstance(base, dict) and base.get("adt", "").startswith(PL):
                            adt = prog.adts.get(base["adt"])
                            fs = [e["f"] for e in pl["p"] if isinstance(e, dict) and "f" in e]
                            if adt and fs and fs[0] < len(adt["variants"][0]["fields"]) and adt["variants"][0]["fields"][fs[0]]["name"] == "translate":
                                reads = True
                for uv in g.body.get("upvars", []):
                    if "translate" in uv["name"]:
                        reads = True
                    
        # styled `new`/`next` of iterators that never see a polyline are skipped when they have no polyline-typed local
        rep.check(reads, "R07.3", key, "does not read the `translate` offset: a translated polyline would be rendered/measured at its untranslated position", at=f.span, fn=f.path)
    rep.floor("R07.3", "translate consumers", n, 5)


def _places(s):
    out = [s["place"]]
    rv = s["rv"]
    if "place" in rv:
        out.append(rv["place"])
    for k in ("a", "b"):
        o = rv.get(k)
        if isinstance(o, dict):
            pl = o.get("copy") or o.get("move")
            if pl:
                out.append(pl)
    for o in rv.get("ops", []) or []:
        pl = o.get("copy") or o.get("move")
        if pl:
            out.append(pl)
    return out


