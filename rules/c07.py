"""C07 — rendering commutes with translation (structural part: R07.1 translate ≡ translate_mut and both
move exactly the anchors)."""
from mirq import ty_str
from mirq.origin import Origins, show, walk
from mirq.pat import match, find, strip_refs
from rules.c03 import closure_ret

TRANSFORM = "embedded_graphics::transform::Transform"
# anchors confirmed by reading: fields that carry absolute position
ANCHORS = {
    "Rectangle": {"top_left"}, "Circle": {"top_left"}, "Ellipse": {"top_left"}, "Arc": {"top_left"}, "Sector": {"top_left"},
    "Line": {"start", "end"}, "Triangle": {"vertices"}, "RoundedRectangle": {"rectangle"}, "Polyline": {"translate"},
    "Text": {"position"}, "Image": {"offset"}, "Styled": {"primitive"},
}
BY = ("param", 2, "by")
SELF = ("param", 1, "self")


def norm_clone(t):
    from mirq.origin import subst
    return subst(t, lambda n: n[3][0] if n[0] == "call" and n[1].endswith("::clone") and len(n[3]) == 1 else None)


def classify(op, i):
    """'same' | 'shift' | '?'"""
    op = norm_clone(strip_refs(op))
    f = ("field", SELF, i)
    if op == f:
        return "same"
    for pat in (("call", "*Add>::add", "_", (f, BY)), ("call", "*Add>::add", "_", (BY, f)), ("call", "*::translate", "_", (f, BY)),
                ("call", "*Add<embedded_graphics_core::geometry::point::Point>>::add", "_", (f, BY))):
        if match(op, pat) is not None:
            return "shift"
    return "?"


def effects_mut(prog, f, nfields):
    """Per-field effect of translate_mut from the effects of its path summaries (loops and for_each walked once: an
    element-wise `+= by` over field.iter_mut() shifts the field)."""
    from mirq.paths import Paths, Unsupported
    eff = {i: "same" for i in range(nfields)}
    seen = {}

    def root_field(t):
        """(field index on self, is the field itself / an element of it reached through iter_mut)"""
        if match(t, ("field", SELF, "?i")) is not None:
            return t[2], "whole"
        m = match(t, ("payload", ("call", "*::next", "_", ("?it",))))
        if m is not None:
            it = m["?it"]
            while it[0] == "call" and it[1].split("::")[-1] in ("into_iter", "by_ref") and len(it[3]) == 1:
                it = it[3][0]
            mm = match(it, ("call", "*::iter_mut", "_", (("field", SELF, "?i"),)))
            if mm is not None:
                return mm["?i"], "each"
            mm = match(strip_refs(it), ("field", SELF, "?i"))      # `for v in &mut self.field`
            if mm is not None:
                return mm["?i"], "each"
        for n in walk(t):
            mm = match(n, ("field", SELF, "?i"))
            if mm is not None:
                return mm["?i"], "part"
        return None, None
    try:
        summs = Paths(prog, loops="once").of(f)
    except Unsupported:
        return {i: "?" for i in range(nfields)}
    for sm in summs:
        for e in sm.effects:
            if e[0] == "write":
                i, how = root_field(e[1])
                cls = classify(e[2], i) if how == "whole" else "?"
            else:
                c = e[1]
                nm = c[1].split("::")[-1]
                if nm in ("next", "iter_mut", "into_iter"):
                    continue
                i, how = root_field(c[3][0]) if c[3] else (None, None)
                cls = "shift" if nm in ("add_assign", "translate_mut") and len(c[3]) == 2 and c[3][1] == BY and how in ("whole", "each") else "?"
            if i is None:
                return {k: "?" for k in range(nfields)}
            seen.setdefault(i, set()).add(cls)
    for i, cl in seen.items():
        eff[i] = cl.pop() if len(cl) == 1 else "?"
    return eff


def effects_pure(prog, f, nfields, eff_mut):
    ro = norm_clone(strip_refs(Origins(f).return_origin()))
    if ro[0] == "agg" and len(ro[2]) == nfields:
        return {i: classify(op, i) for i, op in enumerate(ro[2])}, ro
    # copy, translate_mut on the copy, return the copy
    m = match(ro, ("mut", SELF, ("call", "*::translate_mut", "_", (SELF, BY)), ()))
    if m is not None:
        return dict(eff_mut), ro
    # built through a plain constructor function (`Self::new(self.top_left + by, self.size)`) or a helper new to the
    # tree: read the one path summary with those inlined
    from mirq.paths import Paths, Unsupported
    try:
        summs = Paths(prog, inline=lambda g: prog.is_new(g) or g.name in ("new", "with_top_left")).of(f)
    except Unsupported:
        summs = []
    if len(summs) == 1 and not summs[0].effects:
        r = norm_clone(strip_refs(summs[0].ret))
        if r[0] == "agg" and len(r[2]) == nfields:
            return {i: classify(op, i) for i, op in enumerate(r[2])}, r
    return {i: "?" for i in range(nfields)}, ro


def run(ctx, rep):
    prog = ctx.program("default")
    rep.configs.append(getattr(ctx, "alias", "default"))
    impls = prog.impls_of_trait(TRANSFORM)
    rep.floor("R07.1", "Transform impls", len(impls), 12)
    seen = set()
    for impl in sorted(impls, key=lambda i: ty_str(i["self_ty"])):
        adt_path = impl["self_ty"].get("adt")
        name = adt_path.split("::")[-1] if adt_path else ty_str(impl["self_ty"])
        seen.add(name)
        adt = prog.adts.get(adt_path)
        if adt is None or name not in ANCHORS:
            rep.fail("R07.1", name, "Transform impl for a type without a confirmed anchor table entry", status="undecided")
            continue
        fields = [f["name"] for f in adt["variants"][0]["fields"]]
        tm = prog.fns[impl["fns"]["translate_mut"]]
        tr = prog.fns[impl["fns"]["translate"]]
        em = effects_mut(prog, tm, len(fields))
        ep, ro = effects_pure(prog, tr, len(fields), em)
        named = lambda e: {fields[i]: v for i, v in e.items()}
        shifted_m = {fields[i] for i, v in em.items() if v == "shift"}
        shifted_p = {fields[i] for i, v in ep.items() if v == "shift"}
        unk = [fields[i] for i, v in list(em.items()) + list(ep.items()) if v == "?"]
        if unk:
            rep.fail("R07.1", name, "cannot classify the effect on field(s) %s (translate: %s, translate_mut: %s)" % (sorted(set(unk)), named(ep), named(em)),
                     status="undecided", at=tr.span, fn=tr.path, detail=show(ro, maxd=6))
            continue
        ok = shifted_m == shifted_p == ANCHORS[name]
        rep.check(ok, "R07.1", name,
                  "translate shifts %s, translate_mut shifts %s, the position-carrying fields are %s: all three must coincide (every other field unchanged)"
                  % (sorted(shifted_p), sorted(shifted_m), sorted(ANCHORS[name])), at=tr.span, fn=tr.path, detail={"translate": named(ep), "translate_mut": named(em)})
        rep.sample({"rule": "R07.1", "type": name, "translate": named(ep), "translate_mut": named(em)})
        # translate_mut returns self
        rm = strip_refs(Origins(tm).return_origin())
        while rm[0] in ("mut", "update"):   # the same object after its fields were changed
            rm = rm[1]
        rep.check(rm == SELF, "R07.1", name + ":returns-self", "translate_mut must return self; returns %s" % show(rm, maxd=4), at=tm.span, fn=tm.path)
    missing = set(ANCHORS) - seen
    rep.check(not missing, "R07.1", "coverage", "Transform impls missing for %s" % sorted(missing), status="undecided")
    polyline_translate_use(prog, rep)
    try:
        polyline_box_paths(prog, rep)
    except Exception as e:
        import traceback; traceback.print_exc()
        rep.fail("R07.5", "engine", "polyline box analysis crashed: %r" % (e,), status="undecided")


def polyline_translate_use(prog, rep):
    """R07.3: the consumers that rasterise or measure a polyline from its untranslated vertices apply the
    extra `translate` offset: each listed function family (function + closures) reads a `translate` field."""
    PL = "embedded_graphics::primitives::polyline::"
    consumers = [
        ("<" + PL + "Polyline<'_> as embedded_graphics_core::geometry::Dimensions>::bounding_box", "Polyline::bounding_box"),
        (PL + "points::Points::<'a>::new", "polyline::Points::new"),
        ("<" + PL + "points::Points<'_> as core::iter::traits::iterator::Iterator>::next", "polyline::Points::next"),
    ]
    styled = [f for f in prog.fns.values() if f.kind == "assoc_fn" and "polyline::styled" in f.id and f.name in ("draw_styled", "styled_bounding_box", "next", "new")]
    fams = [(prog.by_path.get(p, [None])[0], k) for p, k in consumers] + [(f, "polyline::styled::" + f.path.split("::")[-2 if f.name != "next" else -1] + "::" + f.name) for f in styled]
    n = 0
    for f, key in fams:
        if f is None:
            rep.fail("R07.3", key, "anchor lost", status="undecided")
            continue
        n += 1
        fam = [f] + prog.new_helpers_of(f)   # helpers introduced by an edit read the offset on the function's behalf
        i = 0
        while i < len(fam):
            fam.extend(c for c in prog.closures_of.get(fam[i].id, []) if c not in fam)
            i += 1
        reads = False
        for g in fam:
            for b in g.body["blocks"]:
                for s in b["s"]:
                    if s["k"] != "assign":
                        continue
                    for pl in _places(s):
                        lty = g.body["locals"][pl["l"]]["ty"]
                        base = lty
                        while isinstance(base, dict) and "ref" in base:
                            base = base["ref"]
                        if isinstance(base, dict) and base.get("adt", "").startswith(PL):
                            adt = prog.adts.get(base["adt"])
                            fs = [e["f"] for e in pl["p"] if isinstance(e, dict) and "f" in e]
                            if adt and fs and fs[0] < len(adt["variants"][0]["fields"]) and adt["variants"][0]["fields"][fs[0]]["name"] == "translate":
                                reads = True
                        # general walk along the projection (fields of fields, enum variants such as
                        # `StyledIter::Thick { translate, .. }` stored in a field of the iterator)
                        cur, var = lty, None
                        for e in pl["p"]:
                            while isinstance(cur, dict) and "ref" in cur:
                                cur = cur["ref"]
                            if e == "*":
                                continue
                            if isinstance(e, dict) and "down" in e:
                                var = e.get("name")
                                continue
                            if isinstance(e, dict) and "f" in e:
                                a_ = prog.adts.get(cur.get("adt")) if isinstance(cur, dict) else None
                                if not a_:
                                    break
                                vs = [v for v in a_["variants"] if v["name"] == var] if var is not None else a_["variants"][:1]
                                var = None
                                if not vs or e["f"] >= len(vs[0]["fields"]):
                                    break
                                fld = vs[0]["fields"][e["f"]]
                                if fld["name"] == "translate" and cur.get("adt", "").startswith(PL):
                                    reads = True
                                cur = fld["ty"]
                            else:
                                break
                for uv in g.body.get("upvars", []):
                    if "translate" in uv["name"]:
                        reads = True
                    
        # styled `new`/`next` of iterators that never see a polyline are skipped when they have no polyline-typed local
        rep.check(reads, "R07.3", key, "does not read the `translate` offset: a translated polyline would be rendered/measured at its untranslated position", at=f.span, fn=f.path)
    rep.floor("R07.3", "translate consumers", n, 5)


def _places(s):
    out = [s["place"]]
    rv = s["rv"]
    if "place" in rv:
        out.append(rv["place"])
    for k in ("a", "b"):
        o = rv.get(k)
        if isinstance(o, dict):
            pl = o.get("copy") or o.get("move")
            if pl:
                out.append(pl)
    for o in rv.get("ops", []) or []:
        pl = o.get("copy") or o.get("move")
        if pl:
            out.append(pl)
    return out




def polyline_box_paths(prog, rep):
    """R07.5 a polyline is moved by its `translate` field only, so its (non-empty) bounding box shifts with the object iff
    every vertex that goes into the box has `self.translate` added — on *every* path of Polyline::bounding_box, not just on
    one (R07.3).  Path summaries: a path returns the documented empty box (Rectangle::zero() / a zero-sized rectangle), or
    every use of the vertex slice in its result is `vertex + self.translate` (directly, or through a `map` whose closure
    adds the captured polyline's translate)."""
    from mirq.paths import Paths, Unsupported, show_fact
    PLT = "embedded_graphics::primitives::polyline::Polyline"
    f = prog.by_path.get("<" + PLT + "<'_> as embedded_graphics_core::geometry::Dimensions>::bounding_box", [None])[0]
    if f is None:
        rep.fail("R07.5", "Polyline::bounding_box", "anchor lost", status="undecided")
        return
    fi = {fd["name"]: i for i, fd in enumerate(prog.adts[PLT]["variants"][0]["fields"])}
    me = ("param", 1, "self")
    verts, tr = ("field", me, fi["vertices"]), ("field", me, fi["translate"])
    P_ = Paths(prog, inline=lambda g: prog.is_new(g))
    try:
        summs = P_.of(f)
    except Unsupported as e:
        rep.fail("R07.5", "Polyline::bounding_box", "cannot summarise: %s" % e, status="undecided", at=f.span, fn=f.path)
        return

    def from_verts(t):
        return any(isinstance(n, tuple) and n and strip_refs(n) == verts for n in walk(t))

    def is_tr(t):
        t = strip_refs(t)
        if t == tr:
            return True
        return t[0] == "field" and t[2] == fi["translate"] and strip_refs(t[1])[0] == "upvar"     # ^self.translate in a closure

    def closure_adds(c):
        c = strip_refs(c)
        if not (c[0] == "agg" and isinstance(c[1], str) and c[1].startswith("closure:")):
            return False
        item = ("param", 99, "vertex")
        try:
            cs = P_._apply_callable(c, [item], 0)      # the closure's cases with its captures substituted
        except Exception:
            cs = None
        if not cs:
            return False
        for facts_, effects_, r in cs:
            r = strip_refs(r)
            if effects_ or not (r[0] == "call" and r[1].split("::")[-1] == "add" and len(r[3]) == 2 and any(is_tr(x) for x in r[3]) and any(strip_refs(x) == item for x in r[3])):
                return False
        return True
    bad = []

    def visit(t):
        """report vertex uses that are not translated"""
        t0 = strip_refs(t)
        if not isinstance(t0, tuple) or not t0 or not from_verts(t0):
            return
        if t0[0] == "call" and t0[1].split("::")[-1] == "add" and len(t0[3]) == 2 and any(is_tr(x) for x in t0[3]):
            return       # vertex + translate
        if t0[0] == "call" and t0[1].split("::")[-1] == "map" and len(t0[3]) == 2 and closure_adds(t0[3][1]):
            return       # vertices.iter().map(|v| *v + self.translate)
        if t0[0] == "call" and t0[1].split("::")[-1] == "translate" and len(t0[3]) == 2 and is_tr(t0[3][1]):
            return       # box.translate(self.translate)
        if t0 == verts or (t0[0] in ("payload", "index", "proj") and from_verts(t0) and not any(isinstance(x, tuple) and x and isinstance(x[0], str) and x[0] == "call" and x[1].split("::")[-1] in ("map", "add") for x in walk(t0))):
            bad.append(show(t0, maxd=4))
            return
        for x in t0[1:]:
            if isinstance(x, tuple) and x and isinstance(x[0], str):
                visit(x)
            elif isinstance(x, tuple):
                for y in x:
                    if isinstance(y, tuple) and y and isinstance(y[0], str):
                        visit(y)
    n = 0
    for sm in summs:
        r = strip_refs(sm.ret)
        if r[0] == "call" and r[1].endswith("Rectangle::zero"):
            continue
        if r[0] == "call" and r[1].endswith("Rectangle::new") and len(r[3]) == 2 and strip_refs(r[3][1])[0] == "call" and strip_refs(r[3][1])[1].endswith("Size::zero"):
            continue     # the documented empty box of a single vertex
        n += 1
        before = len(bad)
        visit(r)
        if len(bad) > before:
            bad[before:] = ["when %s the box is built from %s without adding self.translate" % ("; ".join(show_fact(x)[:60] for x in sm.facts[:2]) or "always", "; ".join(bad[before:][:2]))]
    rep.check(not bad and n >= 1, "R07.5", "Polyline::bounding_box", "every vertex that goes into a non-empty polyline bounding box must be moved by self.translate: %s" % ("; ".join(bad[:2]) or "no non-empty path found"),
              at=f.span, fn=f.path, detail={"paths": len(summs), "non_empty": n})
