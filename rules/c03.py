"""C03 — clipped/cropped/translated/converted targets and trait defaults are exact (structural part)."""
from mirq import ty_str
from mirq.origin import Origins, show, walk, decisions, lit_truth, dominating_guards
from mirq.pat import match, find, strip_refs
from mirq.canon import Canon
from rules.c14 import field_index

DT = "embedded_graphics_core::draw_target::DrawTarget"
NS = "embedded_graphics::draw_target::"
P = lambda i, n: ("param", i, n)


def sites(f, name, org=None):
    """[(block, [arg trees stripped of refs])] of calls to a callee named `name` in f."""
    org = org or Origins(f)
    out = []
    for bi in sorted(org.cfg.live_blocks()):
        t = f.body["blocks"][bi]["t"]
        if t and t["k"] == "call" and t["f"].get("name") == name:
            out.append((bi, [strip_refs(a) for a in org.term_args(bi)], t))
    return out


def closure_ret(prog, tree):
    """Return origin of the closure aggregate found in `tree` (first one) + its captures."""
    for n in walk(tree):
        if n[0] == "agg" and str(n[1]).startswith("closure:"):
            c = prog.fns[n[1][len("closure:"):]]
            return c, strip_refs(Origins(c).return_origin()), [strip_refs(x) for x in n[2]]
    return None, None, None


def method(prog, adt, name, trait=DT):
    return prog.method1(NS + adt, name, trait)


def run(ctx, rep):
    prog = ctx.program("default")
    rep.configs.append(getattr(ctx, "alias", "default"))
    cn = Canon(prog)
    clipped(prog, rep, cn)
    cropped(prog, rep, cn)
    translated(prog, rep, cn)
    converted(prog, rep, cn)
    try:
        forwards_on_every_path(prog, rep)
    except Exception as e:
        import traceback; traceback.print_exc()
        rep.fail("R03.8", "engine", "forwarding analysis crashed: %r" % (e,), status="undecided")
    defaults(prog, rep, cn)
    try:
        cropped_initial_skip(prog, rep)
    except Exception as e:
        import traceback; traceback.print_exc()
        rep.fail("R03.9", "engine", "initial skip analysis crashed: %r" % (e,), status="undecided")
    try:
        cropped_stream_position(prog, rep)
    except Exception as e:
        import traceback; traceback.print_exc()
        rep.fail("R03.10", "engine", "stream position analysis crashed: %r" % (e,), status="undecided")
    zip_rule_everywhere(prog, rep)
    ext_constructors(prog, rep)
    from rules import axis
    axis.run_for(prog, rep, 'R03.7', ['src/iterator', 'src/draw_target', 'core/src/draw_target'], 'colour streams are counted in rows of the area width (index = row * width + column)')


def selff(prog, adt, name):
    return ("field", P(1, "self"), field_index(prog, NS + adt, name))


ARG = ("arg", 1)
INTO_ITER = lambda x: {x, ("call", "*IntoIterator::into_iter", "_", (x,))}


def isect_of(t, a_ok, b_ok):
    """t is intersection(x, y) with one operand accepted by a_ok and the other by b_ok (either order)"""
    m = match(t, ("call", "*Rectangle::intersection", "_", ("?x", "?y")))
    return m is not None and ((a_ok(m["?x"]) and b_ok(m["?y"])) or (a_ok(m["?y"]) and b_ok(m["?x"])))


def shows(site):
    return [show(x, maxd=5) for x in site.args[1:]] if site else "?"


def clipped(prog, rep, cn):
    A = "clipped::Clipped"
    clip = selff(prog, A, "clip_area")
    parent = selff(prog, A, "parent")
    # bounding_box() == clip_area
    bb = prog.method1(NS + A, "bounding_box", "embedded_graphics_core::geometry::Dimensions")
    ro = cn.ret(bb)
    rep.check(ro == clip, "R03.1", "Clipped::bounding_box", "Clipped::bounding_box must return the stored clip area; found %s" % show(ro), at=bb.span, fn=bb.path)
    sane = lambda t: t == clip or match(t, ("call", "*::bounding_box", "_", (P(1, "self"),))) is not None
    is_area = lambda t: t == P(2, "area")

    # draw_iter: parent.draw_iter(filter(into_iter(pixels), |Pixel(p,_)| clip_area.contains(*p)))
    f = method(prog, A, "draw_iter")
    ss = cn.sites(f, "draw_iter")
    ok = len(ss) == 1 and ss[0].args[0] == parent
    why = "exactly one forward to parent.draw_iter expected"
    if ok:
        arg = ss[0].args[1]
        m = match(arg, ("call", "*Iterator::filter", "_", (INTO_ITER(P(2, "pixels")), ("lam", "?body"))))
        ok = m is not None
        why = "the pixel stream must be filter(pixels.into_iter(), ..); found %s" % show(arg, maxd=5)
        if ok:
            mm = match(m["?body"], ("call", "*::contains", "_", ("?area", ("field", ARG, 0))))
            ok = mm is not None
            why = "the filter must keep exactly the pixels whose own point satisfies clip_area.contains(p); the predicate is %s" % show(m["?body"])
            if ok:
                ok = sane(mm["?area"])
                why = "the filter must test against self.clip_area; tests against %s" % show(mm["?area"])
    rep.check(ok, "R03.1", "Clipped::draw_iter", why, at=f.span, fn=f.path)

    # fill_solid: parent.fill_solid(intersection(area, clip), color)
    f = method(prog, A, "fill_solid")
    ss = cn.sites(f, "fill_solid")
    ok = len(ss) == 1 and ss[0].args[0] == parent
    why = "exactly one forward to parent.fill_solid expected"
    if ok:
        a = ss[0].args
        ok = isect_of(a[1], is_area, sane) and a[2] == P(3, "color")
        why = "fill_solid must forward area.intersection(clip_area) and the colour unchanged; forwards %s / %s" % (show(a[1]), show(a[2]))
    rep.check(ok, "R03.1", "Clipped::fill_solid", why, at=f.span, fn=f.path)

    # fill_contiguous: two sinks
    f = method(prog, A, "fill_contiguous")
    ss = cn.sites(f, "fill_contiguous")
    probs = []
    if len(ss) != 2:
        probs.append("expected the pass-through and the re-cut forward, found %d calls" % len(ss))
    kinds = set()
    RECT = "embedded_graphics_core::primitives::rectangle::Rectangle"
    for s in ss:
        a = s.args
        if a[0] != parent:
            probs.append("forward not on self.parent")
        if a[1] == P(2, "area") and a[2] == P(3, "colors"):
            # must be guarded by intersection == area
            g_ok = any(x[0] == "eq" and ((is_area(x[1]) and isect_of(x[2], is_area, sane)) or (is_area(x[2]) and isect_of(x[1], is_area, sane))) for x in s.facts)
            if not g_ok:
                probs.append("the unmodified area may only be forwarded when it equals its intersection with the clip area")
            kinds.add("pass")
        else:
            if not isect_of(a[1], is_area, sane):
                probs.append("re-cut forward must use bounding_box().intersection(area); uses %s" % show(a[1]))
            mc = match(a[2], ("call", "*contiguous::Cropped::<I>::new", "_", ("?it", "?size", "?crop")))
            if mc is None:
                probs.append("re-cut colours must come from iterator::contiguous::Cropped::new; found %s" % show(a[2], maxd=4))
            else:
                if match(mc["?it"], INTO_ITER(P(3, "colors"))) is None:
                    probs.append("Cropped must consume the caller's colours")
                if mc["?size"] != ("field", P(2, "area"), field_index(prog, RECT, "size")):
                    probs.append("Cropped must be told area.size; got %s" % show(mc["?size"]))
                mt = match(mc["?crop"], ("call", "*::translate", "_", ("?r", ("call", "*Neg>::neg", "_", (("field", P(2, "area"), field_index(prog, RECT, "top_left")),)))))
                if mt is None or mt["?r"] != a[1]:
                    probs.append("crop area must be intersection.translate(-area.top_left); found %s" % show(mc["?crop"], maxd=6))
            kinds.add("recut")
    if kinds != {"pass", "recut"}:
        probs.append("forward kinds %s" % sorted(kinds))
    rep.check(not probs, "R03.1", "Clipped::fill_contiguous", "; ".join(probs[:3]), at=f.span, fn=f.path)
    rep.sample({"rule": "R03.1", "Clipped::fill_contiguous": [show(s.args[1], maxd=5) for s in ss]})

    # R03.2 construction
    n = prog.method1(NS + A, "new", None)
    ro = cn.ret(n)
    m = match(ro, ("agg", "*Clipped::Clipped", (P(1, "parent"), "?clip")))
    bbp = lambda t: match(t, ("call", "*::bounding_box", "_", (P(1, "parent"),))) is not None
    ok = m is not None and isect_of(m["?clip"], lambda t: t == P(2, "clip_area"), bbp)
    rep.check(ok, "R03.2", "Clipped::new", "the clip area must be intersected with the parent's bounding box at construction; found %s" % show(ro), at=n.span, fn=n.path)
    writers(prog, rep, NS + A, "Clipped")


def writers(prog, rep, adt, short):
    """Only `new` (and helpers introduced for it) constructs / writes the adapter."""
    ws = set()
    for f in prog.fns.values():
        if not f.body or (prog.is_new(f) and f.d.get("vis") != "pub"):
            continue
        for b in f.body["blocks"]:
            for s in b["s"]:
                if s["k"] == "assign" and s["rv"]["k"] == "agg" and s["rv"].get("adt") == adt:
                    ws.add(f.path)
    rep.check(len(ws) <= 1 and all(w.endswith("::new") for w in ws), "R03.2", short + ":single-constructor", "%s must be built only by its `new`; built in %s" % (short, sorted(ws)), detail=sorted(ws))


def cropped(prog, rep, cn):
    A = "cropped::Cropped"
    RECT = "embedded_graphics_core::primitives::rectangle::Rectangle"
    n = prog.method1(NS + A, "new", None)
    ro = cn.ret(n)
    m = match(ro, ("agg", "*Cropped::Cropped", ("?parent", "?size")))
    ok = m is not None
    why = "Cropped::new must build Cropped { parent, size }"
    if ok:
        bbp = lambda t: match(t, ("call", "*::bounding_box", "_", (P(1, "parent"),))) is not None
        ms = match(m["?size"], ("field", "?r", field_index(prog, RECT, "size")))
        mp = match(m["?parent"], ("call", "*::translated", "_", (P(1, "parent"), ("field", "?r2", field_index(prog, RECT, "top_left")))))
        if mp is None:      # `Translated::new(parent, offset)` is what `parent.translated(offset)` builds (ext:translated, R03.2)
            mp = match(m["?parent"], ("call", "*Translated::<'a, T>::new", "_", (P(1, "parent"), ("field", "?r2", field_index(prog, RECT, "top_left")))))
        if mp is None and m["?parent"][0] == "call" and m["?parent"][1].split("::")[-1] == "new" and "Translated" in m["?parent"][1] and len(m["?parent"][3]) == 2 \
                and strip_refs(m["?parent"][3][0]) == P(1, "parent") and m["?parent"][3][1][0] == "field" and m["?parent"][3][1][2] == field_index(prog, RECT, "top_left"):
            mp = {"?r2": m["?parent"][3][1][1]}
        ok = ms is not None and mp is not None and ms["?r"] == mp["?r2"] and isect_of(ms["?r"], lambda t: t == P(2, "area"), bbp)
        why = "offset and size must both come from area.intersection(parent.bounding_box()); found parent=%s size=%s" % (show(m["?parent"], maxd=5), show(m["?size"], maxd=5))
    rep.check(ok, "R03.2", "Cropped::new", why, at=n.span, fn=n.path)
    writers(prog, rep, NS + A, "Cropped")
    parent = selff(prog, A, "parent")
    for nm, pn in (("draw_iter", ["pixels"]), ("fill_contiguous", ["area", "colors"]), ("fill_solid", ["area", "color"])):
        f = method(prog, A, nm)
        ss = cn.sites(f, nm)
        ok = len(ss) == 1 and ss[0].args[0] == parent and ss[0].args[1:] == [P(i + 2, x) for i, x in enumerate(pn)]
        rep.check(ok, "R03.5", "Cropped::" + nm, "Cropped::%s must forward its arguments unmodified to the translated parent; forwards %s" % (nm, shows(ss[0] if ss else None)), at=f.span, fn=f.path)
    sz = prog.method1(NS + A, "size", "embedded_graphics_core::geometry::OriginDimensions")
    ro = cn.ret(sz)
    rep.check(ro == selff(prog, A, "size"), "R03.5", "Cropped::size", "Cropped::size must return the stored size; found %s" % show(ro), at=sz.span, fn=sz.path)


def translated(prog, rep, cn):
    A = "translated::Translated"
    parent = selff(prog, A, "parent")
    off = selff(prog, A, "offset")
    f = method(prog, A, "draw_iter")
    ss = cn.sites(f, "draw_iter")
    ok = len(ss) == 1 and ss[0].args[0] == parent and match(ss[0].args[1], ("call", "*::translated", "_", (INTO_ITER(P(2, "pixels")), off))) is not None
    rep.check(ok, "R03.3", "Translated::draw_iter", "pixels must be shifted by +self.offset; forwards %s" % shows(ss[0] if ss else None), at=f.span, fn=f.path)
    for nm, rest in (("fill_contiguous", [P(3, "colors")]), ("fill_solid", [P(3, "color")])):
        f = method(prog, A, nm)
        ss = cn.sites(f, nm)
        ok = len(ss) == 1 and ss[0].args[0] == parent and match(ss[0].args[1], ("call", "*::translate", "_", (P(2, "area"), off))) is not None and ss[0].args[2:] == rest
        rep.check(ok, "R03.3", "Translated::" + nm, "the area must be shifted by +self.offset and the colour(s) forwarded unchanged; forwards %s" % shows(ss[0] if ss else None), at=f.span, fn=f.path)
    f = method(prog, A, "clear")
    ss = cn.sites(f, "clear")
    rep.check(len(ss) == 1 and ss[0].args == [parent, P(2, "color")], "R03.3", "Translated::clear", "clear must be forwarded unchanged", at=f.span, fn=f.path)
    bb = prog.method1(NS + A, "bounding_box", "embedded_graphics_core::geometry::Dimensions")
    ro = cn.ret(bb)
    ok = match(ro, ("call", "*::translate", "_", (("call", "*::bounding_box", "_", (parent,)), ("call", "*Neg>::neg", "_", (off,))))) is not None
    rep.check(ok, "R03.3", "Translated::bounding_box", "the reported box must be the parent's box shifted by -self.offset (inverse of the drawing shift); found %s" % show(ro), at=bb.span, fn=bb.path)
    # the pixel iterator adds the offset
    IT = "embedded_graphics::iterator::pixel::Translated"
    nx = prog.method1(IT, "next", "core::iter::traits::iterator::Iterator")
    it_off = ("field", P(1, "self"), field_index(prog, IT, "offset"))
    it_iter = ("field", P(1, "self"), field_index(prog, IT, "iter"))
    # path summaries: None when the inner iterator is exhausted, otherwise its pixel moved by the offset
    from mirq.paths import Paths, Unsupported
    ok = True
    shown = []
    try:
        summs = Paths(prog).of(nx)
        n_some = 0
        for sm in summs:
            shown.append(show(sm.ret, maxd=6))
            inner = [fct for fct in sm.facts if fct[0] == "variant" and match(fct[1], ("call", "*Iterator::next", "_", (it_iter,))) is not None]
            if len(inner) != 1 or len(sm.facts) != 1 or sm.writes() or len(sm.calls()) != 1:
                ok = False
                continue
            x, names = inner[0][1], inner[0][2]
            if names == ("None",):
                ok = ok and sm.ret == ("agg", "core::option::Option::None", ())
            elif names == ("Some",):
                n_some += 1
                px = ("payload", x)
                ok = ok and match(sm.ret, ("agg", "*Option::Some", (("agg", "*Pixel::Pixel", (("call", "*Add>::add", "_", (("field", px, 0), it_off)), ("field", px, 1))),))) is not None
            else:
                ok = False
        ok = ok and n_some >= 1
    except Unsupported as e:
        ok = False
        shown.append(str(e))
    rep.check(ok, "R03.3", "iterator::Translated::next", "each pixel of the inner iterator must become Pixel(p + self.offset, c); next() returns %s" % shown[:3], at=nx.span, fn=nx.path)
    # PixelIteratorExt::translated builds the iterator with the given offset
    pe = [f for f in prog.fns.values() if f.name == "translated" and f.impl and str(prog.impls[f.impl].get("trait", "")).endswith("PixelIteratorExt")]
    if len(pe) == 1:
        ro = cn.ret(pe[0])
        m = match(ro, ("call", "*pixel::Translated::<I>::new", "_", (P(1, "self"), P(2, "offset"))))
        rep.check(m is not None, "R03.3", "PixelIteratorExt::translated", "must build iterator::pixel::Translated::new(self, offset); found %s" % show(ro), at=pe[0].span, fn=pe[0].path)
        nn = prog.method1(IT, "new", None)
        ro = cn.ret(nn)
        rep.check(ro == ("agg", IT + "::Translated", (P(1, "iter"), P(2, "offset"))), "R03.3", "iterator::Translated::new", "must store iter and offset unchanged; found %s" % show(ro), at=nn.span, fn=nn.path)
    else:
        rep.fail("R03.3", "PixelIteratorExt::translated", "anchor lost (%d)" % len(pe), status="undecided")
    n = prog.method1(NS + A, "new", None)
    ro = cn.ret(n)
    rep.check(ro == ("agg", NS + A + "::Translated", (P(1, "parent"), P(2, "offset"))), "R03.3", "Translated::new", "Translated::new must store parent and offset unchanged; found %s" % show(ro), at=n.span, fn=n.path)


def converted(prog, rep, cn):
    A = "color_converted::ColorConverted"
    parent = selff(prog, A, "parent")
    into = lambda x: ("call", "*Into::into", "_", (x,))
    for nm, chk in (("fill_solid", lambda a: a[1] == P(2, "area") and match(a[2], into(P(3, "color"))) is not None),
                    ("clear", lambda a: match(a[1], into(P(2, "color"))) is not None)):
        f = method(prog, A, nm)
        ss = cn.sites(f, nm)
        ok = len(ss) == 1 and ss[0].args[0] == parent and chk(ss[0].args)
        rep.check(ok, "R03.4", "ColorConverted::" + nm, "the colour must pass through Into::into and geometry unchanged; forwards %s" % shows(ss[0] if ss else None), at=f.span, fn=f.path)
    f = method(prog, A, "fill_contiguous")
    ss = cn.sites(f, "fill_contiguous")
    ok = len(ss) == 1 and ss[0].args[0] == parent and ss[0].args[1] == P(2, "area") and \
        match(ss[0].args[2], ("call", "*Iterator::map", "_", (INTO_ITER(P(3, "colors")), ("lam", into(ARG))))) is not None
    rep.check(ok, "R03.4", "ColorConverted::fill_contiguous", "every colour must be mapped through Into::into, area unchanged; forwards %s" % shows(ss[0] if ss else None), at=f.span, fn=f.path)
    f = method(prog, A, "draw_iter")
    ss = cn.sites(f, "draw_iter")
    ok = len(ss) == 1 and ss[0].args[0] == parent and \
        match(ss[0].args[1], ("call", "*Iterator::map", "_", (INTO_ITER(P(2, "pixels")), ("lam", ("agg", "*Pixel::Pixel", (("field", ARG, 0), into(("field", ARG, 1)))))))) is not None
    rep.check(ok, "R03.4", "ColorConverted::draw_iter", "each pixel must become Pixel(p, c.into()); forwards %s" % shows(ss[0] if ss else None), at=f.span, fn=f.path)
    bb = prog.method1(NS + A, "bounding_box", "embedded_graphics_core::geometry::Dimensions")
    ro = cn.ret(bb)
    rep.check(match(ro, ("call", "*::bounding_box", "_", (parent,))) is not None, "R03.4", "ColorConverted::bounding_box", "must report the parent's box; found %s" % show(ro), at=bb.span, fn=bb.path)


def default_fn(prog, name):
    c = [f for f in prog.fns.values() if f.d.get("trait_def") == DT and f.name == name]
    if len(c) != 1:
        from mirq import AnchorError
        raise AnchorError("DrawTarget::%s default body: %d" % (name, len(c)))
    return c[0]


def defaults(prog, rep, cn=None):
    cn = cn or Canon(prog)
    f = default_fn(prog, "fill_contiguous")
    ss = cn.sites(f, "draw_iter")
    ok = len(ss) == 1 and ss[0].args[0] == P(1, "self")
    why = "default fill_contiguous must make one draw_iter call on self"
    if ok:
        m = match(ss[0].args[1], ("call", "*Iterator::map", "_", (("call", "*Iterator::zip", "_", (("call", "*::points", "_", (P(2, "area"),)), P(3, "colors"))), "?f")))
        ok = m is not None
        why = "the stream must be area.points().zip(colors).map(..): the row-major points of exactly `area` paired with the colours; found %s" % show(ss[0].args[1], maxd=6)
        if ok:
            ok = match(m["?f"], ("lam", ("agg", "*Pixel::Pixel", (("field", ARG, 0), ("field", ARG, 1))))) is not None
            why = "each pair must become Pixel(point, colour) in that order; the mapping is %s" % show(m["?f"])
    rep.check(ok, "R03.6", "default:fill_contiguous", why, at=f.span, fn=f.path)
    f = default_fn(prog, "fill_solid")
    ss = cn.sites(f, "fill_contiguous")
    ok = len(ss) == 1 and ss[0].args[0] == P(1, "self") and ss[0].args[1] == P(2, "area") and match(ss[0].args[2], ("call", "*iter::sources::repeat::repeat", "_", (P(3, "color"),))) is not None
    rep.check(ok, "R03.6", "default:fill_solid", "default fill_solid must be fill_contiguous(area, repeat(color)); found %s" % shows(ss[0] if ss else None), at=f.span, fn=f.path)
    f = default_fn(prog, "clear")
    ss = cn.sites(f, "fill_solid")
    ok = len(ss) == 1 and ss[0].args[0] == P(1, "self") and match(ss[0].args[1], ("call", "*::bounding_box", "_", (P(1, "self"),))) is not None and ss[0].args[2] == P(2, "color")
    rep.check(ok, "R03.6", "default:clear", "default clear must be fill_solid(&self.bounding_box(), color); found %s" % shows(ss[0] if ss else None), at=f.span, fn=f.path)
    s0 = cn.sites(default_fn(prog, "fill_contiguous"), "draw_iter")
    rep.sample({"rule": "R03.6", "default fill_contiguous": show(s0[0].args[1], maxd=6) if s0 else "?"})


def zip_rule_everywhere(prog, rep, only_adt=None, rule="R03.6", floor=3):
    """Generic necessary condition for every `fill_contiguous` implementation in the library (adapters, font
    target, MockDisplay/Framebuffer overrides if any): wherever the caller's colour stream is zipped with /
    turned into points, the rectangle enumerated is the caller's `area` itself — clipping the area without
    re-cutting the stream shifts colours onto wrong coordinates."""
    n = 0
    for f in sorted(prog.fns.values(), key=lambda f: f.id):
        if f.name != "fill_contiguous" or not f.body or f.kind != "assoc_fn":
            continue
        impl = prog.impls.get(f.impl) if f.impl else None
        if not ((impl and impl.get("trait") == DT) or f.d.get("trait_def") == DT):
            continue
        if only_adt is not None and not (impl and impl["self_ty"].get("adt") == only_adt):
            continue
        org = Origins(f)
        for bi in sorted(org.cfg.live_blocks()):
            t = f.body["blocks"][bi]["t"]
            if not t or t["k"] != "call":
                continue
            nm = t["f"].get("name")
            if nm not in ("zip", "into_pixels"):
                continue
            args = [strip_refs(a) for a in org.term_args(bi)]
            colors_in = any(P(3, "colors") in list(walk(a)) for a in args)
            if not colors_in:
                continue
            n += 1
            if nm == "zip":
                pts = [a for a in args if match(a, ("call", "*::points", "_", ("?r",))) is not None]
                good = bool(pts) and match(pts[0], ("call", "*::points", "_", (P(2, "area"),))) is not None
                rect = show(pts[0]) if pts else "?"
            else:
                good = args[1] == P(2, "area")
                rect = show(args[1])
            raw_stream = any(a == P(3, "colors") or match(a, ("call", "*::into_iter", "_", (P(3, "colors"),))) is not None for a in args)
            rep.check(good, rule, "stream-pairing:" + f.key(), status="refuted" if raw_stream else "undecided", why="the caller's colour stream is paired with the points of %s instead of the caller's `area`: colours land on wrong coordinates when the two differ (undecided = the stream is re-cut by code this rule does not model)" % rect,
                      at=t.get("sp", ""), fn=f.path)
    # delegated pairing: the zip lives in a helper that is new to the tree and gets `area` and the colour stream from a
    # fill_contiguous — inside it the stream parameter must be zipped with the points of the area parameter
    for f in sorted(prog.fns.values(), key=lambda f: f.id):
        if f.name != "fill_contiguous" or not f.body or f.kind != "assoc_fn":
            continue
        impl = prog.impls.get(f.impl) if f.impl else None
        if not ((impl and impl.get("trait") == DT) or f.d.get("trait_def") == DT):
            continue
        if only_adt is not None and not (impl and impl["self_ty"].get("adt") == only_adt):
            continue
        org = Origins(f)
        for bi in sorted(org.cfg.live_blocks()):
            t = f.body["blocks"][bi]["t"]
            if not t or t["k"] != "call":
                continue
            gs = [g for g in prog.by_path.get((t["f"].get("resolved") or t["f"]).get("path", ""), []) if g.body and g.kind in ("fn", "assoc_fn") and prog.is_new(g)]
            if len(gs) != 1:
                continue
            g = gs[0]
            args = [strip_refs(a) for a in org.term_args(bi)]
            ci = [i for i, a in enumerate(args) if a == P(3, "colors") or match(a, ("call", "*::into_iter", "_", (P(3, "colors"),))) is not None]
            ai = [i for i, a in enumerate(args) if a == P(2, "area")]
            if len(ci) != 1:
                continue
            gorg = Origins(g)
            for gb in sorted(gorg.cfg.live_blocks()):
                gt = g.body["blocks"][gb]["t"]
                if not gt or gt["k"] != "call" or gt["f"].get("name") not in ("zip", "into_pixels"):
                    continue
                gargs = [strip_refs(a) for a in gorg.term_args(gb)]
                pc = ("param", ci[0] + 1)
                if not any(n_[:2] == pc for a in gargs for n_ in walk(a) if isinstance(n_, tuple) and n_ and n_[0] == "param"):
                    continue
                n += 1
                if gt["f"].get("name") == "zip":
                    pts = [a for a in gargs if match(a, ("call", "*::points", "_", ("?r",))) is not None]
                    rect = strip_refs(pts[0][3][0]) if pts else None
                else:
                    rect = gargs[1] if len(gargs) > 1 else None
                good = len(ai) == 1 and rect is not None and rect[0] == "param" and rect[1] == ai[0] + 1
                rep.check(good, rule, "stream-pairing:" + f.key(), "the caller's colour stream is paired (in helper %s) with the points of %s instead of the caller's `area`" % (g.name, show(rect) if rect else "?"),
                          at=gt.get("sp", ""), fn=g.path, status="undecided")
    # forwarding sites: a fill_contiguous that hands the caller's colour stream on to another fill_contiguous element by
    # element (into_iter / map only: no skip, take, filter or re-cutting iterator in between) must hand on an area of
    # the caller's size at the caller's row length — `area` itself or `area.translate(..)`.  A clipped / intersected area
    # with the uncut stream shears the image whenever the two differ (the glyph target that "only asks the parent for
    # visible pixels").  Re-cut streams (Clipped) have their own rules (R03.1, R03.9, streams).
    n_fw = 0
    for f in sorted(prog.fns.values(), key=lambda f: f.id):
        if f.name != "fill_contiguous" or not f.body or f.kind != "assoc_fn":
            continue
        impl = prog.impls.get(f.impl) if f.impl else None
        if not ((impl and impl.get("trait") == DT) or f.d.get("trait_def") == DT):
            continue
        if only_adt is not None and not (impl and impl["self_ty"].get("adt") == only_adt):
            continue
        org = Origins(f)
        for bi in sorted(org.cfg.live_blocks()):
            t = f.body["blocks"][bi]["t"]
            if not t or t["k"] != "call" or t["f"].get("name") != "fill_contiguous":
                continue
            args = [strip_refs(a) for a in org.term_args(bi)]
            if len(args) != 3:
                continue
            c = args[2]
            while c[0] == "call" and c[1].split("::")[-1] in ("map", "into_iter", "by_ref", "copied", "cloned") and c[3]:
                c = strip_refs(c[3][0])
            if c != P(3, "colors"):
                continue            # not the caller's stream, or re-cut on the way
            n_fw += 1
            a = args[1]
            good = a == P(2, "area") or (a[0] == "call" and a[1].split("::")[-1] == "translate" and len(a[3]) == 2 and strip_refs(a[3][0]) == P(2, "area")) \
                or match(a, ("call", "*Rectangle::new", "_", ("_", ("field", P(2, "area"), 1)))) is not None
            rep.check(good, rule, "stream-forwarding:" + f.key(), "the caller's colour stream is forwarded uncut together with the area %s instead of the caller's `area` (or a translation of it): the colours are laid out in rows of the caller's width" % show(a, maxd=4),
                      at=t.get("sp", ""), fn=f.path)
    rep.analysed[rule + ":stream-forwarding sites"] = n_fw
    if floor and only_adt is None:
        rep.floor(rule, "stream-forwarding sites", n_fw, 3)
    if floor:
        rep.floor(rule, "stream-pairing sites", n, floor)
    else:
        rep.analysed[rule + ":stream-pairing sites"] = n


def cropped_stream_position(prog, rep):
    CR = "embedded_graphics::iterator::contiguous::Cropped"
    stream_position(prog, rep, "R03.10", "contiguous::Cropped::next:position", CR,
                    {"x": "x", "y": "y", ("size", 0): "w", ("size", 1): "h", "row_skip": "k"},
                    lambda st: st["y"] * (st["w"] + st["k"]) + st["x"], ("x", "w", "ge"))


def stream_position(prog, rep, rule, key, CR, names, S, end, check_ret=True):
    """R03.10 / R09.6 the re-cut colour stream emits the right source item: with S = y * (size.width + row_skip) + x the number of
    source items consumed since `new`, every pulling path of `iterator::contiguous::Cropped::next` consumes exactly
    S(after) - S(before) items (`next()` = 1, `nth(n)` = n + 1), pulls once, and returns that pull; a row change happens
    only at x = width (the path has refuted x < width; x <= width is the invariant the same paths preserve).  So the item
    handed out for crop position (c, r) is source item r * parent_width + c behind the initial skip (R03.9)."""
    from mirq.paths import Paths, Unsupported
    from mirq.poly import Poly, tree_to_poly, NotPolynomial
    from rules.c10 import fold
    RULE, KEY = rule, key
    try:
        nx = prog.method1(CR, "next", "core::iter::traits::iterator::Iterator")
        fidx = {f["name"]: i for i, f in enumerate(prog.adts[CR]["variants"][0]["fields"])}
        me = P(1, "self")
        sf = lambda n: ("field", me, fidx[n])
        syms = {(("field", sf(n[0]), n[1]) if isinstance(n, tuple) else sf(n)): v for n, v in names.items()}
    except Exception as e:
        rep.fail(RULE, KEY, "anchor lost: %s" % e, status="undecided")
        return
    try:
        summs = Paths(prog, inline=lambda g: prog.is_new(g)).of(nx)
    except Unsupported as e:
        rep.fail(RULE, KEY, "cannot summarise: %s" % e, status="undecided", at=nx.span, fn=nx.path)
        return
    leaf = lambda t: syms.get(strip_refs(t)) if isinstance(t, tuple) else None
    def poly(t):
        return tree_to_poly(fold(strip_refs(t)), leaf)
    bad, und, n_pull = [], [], 0
    for sm in summs:
        pulls = [e[1] for e in sm.calls() if e[1][1].split("::")[-1] in ("next", "nth") and e[1][3] and strip_refs(e[1][3][0]) == sf("iter")]
        others = [e for e in sm.calls() if e[1] not in pulls]
        if others:
            und.append("unexpected effect %s" % show(others[0][1], maxd=2))
            continue
        if not pulls:
            continue
        n_pull += 1
        before = {v: Poly.sym(v) for v in syms.values()}
        after = dict(before)
        try:
            for w in sm.writes():
                lv = strip_refs(w[1])
                if lv in syms:
                    after[syms[lv]] = poly(w[2])
                elif not (lv[0] == "field" and strip_refs(lv[1]) == me):
                    raise NotPolynomial("write to %s" % show(lv, maxd=3))
            consumed = Poly()
            for c in pulls:
                consumed = consumed + (Poly.const(1) if c[1].split("::")[-1] == "next" else poly(c[3][1]) + Poly.const(1))
        except NotPolynomial as e:
            und.append("stream position not polynomial on a pulling path: %s" % e)
            continue
        delta = S(after) - S(before) - consumed
        # a row change: the path has refuted x < w (with the invariant x <= w: x = w)
        fs = [tuple(fold(strip_refs(x)) if isinstance(x, tuple) and x and isinstance(x[0], str) else x for x in fc) for fc in sm.facts]
        ev, eb, emode = end          # at a row change the counter `ev` has reached its bound `eb` (a symbol or 0)
        def is_b(t):
            return (leaf(t) == eb) if isinstance(eb, str) else (isinstance(t, tuple) and t == ("const", eb))
        at_end = any((fc[0] == "eq" and ((leaf(fc[1]) == ev and is_b(fc[2])) or (leaf(fc[2]) == ev and is_b(fc[1]))))
                     or (emode == "ge" and fc[0] == "le" and is_b(fc[1]) and leaf(fc[2]) == ev)
                     or (emode == "le" and fc[0] == "le" and leaf(fc[1]) == ev and is_b(fc[2])) for fc in fs)
        ebp = Poly.sym(eb) if isinstance(eb, str) else Poly.const(eb)
        if at_end:
            delta = delta.subs(ev, ebp)
        if len(pulls) != 1:
            bad.append("a path pulls %d times from the source" % len(pulls))
        elif not delta.is_zero():
            bad.append("a pulling path consumes %s source item(s) but moves the stream position by %s" % (consumed, S(after) - S(before) if not at_end else (S(after) - S(before)).subs(ev, ebp)))
        elif check_ret and strip_refs(sm.ret)[:4] != pulls[-1][:4]:
            bad.append("a pulling path returns %s instead of the pulled item" % show(sm.ret, maxd=3))
    if bad:
        rep.fail(RULE, KEY, "; ".join(sorted(set(bad))[:2]), at=nx.span, fn=nx.path)
    elif und or n_pull < 2:
        rep.fail(RULE, KEY, "; ".join(sorted(set(und))[:2]) or "expected two pulling paths (%d)" % n_pull, status="undecided", at=nx.span, fn=nx.path)
    else:
        rep.ok(RULE, KEY, at=nx.span, fn=nx.path, detail={"pulling_paths": n_pull})


def ext_constructors(prog, rep):
    """DrawTargetExt methods hand their arguments to the adapters' `new` unchanged."""
    for nm, adt in (("translated", "translated::Translated"), ("cropped", "cropped::Cropped"), ("clipped", "clipped::Clipped"), ("color_converted", "color_converted::ColorConverted")):
        c = [f for f in prog.fns.values() if f.name == nm and f.impl and prog.impls[f.impl].get("trait") == NS + "DrawTargetExt"]
        if len(c) != 1:
            rep.fail("R03.2", "ext:" + nm, "DrawTargetExt::%s anchor lost (%d)" % (nm, len(c)), status="undecided")
            continue
        f = c[0]
        ro = strip_refs(Origins(f).return_origin())
        n_args = f.body["argc"]
        want = ("call", "*" + adt.split("::")[-1] + "::<'a, T>::new", "_", tuple(P(i + 1, f.body["locals"][i + 1].get("name")) for i in range(n_args)))
        ok = match(ro, want) is not None or (ro[0] == "call" and ro[1].endswith("::new") and adt.split("::")[-1] in ro[1] and list(ro[3]) == [P(i + 1, f.body["locals"][i + 1].get("name")) for i in range(n_args)])
        rep.check(ok, "R03.2", "ext:" + nm, "DrawTargetExt::%s must pass its arguments to %s::new unchanged; found %s" % (nm, adt, show(ro)), at=f.span, fn=f.path)


def forwards_on_every_path(prog, rep):
    """R03.8 the adapters that only re-express a call in the parent's terms — Translated (shift), ColorConverted (colour
    map) and Cropped (a Translated over a Clipped) — forward *every* call: on every path of draw_iter / fill_contiguous /
    fill_solid / clear the parent's method of the same name is called exactly once on self.parent and its outcome is the
    outcome.  (What is forwarded is R03.3 - R03.5; Clipped, which legitimately drops calls, has its own rules R03.1.)  An
    early `return Ok(())` for areas "outside the parent" compares coordinates of two different frames."""
    from mirq.paths import Paths, Unsupported, passes_result, show_fact
    P_ = Paths(prog, inline=lambda g: prog.is_new(g), local_effects=True)
    n = 0
    for A in ("translated::Translated", "color_converted::ColorConverted", "cropped::Cropped"):
        try:
            parent = selff(prog, A, "parent")
        except Exception as e:
            rep.fail("R03.8", A, "anchor lost: %r" % (e,), status="undecided")
            continue
        for nm in ("draw_iter", "fill_contiguous", "fill_solid", "clear"):
            try:
                f = method(prog, A, nm)
            except Exception:
                continue      # not overridden: the trait default applies (R03.6)
            key = "%s::%s" % (A.split("::")[-1], nm)
            try:
                summs = P_.of(f)
            except Unsupported as e:
                rep.fail("R03.8", key, "cannot summarise: %s" % e, status="undecided", at=f.span, fn=f.path)
                continue
            n += 1
            bad = []
            for sm in summs:
                cs = [e[1] for e in sm.effects if e[0] == "call" and e[1][1].split("::")[-1] == nm and e[1][3] and strip_refs(e[1][3][0]) == parent]
                if not cs and sm.ret is not None and sm.ret[0] == "call" and sm.ret[1].split("::")[-1] == nm and sm.ret[3] and strip_refs(sm.ret[3][0]) == parent:
                    cs = [sm.ret]
                cond = "; ".join(show_fact(x)[:70] for x in sm.facts[:2]) or "always"
                if len(cs) != 1:
                    bad.append("when %s: %s" % (cond, "the call is not forwarded (returns %s)" % show(sm.ret, maxd=3) if not cs else "forwarded %d times" % len(cs)))
                elif not (passes_result(sm, cs[0]) or sm.ret[:4] == cs[0][:4]):
                    bad.append("when %s: the parent's outcome is not the outcome (returns %s)" % (cond, show(sm.ret, maxd=3)))
            rep.check(bool(summs) and not bad, "R03.8", key, "%s must forward every call to self.parent.%s and return its outcome: %s" % (key, nm, "; ".join(bad[:2])), at=f.span, fn=f.path)
    rep.floor("R03.8", "forwarding adapter methods", n, 10)


def cropped_initial_skip(prog, rep):
    """R03.9 the colour-stream cropper starts at the first colour of the crop: iterator::contiguous::Cropped::new discards
    exactly S = crop.top_left.y * size.width + crop.top_left.x colours of the source (crop = Rectangle(zero, size) ∩
    crop_area).  On path summaries: a path that pulls from the source does so once, by nth(S - 1), and has established
    0 < S; a path that does not pull has established S = 0 (nth(0) would already drop the first colour of the crop)."""
    from mirq.paths import Paths, Unsupported, holds, show_fact
    from mirq.origin import subst
    from rules.c10 import fold
    CR = "embedded_graphics::iterator::contiguous::Cropped"
    nw = prog.method1(CR, "new", None)
    nocast = lambda t: subst(t, lambda n: n[1] if n[0] == "cast" else None)
    crop = ("call", "*Rectangle::intersection", "_", (("call", "*Rectangle::new", "_", (("call", "*Point::zero", "_", ()), ("param", 2, "size"))), ("param", 3, "crop_area")))
    tl = ("field", crop, 0)
    S = ("bin", "Add", ("bin", "Mul", ("field", tl, 1), ("field", ("param", 2, "size"), 0)), ("field", tl, 0))
    try:
        summs = Paths(prog, inline=lambda g: prog.is_new(g), local_effects=True).of(nw)
    except Unsupported as e:
        rep.fail("R03.9", "contiguous::Cropped::new:initial-skip", "cannot summarise: %s" % e, status="undecided", at=nw.span, fn=nw.path)
        return
    bad, und, n_pull, n_idle = [], [], 0, 0
    for sm in summs:
        pulls = []
        for tr in [sm.ret] + [e[1] if e[0] == "call" else e[2] for e in sm.effects]:
            if not isinstance(tr, tuple):
                continue
            for n in walk(tr):
                if isinstance(n, tuple) and n and n[0] == "call" and n[1].split("::")[-1] in ("nth", "next", "skip", "advance_by", "take", "step_by", "for_each") and n[3] and \
                        any(x[0] == "param" and x[1] == 1 for x in walk(n[3][0])) and n[:4] not in [p_[:4] for p_ in pulls]:
                    pulls.append(n)
        facts = [tuple(nocast(fold(strip_refs(x))) if isinstance(x, tuple) and x and isinstance(x[0], str) else x for x in fc) for fc in sm.facts]
        conds = "; ".join(show_fact(f)[:80] for f in sm.facts[:2]) or "always"
        is_S = lambda t: match(nocast(fold(strip_refs(t))), S) is not None
        pos = any((fc[0] == "lt" and fc[1] == ("const", 0) and is_S(fc[2])) or (fc[0] == "ne" and is_S(fc[1]) and fc[2] == ("const", 0)) or (fc[0] == "le" and fc[1] == ("const", 1) and is_S(fc[2])) for fc in facts)
        zero = any((fc[0] == "le" and is_S(fc[1]) and fc[2] == ("const", 0)) or (fc[0] == "eq" and {1} and ((is_S(fc[1]) and fc[2] == ("const", 0)) or (is_S(fc[2]) and fc[1] == ("const", 0)))) or
                   (fc[0] == "lt" and is_S(fc[1]) and fc[2] == ("const", 1)) for fc in facts)
        if not pulls:
            n_idle += 1
            if not zero:
                bad.append("when %s nothing is discarded although the crop may start after the first colour" % conds)
            continue
        n_pull += 1
        if len(pulls) != 1 or pulls[0][1].split("::")[-1] != "nth" or len(pulls[0][3]) != 2:
            und.append("when %s the source is advanced by %s" % (conds, "; ".join(show(p_, maxd=3) for p_ in pulls)))
            continue
        k = nocast(fold(strip_refs(pulls[0][3][1])))
        if match(k, ("bin", "Sub", S, ("const", 1))) is None:
            bad.append("when %s the source is advanced by nth(%s), not nth(S - 1) with S = crop.y * size.width + crop.x" % (conds, show(k, maxd=5)))
        elif not pos:
            bad.append("nth(S - 1) is evaluated without having established 0 < S (when %s)" % conds)
    if bad:
        rep.fail("R03.9", "contiguous::Cropped::new:initial-skip", "; ".join(sorted(set(bad))[:2]), at=nw.span, fn=nw.path)
    elif und or n_pull < 1 or n_idle < 1:
        rep.fail("R03.9", "contiguous::Cropped::new:initial-skip", "; ".join(sorted(set(und))[:2]) or "expected a discarding and an idle path (%d / %d)" % (n_pull, n_idle), status="undecided", at=nw.span, fn=nw.path)
    else:
        rep.ok("R03.9", "contiguous::Cropped::new:initial-skip", at=nw.span, fn=nw.path, detail={"paths": len(summs)})
