"""C06 — stroke and fill of closed shapes follow fill_area()/stroke_area() (structural part).
Also hosts the renderer-agreement rules R01.1/R01.2 shared with C01."""
from mirq import ty_str
from mirq.origin import Origins, show, walk, decisions, lit_truth
from mirq.canon import Canon
from mirq.pat import match, find, strip_refs
from rules.c14 import field_index
from rules.c10 import fold
from rules.c03 import sites, closure_ret

PS = "embedded_graphics::primitives::primitive_style::PrimitiveStyle"
PRIM = "embedded_graphics::primitives::"
P = lambda i, n: ("param", i, n)


def run(ctx, rep):
    prog = ctx.program("default")
    rep.configs.append(getattr(ctx, "alias", "default"))
    split_tables(prog, rep)
    area_wiring(prog, rep)
    pairing(prog, rep, "R06.3")
    geometry_inputs(prog, rep, "R06.4", only=("rectangle", "circle", "ellipse", "rounded_rectangle"))
    fill_search_fallback(prog, rep)
    fill_search_whole_row(prog, rep)
    from rules import c01 as _c01
    _c01.scanline_rect(prog, rep)   # R01.4: every stroke / fill run is one fill_solid of exactly its columns (no culling, no empty run drawn)
    from rules import axis
    axis.run_for(ctx.program("default"), rep, 'R06.5', ['src/primitives/rectangle/styled.rs', 'src/primitives/primitive_style.rs', 'src/primitives/circle', 'src/primitives/ellipse', 'src/primitives/rounded_rectangle', 'src/primitives/common/styled_scanline.rs', 'src/primitives/common/scanline.rs'], 'stroke and fill areas of the closed shapes are computed per axis')

def split_tables(prog, rep):
    sa = {v["discr"]: v["name"] for v in prog.adts[PRIM + "primitive_style::StrokeAlignment"]["variants"]}
    w = ("field", P(1, "self"), field_index(prog, PS, "stroke_width"))
    al = ("field", P(1, "self"), field_index(prog, PS, "stroke_alignment"))
    want = {
        "outside_stroke_width": {"Inside": ("const", 0), "Outside": w, "Center": ("bin", "Div", w, ("const", 2))},
        "inside_stroke_width": {"Inside": w, "Outside": ("const", 0), "Center": ("bin", "Div", ("call", "*::saturating_add", "_", (w, ("const", 1))), ("const", 2))},
    }
    for nm, tbl in want.items():
        f = prog.method1(PS, nm, None)
        got = {}
        for lits, ret, _ in decisions(f):
            for d, lit in lits:
                if strip_refs(d) == ("discr", al) and len(lit) == 1:
                    got[sa.get(lit[0])] = fold(strip_refs(ret))
        for k, wv in tbl.items():
            g = got.get(k)
            rep.check(g is not None and match(g, wv) is not None, "R06.1", "%s:%s" % (nm, k),
                      "%s(%s) must be %s (outside + inside = width, the larger half inside); found %s" % (nm, k, show(wv), show(g) if g else None), at=f.span, fn=f.path)
        rep.sample({"rule": "R06.1", "fn": nm, "table": {k: show(v) for k, v in got.items() if k}})


def area_wiring(prog, rep):
    """R06.2 on path summaries (helpers introduced by an edit inlined): fill_area offsets the primitive by minus the inside
    stroke width for a solid stroke and by 0 otherwise; stroke_area by the outside stroke width on its only path."""
    from mirq.paths import Paths, Unsupported, show_fact
    P_ = Paths(prog, inline=lambda g: prog.is_new(g))
    fa = prog.method1(PS, "fill_area", None)
    sa_ = prog.method1(PS, "stroke_area", None)
    inside = ("call", "*::inside_stroke_width", "_", (P(1, "self"),))
    outside = ("call", "*::outside_stroke_width", "_", (P(1, "self"),))
    sat = lambda x: ("call", "*SaturatingAs>::saturating_as", "_", (x,))
    style_f = ("field", P(1, "self"), field_index(prog, PS, "stroke_style"))
    seen = {}
    try:
        for sm in P_.of(fa):
            r = strip_refs(sm.ret)
            m = match(r, ("call", "*::offset", "_", (P(2, "primitive"), "?off")))
            vs = [set(f[2]) for f in sm.facts if f[0] == "variant" and strip_refs(f[1]) == style_f]
            other = [f for f in sm.facts if not (f[0] == "variant" and strip_refs(f[1]) == style_f)]
            solid = None if (len(vs) != 1 or other) else (True if vs[0] == {"Solid"} else (False if "Solid" not in vs[0] else None))
            if m is None:
                seen[solid] = show(r, maxd=4)
                continue
            off = m["?off"]
            if match(off, ("un", "Neg", sat(inside))) is not None or match(off, ("call", "*Neg>::neg", "_", (sat(inside),))) is not None or match(off, sat(("un", "Neg", inside))) is not None and False:
                seen[solid] = "-inside"
            elif off == ("const", 0):
                seen[solid] = "0"
            else:
                seen[solid] = show(off)
    except Unsupported as e:
        seen = {"?": "cannot summarise: %s" % e}
    rep.check(seen == {True: "-inside", False: "0"}, "R06.2", "fill_area",
              "fill_area must shrink the primitive by the inside stroke width for a solid stroke and not at all otherwise; found %s" % seen, at=fa.span, fn=fa.path, detail={str(k): v for k, v in seen.items()})
    try:
        ss = P_.of(sa_)
        ok = len(ss) == 1 and not ss[0].facts and match(strip_refs(ss[0].ret), ("call", "*::offset", "_", (P(2, "primitive"), sat(outside)))) is not None
        found = "; ".join(show(x.ret, maxd=5) for x in ss[:2])
    except Unsupported as e:
        ok, found = False, "cannot summarise: %s" % e
    rep.check(ok, "R06.2", "stroke_area", "stroke_area must grow the primitive by the outside stroke width (saturating) on its only path; found %s" % found, at=sa_.span, fn=sa_.path)
    ST = PRIM + "styled::Styled"
    for nm in ("fill_area", "stroke_area"):
        c = [f for f in prog.fns.values() if f.name == nm and f.impl and prog.impls[f.impl]["self_ty"].get("adt") == ST]
        if len(c) != 1:
            rep.fail("R06.2", "Styled::" + nm, "anchor lost (%d)" % len(c), status="undecided")
            continue
        ro = strip_refs(Origins(c[0]).return_origin())
        want = ("call", "*PrimitiveStyle::<C>::" + nm, "_", (("field", P(1, "self"), field_index(prog, ST, "style")), ("field", P(1, "self"), field_index(prog, ST, "primitive"))))
        rep.check(match(ro, want) is not None, "R06.2", "Styled::" + nm, "Styled::%s must be self.style.%s(&self.primitive); found %s" % (nm, nm, show(ro)), at=c[0].span, fn=c[0].path)


# ---- R01.1 segment/colour pairing --------------------------------------------------------------------
def pairing(prog, rep, rule):
    SS = PRIM + "common::styled_scanline::StyledScanline"
    want = {"draw_stroke": {("stroke_left", "stroke_color"), ("stroke_right", "stroke_color")},
            "draw_stroke_and_fill": {("stroke_left", "stroke_color"), ("fill", "fill_color"), ("stroke_right", "stroke_color")}}
    for nm, w in want.items():
        f = prog.method1(SS, nm, None)
        # path summaries (closures of and_then / try_for_each expanded): the path on which no draw fails draws exactly
        # the wanted (segment, colour) pairs, every other path a prefix-subset of them and ends in that draw's error
        from mirq.paths import Paths, Unsupported, passes_result
        try:
            summs = Paths(prog, inline=lambda g: prog.is_new(g)).of(f)
        except Unsupported as e:
            rep.check(False, rule, "draw-path:" + nm, "cannot summarise %s: %s" % (nm, e), status="undecided", at=f.span, fn=f.path)
            continue
        full, bad = [], []
        for sm in summs:
            got = set()
            for e in sm.effects:
                if e[0] == "call" and e[1][1].endswith("Scanline::draw") and len(e[1][3]) == 3:
                    a = e[1][3]
                    a0 = strip_refs(a[0])
                    acc = a0[1].split("::")[-1] if a0[0] == "call" and len(a0[3]) == 1 and strip_refs(a0[3][0]) == P(1, "self") else "?"
                    col = strip_refs(a[2])[2] if strip_refs(a[2])[0] == "param" else "?"
                    got.add((acc, col))
                elif e[0] == "call":
                    got.add(("?", e[1][1].split("::")[-1]))
            failed = [fct for fct in sm.facts if fct[0] == "variant" and fct[2] == ("Err",)]
            if failed:
                if not got <= w:
                    bad.append("a failing path draws %s" % sorted(got - w))
            else:
                full.append(got)
        ok = not bad and len(full) >= 1 and all(g == w for g in full)
        rep.check(ok, rule, "draw-path:" + nm, "%s must draw %s; draws %s%s" % (nm, sorted(w), [sorted(g) for g in full], "; " + "; ".join(bad) if bad else ""), at=f.span, fn=f.path)
    # accessors
    fr = {"stroke_left": ("stroke_range", 0, "fill_range", 0), "fill": ("fill_range", 0, "fill_range", 1), "stroke_right": ("fill_range", 1, "stroke_range", 1)}
    for nm, (r1, i1, r2, i2) in fr.items():
        f = prog.method1(SS, nm, None)
        ro = strip_refs(Origins(f).return_origin())
        y = ("field", P(1, "self"), field_index(prog, SS, "y"))
        a = ("field", ("field", P(1, "self"), field_index(prog, SS, r1)), i1)
        b = ("field", ("field", P(1, "self"), field_index(prog, SS, r2)), i2)
        ok = match(ro, ("call", "*Scanline::new", "_", (y, ("agg", "*Range::Range", (a, b))))) is not None
        if nm == "fill" and not ok:
            fr_ = ("field", P(1, "self"), field_index(prog, SS, "fill_range"))
            ok = match(ro, ("call", "*Scanline::new", "_", (y, ("call", "*::clone", "_", (fr_,))))) is not None or match(ro, ("call", "*Scanline::new", "_", (y, fr_))) is not None
        rep.check(ok, rule, "segment:" + nm, "StyledScanline::%s must span %s.%s .. %s.%s on row y; found %s" % (nm, r1, ("start", "end")[i1], r2, ("start", "end")[i2], show(ro)), at=f.span, fn=f.path)

    # pixel paths
    for shape in ("circle", "ellipse", "rounded_rectangle"):
        IT = PRIM + shape + "::styled::StyledPixelsIterator"
        try:
            nx = prog.method1(IT, "next", "core::iter::traits::iterator::Iterator")
        except Exception as e:
            rep.fail(rule, "pixel-path:" + shape, "anchor lost: %s" % e, status="undecided")
            continue
        fidx = {f["name"]: i for i, f in enumerate(prog.adts[IT]["variants"][0]["fields"])}
        org = Origins(nx)
        # (1) refills: self.F = scanline.F()
        bad = []
        n_ref = 0
        for bi in sorted(org.cfg.live_blocks()):
            for si, s in enumerate(nx.body["blocks"][bi]["s"]):
                if s["k"] == "assign" and s["place"]["l"] == 1 and "*" in s["place"]["p"]:
                    fs = [e["f"] for e in s["place"]["p"] if isinstance(e, dict) and "f" in e]
                    if len(fs) == 1:
                        fname = [k for k, v in fidx.items() if v == fs[0]][0]
                        if fname in ("stroke_left", "fill", "stroke_right"):
                            v = strip_refs(org._rvalue(s["rv"], bi, si))
                            n_ref += 1
                            if not (v[0] == "call" and v[1].endswith("StyledScanline::" + fname)):
                                bad.append("%s <- %s" % (fname, show(v, maxd=3)))
            t = nx.body["blocks"][bi]["t"]
            if t and t["k"] == "call" and t["dest"]["l"] == 1 and "*" in t["dest"]["p"]:
                fs = [e["f"] for e in t["dest"]["p"] if isinstance(e, dict) and "f" in e]
                if len(fs) == 1:
                    fname = [k for k, v in fidx.items() if v == fs[0]][0]
                    if fname in ("stroke_left", "fill", "stroke_right"):
                        n_ref += 1
                        if not (t["f"].get("path", "").endswith("StyledScanline::" + fname)):
                            bad.append("%s <- %s" % (fname, t["f"].get("path")))
        rep.check(not bad and n_ref >= 6, rule, "pixel-path:%s:refill" % shape, "each segment iterator must be refilled from the accessor of the same name; mismatches %s (%d refills)" % (bad, n_ref), at=nx.span, fn=nx.path)
        # (2) colour pairing on the path summaries of next() (loops walked once, closures of or_else / map expanded):
        # every returned pixel is Pixel(item of self.<segment>.next(), the colour matched out of self.<colour>)
        from mirq.paths import Paths, Unsupported, variant_of
        pairs = set()
        rname = {v: k for k, v in fidx.items()}
        try:
            summs = Paths(prog, inline=lambda g: prog.is_new(g), loops="once", limit=6000).of(nx)
        except Unsupported as e:
            rep.check(False, rule, "pixel-path:%s:colours" % shape, "cannot summarise next(): %s" % e, status="undecided", at=nx.span, fn=nx.path)
            continue

        def field_of_self(t):
            for nn in walk(t):
                if nn[0] == "field" and isinstance(nn[2], int) and strip_refs(nn[1]) == P(1, "self"):
                    return rname.get(nn[2])
            return None
        for sm in summs:
            r = sm.ret
            if r is None:
                continue
            vo = variant_of(r)
            if vo is not None and vo[1] == "None":
                continue
            px = r[2][0] if vo is not None and vo[1] == "Some" and r[2] else None
            if px is None or not (px[0] == "agg" and str(px[1]).endswith("Pixel::Pixel") and len(px[2]) == 2):
                pairs.add(("?", show(r, maxd=3)[:60]))
                continue
            pt, col = px[2]
            seg = None
            if pt[0] == "payload" and pt[1][0] == "call" and pt[1][1].split("::")[-1] == "next":
                seg = field_of_self(pt[1][3][0])
            pairs.add((seg, field_of_self(col)))
        want_p = {("stroke_left", "stroke_color"), ("stroke_right", "stroke_color"), ("fill", "fill_color")}
        rep.check(pairs == want_p, rule, "pixel-path:%s:colours" % shape,
                  "pixels() must colour stroke_left/stroke_right with the stroke colour and fill with the fill colour (same pairing as draw()); found %s" % sorted(pairs, key=str), at=nx.span, fn=nx.path,
                  detail=sorted(pairs, key=str))
        rep.sample({"rule": rule, "shape": shape, "pixel_path_pairs": sorted(pairs, key=str)})
        # the matched colours are the style's colours
        nw = prog.method1(IT, "new", None)
        ro = strip_refs(Origins(nw).return_origin())
        ok = ro[0] == "agg" and ro[2][fidx["stroke_color"]] == ("field", P(2, "style"), field_index(prog, PS, "stroke_color")) and ro[2][fidx["fill_color"]] == ("field", P(2, "style"), field_index(prog, PS, "fill_color"))
        rep.check(ok, rule, "pixel-path:%s:style-colours" % shape, "the iterator must take stroke_color/fill_color from the style; found %s" % show(ro, maxd=3), at=nw.span, fn=nw.path)


# ---- R01.2 same geometry inputs --------------------------------------------------------------------
def geometry_inputs(prog, rep, rule, only=None):
    """Both renderers (pixels(): StyledPixelsIterator::new; draw(): draw_styled) feed their generators from
    style.fill_area(primitive) / style.stroke_area(primitive) of the unmodified primitive and style."""
    shapes = ["rectangle", "circle", "ellipse", "rounded_rectangle", "sector"]
    for shape in shapes:
        if only and shape not in only:
            continue
        fns = []
        IT = PRIM + shape + "::styled::StyledPixelsIterator"
        try:
            fns.append(("pixels", prog.method1(IT, "new", None), 1, 2))
        except Exception as e:
            rep.fail(rule, shape + ":pixels", "anchor lost: %s" % e, status="undecided")
        ds = [f for f in prog.fns.values() if f.name == "draw_styled" and f.kind == "assoc_fn" and (PRIM + shape + "::styled::") in f.id]
        if len(ds) == 1:
            fns.append(("draw", ds[0], 1, 2))
        else:
            rep.fail(rule, shape + ":draw", "draw_styled anchor lost (%d)" % len(ds), status="undecided")
        for which, f, pi, si in fns:
            org = Origins(f)
            cn = Canon(prog)
            n = 0
            bad = []
            for nm in ("stroke_area", "fill_area"):
                # call sites in f and in helpers introduced by an edit (arguments expressed over f's parameters)
                for st in cn.sites(f, nm):
                    a, t = st.args, st.t
                    if not t["f"].get("path", "").startswith(PS):
                        continue
                    n += 1
                    prim = f.body["locals"][pi].get("name")
                    if not (a[0] == P(si, "style") and a[1] == P(pi, prim)):
                        bad.append("%s(%s, %s)" % (nm, show(a[0], maxd=3), show(a[1], maxd=3)))
            # sector draw path goes through the iterator
            if shape == "sector" and which == "draw":
                ro = sites(f, "draw_iter", org)
                ok = len(ro) == 1 and match(ro[0][1][1], ("call", "*StyledPixelsIterator::<C>::new", "_", (P(1, "self"), P(2, "style")))) is not None
                rep.check(ok, rule, shape + ":draw", "draw() must be draw_iter(StyledPixelsIterator::new(self, style))", at=f.span, fn=f.path)
                continue
            rep.check(not bad and n >= 1, rule, "%s:%s" % (shape, which),
                      "the %s renderer must take its areas from style.stroke_area/fill_area of the unmodified primitive and style (as Styled::fill_area()/stroke_area() do); found %s (%d area calls)" % (which, bad, n),
                      at=f.span, fn=f.path)
            # generator argument order
            for st in cn.sites(f, "new"):
                a, t = st.args, st.t
                p = t["f"].get("path", "")
                if p.endswith("StyledScanlines::new"):
                    ok = a[0][0] == "call" and a[0][1].endswith("::stroke_area") and a[1][0] == "call" and a[1][1].endswith("::fill_area")
                    rep.check(ok, rule, "%s:%s:generator-args" % (shape, which), "StyledScanlines::new must receive (stroke_area, fill_area) in that order; got (%s, %s)" % (show(a[0], maxd=2), show(a[1], maxd=2)), at=f.span, fn=f.path)
                elif p.endswith("::Scanlines::new") and "StyledScanlines" not in p:
                    ok = a[0][0] == "call" and a[0][1].endswith("::fill_area")
                    rep.check(ok, rule, "%s:%s:fill-generator" % (shape, which), "the fill-only generator must scan the fill area; scans %s" % show(a[0], maxd=2), at=f.span, fn=f.path)


def fill_search_whole_row(prog, rep, rule="R06.7"):
    """The styled scanlines of circle, ellipse and rounded rectangle find the fill range of a row by searching the
    stroke scanline for the first column inside the fill area.  The search must run over the scanline's own column
    range from its first column (and, where a last column is searched, back from its last): an iterator that skips
    columns (`skip(stroke_width)`, a shifted range) misses fill columns wherever the stroke is thinner horizontally
    than its nominal width — near the tips of a narrow ellipse."""
    from mirq.paths import Paths, Unsupported
    for shape in ("circle", "ellipse", "rounded_rectangle"):
        try:
            nx = prog.method1(PRIM + shape + "::styled::StyledScanlines", "next", "core::iter::traits::iterator::Iterator")
        except Exception as e:
            rep.fail(rule, shape + ":fill-search-row", "anchor lost: %s" % e, status="undecided")
            continue
        subjects = set()
        try:
            for sm in Paths(prog, inline=lambda g: prog.is_new(g), loops="once", limit=6000).of(nx):
                for fct in sm.facts:
                    for x in fct[1:]:
                        if isinstance(x, tuple):
                            for n in walk(x):
                                if n[0] == "call" and n[1].split("::")[-1] in ("next", "next_back") and "Scanlines" not in n[1] and n[3]:
                                    it = strip_refs(n[3][0])
                                    while it[0] == "call" and it[1].split("::")[-1] in ("into_iter", "by_ref", "rev") and len(it[3]) == 1:
                                        it = strip_refs(it[3][0])      # a `for` loop over the range
                                    subjects.add(it)
        except Unsupported as e:
            rep.fail(rule, shape + ":fill-search-row", "cannot summarise: %s" % e, status="undecided", at=nx.span, fn=nx.path)
            continue
        row = ("field", ("payload", ("call", "*points::Scanlines as core::iter::traits::iterator::Iterator>::next", "_", ("_",))), 1)
        ok_forms = (("call", "*::clone", "_", (row,)), row)
        bad = [show(t, maxd=4) for t in subjects if not any(match(t, w) is not None for w in ok_forms)]
        rep.check(bool(subjects) and not bad, rule, shape + ":fill-search-row",
                  "the fill range of a styled scanline must be searched over the whole stroke scanline (scanline.x), found a search over %s" % ("; ".join(sorted(bad)[:2]) or "nothing"),
                  at=nx.span, fn=nx.path)


def fill_search_fallback(prog, rep, rule="R06.6"):
    """A styled scanline of the rounded rectangle carries the fill range found by searching its columns for the first /
    last column inside the fill area.  When the search finds no such column (the fill area has rows but this row of it
    is empty: a fill area of zero width) the scanline must carry NO fill — a fallback to the ends of the stroke scanline
    paints the whole row in the fill colour although fill_area() contains none of its points.
    Path summaries with the searches walked once: on every path on which the left search ends without a hit, the fill
    range handed to StyledScanline::new is absent or empty."""
    from mirq.paths import Paths, Unsupported, is_continues, variant_of, show_fact
    SS = PRIM + "rounded_rectangle::styled::StyledScanlines"
    try:
        nx = prog.method1(SS, "next", "core::iter::traits::iterator::Iterator")
    except Exception as e:
        rep.fail(rule, "rounded_rectangle:fill-fallback", "anchor lost: %s" % e, status="undecided")
        return
    bad, underived = [], []
    n_nohit = n_hit = 0
    try:
        summs = Paths(prog, loops="once", limit=6000).of(nx)
    except Unsupported as e:
        rep.fail(rule, "rounded_rectangle:fill-fallback", "cannot summarise: %s" % e, status="undecided", at=nx.span, fn=nx.path)
        return
    for sm in summs:
        if sm.ret is None or sm.ret[0] != "agg" or not str(sm.ret[1]).endswith("Option::Some") or not sm.ret[2]:
            continue
        v = sm.ret[2][0]
        if not (v[0] == "call" and v[1].endswith("StyledScanline::new") and len(v[3]) == 3):
            continue
        fill = v[3][2]
        # did the left (first-column) search end without a hit?
        nohit = False
        for fct in sm.facts:
            if fct[0] == "variant" and fct[2] == ("None",):
                x = fct[1]
                if is_continues(x) and x[3] and x[3][0][1].split("::")[-1] == "next":
                    nohit = True      # looked at a column, it was outside, and the rest of the search found nothing
                if x[0] == "call" and x[1].split("::")[-1] == "next" and any(n[0] == "call" and n[1].endswith("::clone") for n in walk(x)):
                    nohit = True      # the stroke scanline has no column at all
        vo = variant_of(fill)
        if vo is None:
            continue
        if vo[1] == "Some" and fill[2] and fill[2][0][0] == "agg" and str(fill[2][0][1]).endswith("Range") and len(fill[2][0][2]) == 2:
            # where does a non-empty fill range come from?  Its first column must be a column of the stroke scanline
            # that the search found inside the fill area (the membership test pixels() uses), not a value computed
            # some other way (whole columns of the fill box, a cached range, ...)
            st_ = fill[2][0][2][0]
            inner = st_[1] if st_[0] == "payload" else None
            if inner is not None and is_continues(inner):
                inner = inner[3][0]
            searched = inner is not None and inner[0] == "call" and inner[1].split("::")[-1] in ("next", "find", "position")
            tested = any(n[0] == "call" and n[1].endswith("RoundedRectangleContains::contains") for fct in sm.facts for x in fct[1:] if isinstance(x, tuple) for n in walk(x))
            if fill[2][0][2][0] != fill[2][0][2][1] and not (searched and tested):
                underived.append(show(st_, maxd=4))
        elif vo[1] == "Some" and fill[2]:
            underived.append(show(fill[2][0], maxd=4))   # a range that is not assembled from the search results at all
        if nohit:
            n_nohit += 1
            empty = vo[1] == "None" or (vo[1] == "Some" and fill[2][0][0] == "agg" and str(fill[2][0][1]).endswith("Range") and fill[2][0][2][0] == fill[2][0][2][1])
            if not empty:
                bad.append("the search finds no column inside the fill area, yet the scanline carries the fill range %s" % show(fill, maxd=5))
        else:
            n_hit += 1
    rep.check(not bad and n_nohit >= 1 and n_hit >= 1, rule, "rounded_rectangle:fill-fallback",
              "a row of the fill area without a contained column must carry no fill: %s" % ("; ".join(sorted(set(bad))[:2]) or "paths without/with hit: %d/%d" % (n_nohit, n_hit)), at=nx.span, fn=nx.path)
    rep.check(not underived, rule, "rounded_rectangle:fill-from-search",
              "the fill range of a styled scanline must start at a column found by searching the stroke scanline with fill_area.contains() (the test pixels() applies per point); found a range starting at %s" % "; ".join(sorted(set(underived))[:2]),
              status="undecided", at=nx.span, fn=nx.path)
