"""Builder integrity (shared by C14 / C15): a style builder is a style in the making.  Every method that hands back the
builder keeps each field of the style where it is unless it sets that field from its arguments or to a constant — no field
may receive the value of a *different* field of the incoming style (a positional constructor called with two arguments
swapped), and a builder made `From<&Style>` carries every field of that style (none silently reset to its default)."""
from mirq.paths import Paths, Unsupported
from mirq.origin import mk_field, show, walk
from mirq.pat import strip_refs


def check_builder(prog, rep, rule, builder_adt, style_adt):
    short = builder_adt.split("::")[-1]
    sfields = [fd["name"] for fd in prog.adts[style_adt]["variants"][0]["fields"]]
    P_ = Paths(prog, inline=lambda g: True, depth=6)
    n = 0
    for impl in prog.impls.values():
        st = impl["self_ty"]
        if not (isinstance(st, dict) and st.get("adt") == builder_adt):
            continue
        tr = impl.get("trait")
        if tr and not tr.startswith("core::convert::From"):
            continue        # derived Clone / Debug / PartialEq …
        for nm, fid in sorted(impl["fns"].items()):
            f = prog.fns.get(fid)
            if f is None or not f.body:
                continue
            rty = f.body["locals"][0]["ty"]
            if not (isinstance(rty, dict) and rty.get("adt") == builder_adt):
                continue
            key = "%s::%s" % (short, nm if not tr else "from")
            # the incoming style: self.style for methods, the argument for From<&Style> / From<Style>
            src = None
            if tr:
                a1 = f.body["locals"][1]["ty"]
                while isinstance(a1, dict) and "ref" in a1:
                    a1 = a1["ref"]
                if isinstance(a1, dict) and a1.get("adt") == style_adt:
                    src = ("param", 1)
                else:
                    continue
            elif f.body["argc"] >= 1:
                a1 = f.body["locals"][1]["ty"]
                while isinstance(a1, dict) and "ref" in a1:
                    a1 = a1["ref"]
                if isinstance(a1, dict) and a1.get("adt") == builder_adt:
                    src = ("self",)
            try:
                summs = P_.of(f)
            except Unsupported as e:
                rep.fail(rule, key, "cannot summarise: %s" % e, status="undecided", at=f.span, fn=f.path)
                continue
            n += 1
            bad = []

            def src_field(t):
                """k if t is (a copy of) field k of the incoming style"""
                t = strip_refs(t)
                while t[0] == "call" and t[1].split("::")[-1] in ("clone", "into", "from", "copied") and len(t[3]) == 1:
                    t = strip_refs(t[3][0])
                if t[0] != "field" or not isinstance(t[2], int):
                    return None
                b = strip_refs(t[1])
                if src == ("param", 1) and b[0] == "param" and b[1] == 1:
                    return t[2]
                if src == ("self",) and b[0] == "field" and b[2] == 0 and strip_refs(b[1])[0] == "param" and strip_refs(b[1])[1] == 1:
                    return t[2]
                return None
            for sm in summs:
                r = strip_refs(sm.ret)
                style_v = mk_field(r, 0)
                for k, fname in enumerate(sfields):
                    v = strip_refs(mk_field(style_v, k))
                    j = src_field(v)
                    if j == k:
                        continue
                    if j is not None:
                        bad.append("field `%s` receives the incoming style's `%s`" % (fname, sfields[j]))
                        continue
                    inner = [src_field(x) for x in walk(v) if isinstance(x, tuple) and x and isinstance(x[0], str)]
                    inner = [x for x in inner if x is not None and x != k]
                    if inner and v[0] not in ("agg",) and False:
                        bad.append("field `%s` is computed from `%s`" % (fname, sfields[inner[0]]))
                    if tr and src is not None:
                        bad.append("field `%s` of the style is not carried over (becomes %s)" % (fname, show(v, maxd=3)))
            rep.check(not bad, rule, key, "%s: %s" % (key, "; ".join(sorted(set(bad))[:3])), at=f.span, fn=f.path)
    return n
