"""C16 — rectangle operations agree with the set of points they describe (structural part)."""
import re
from mirq import ty_str
from mirq.origin import Origins, show, walk, decisions
from mirq.pat import match, find, strip_refs
from mirq.canon import Canon

RECT = "embedded_graphics_core::primitives::rectangle::Rectangle"
PT = ("embedded_graphics_core::geometry::point::Point", "embedded_graphics_core::geometry::size::Size")
CMP = ("min", "max", "cmp", "clamp", "lt", "le", "gt", "ge", "partial_cmp", "min_by", "max_by", "min_by_key", "max_by_key")


def fact_s(x):
    return "%s(%s)" % (x[0], ", ".join(show(y, maxd=30) if isinstance(y, tuple) and y and isinstance(y[0], str) else str(y) for y in x[1:]))


def family_signature(prog, f, depth=0):
    """Structural signature of a function and the closures it creates: per path (conditions, result),
    closure identities replaced by their own signatures, call-site tags and parameter-free noise erased."""
    if depth > 4:
        return "…"
    out = []
    try:
        decs = decisions(f)
    except Exception:
        return "loop:" + re.sub(r"@bb\d+", "", show(strip_refs(Origins(f).return_origin()), maxd=30))
    for lits, ret, _ in decs:
        def ren(t):
            s = show(strip_refs(t), maxd=30)
            s = re.sub(r"@bb\d+", "", s)
            return s
        txt = " & ".join("%s=%s" % (ren(d), l) for d, l in lits) + " => " + ren(ret)
        # replace closure names by signatures
        for n in walk(ret):
            if n[0] == "agg" and str(n[1]).startswith("closure:"):
                cid = n[1][len("closure:"):]
                c = prog.fns.get(cid)
                if c is not None:
                    from mirq.origin import _short
                    txt = txt.replace(_short(str(n[1])), "closure<%s>" % family_signature(prog, c, depth + 1))
        out.append(txt)
    return " || ".join(sorted(out))


def run(ctx, rep):
    prog = ctx.program("default")
    rep.configs.append(getattr(ctx, "alias", "default"))
    # ---- R16.1 duplicate public definitions of one contract agree ----------------------------------------
    pairs = [
        ("contains", prog.method1(RECT, "contains", None), prog.method1(RECT, "contains", "embedded_graphics::primitives::ContainsPoint")),
        ("offset", prog.method1(RECT, "offset", None), prog.method1(RECT, "offset", "embedded_graphics::primitives::OffsetOutline")),
    ]
    cn = Canon(prog)
    untag = lambda x: re.sub(r"@bb\d+", "", x)
    for nm, a, b in pairs:
        # one definition that simply hands its arguments on to the other is the same function by construction
        deleg = False
        for x, y in ((a, b), (b, a)):
            ro = strip_refs(Origins(x).return_origin())
            if ro[0] == "call" and ro[1] == y.path and [strip_refs(t)[:2] for t in ro[3]] == [("param", i + 1) for i in range(x.body["argc"])]:
                deleg = True
        if deleg:
            rep.ok("R16.1", "duplicate:" + nm, detail="one definition delegates to the other", at=b.span, fn=b.path)
            continue
        if a.body["locals"][0]["ty"] == "bool":
            # the two definitions return true on the same set of inputs: same conjunctions of canonical facts
            sa = sorted(untag(" & ".join(sorted(fact_s(x) for x in c))) for c in cn.dnf_fn(a, truth=True))
            sb = sorted(untag(" & ".join(sorted(fact_s(x) for x in c))) for c in cn.dnf_fn(b, truth=True))
        else:
            # value-returning: path summaries (helpers introduced by an edit inlined) — the same conditions lead to the
            # same values
            from mirq.paths import Paths, Unsupported, show_fact
            try:
                P_ = Paths(prog, inline=lambda g: prog.is_new(g))
                sig = lambda f_: sorted(untag(" & ".join(sorted(show_fact(x) for x in sm.facts)) + " => " + show(sm.ret, maxd=30)) for sm in P_.of(f_))
                sa, sb = sig(a), sig(b)
            except Unsupported:
                sa = sorted(untag(" & ".join(sorted(fact_s(x) for x in c)) + " => " + show(r, maxd=30)) for c, r in cn.decision_set(a))
                sb = sorted(untag(" & ".join(sorted(fact_s(x) for x in c)) + " => " + show(r, maxd=30)) for c, r in cn.decision_set(b))
        sa, sb = " || ".join(sa), " || ".join(sb)
        rep.check(sa == sb, "R16.1", "duplicate:" + nm,
                  "Rectangle::%s has two public definitions (inherent in embedded-graphics-core and the trait impl in embedded-graphics); they must compute the same function, but their canonical decision sets differ:\n  core: %s\n  eg:   %s" % (nm, sa[:700], sb[:700]),
                  at=b.span, fn=b.path, detail={"core": sa[:800], "eg": sb[:800]})
        rep.sample({"rule": "R16.1", "fn": nm, "signature": sa[:400]})

    # ---- R16.3 no lexicographic comparison of points or sizes in library logic -------------------------------
    n_sites = 0
    hits = []
    for f in sorted(prog.fns.values(), key=lambda f: f.id):
        if not f.body or "::mock_display::" in f.id:
            continue
        impl = prog.impls.get(f.impl) if f.impl else None
        root = f.root_fn()
        rimpl = prog.impls.get(root.impl) if root.impl else None
        if rimpl is not None and rimpl.get("trait") in ("core::cmp::Ord", "core::cmp::PartialOrd", "core::cmp::PartialEq", "core::cmp::Eq", "core::hash::Hash"):
            continue  # derived structural comparisons of whole values
        for b in f.body["blocks"]:
            t = b["t"]
            if not (t and t["k"] == "call"):
                continue
            n_sites += 1
            if t["f"].get("name") in CMP and "core::cmp" in (t["f"].get("path", "") or ""):
                for a in t["args"]:
                    pl = a.get("move") or a.get("copy")
                    if pl is None or pl["p"]:
                        continue
                    ty = f.body["locals"][pl["l"]]["ty"]
                    while isinstance(ty, dict) and "ref" in ty:
                        ty = ty["ref"]
                    if isinstance(ty, dict) and ty.get("adt") in PT:
                        hits.append((f, t))
                        break
    seen = set()
    for f, t in hits:
        k = "%s>%s" % (f.key(), t["f"].get("name"))
        if k in seen:
            continue
        seen.add(k)
        rep.fail("R16.3", "lexicographic:" + k, "%s compares whole Point/Size values with the derived lexicographic order (%s): corners and extents must be combined component-wise (component_min / component_max / per-axis comparisons) — the lexicographic minimum of two points is not their component-wise minimum"
                 % (f.key(), t["f"].get("path")), at=t.get("sp", ""), fn=f.path)
    if not hits:
        rep.ok("R16.3", "no-lexicographic-point-order", detail="%d call sites scanned" % n_sites)
    rep.floor("R16.3", "call sites scanned", n_sites, 2000)

    # ---- R16.4 component helpers really are component-wise ------------------------------------------------------
    for adt in PT:
        short = adt.split("::")[-1]
        for nm, op in (("component_min", "min"), ("component_max", "max")):
            try:
                f = prog.method1(adt, nm, None)
            except Exception as e:
                rep.fail("R16.4", "%s::%s" % (short, nm), "anchor lost: %s" % e, status="undecided")
                continue
            ro = strip_refs(Origins(f).return_origin())
            ok = ro[0] == "call" and ro[1].endswith("::new") and len(ro[3]) == 2
            if ok:
                for i, c in enumerate(ro[3]):
                    m = match(c, ("call", "*::" + op, "_", (("field", ("param", 1, "self"), i), ("field", ("param", 2, "other"), i))))
                    ok = ok and m is not None
            rep.check(ok, "R16.4", "%s::%s" % (short, nm), "%s::%s must be new(%s(self.0, other.0), %s(self.1, other.1)); found %s" % (short, nm, op, op, show(ro)), at=f.span, fn=f.path)
    # intersection / envelope build their corners from component_max / component_min in the right roles
    inter = prog.method1(RECT, "intersection", None)
    env = prog.method1(RECT, "envelope", None)
    for f, nm, tl_op, br_op in ((inter, "intersection", "component_max", "component_min"), (env, "envelope", "component_min", "component_max")):
        ro = strip_refs(Origins(f).return_origin())
        wc = find(ro, ("call", "*Rectangle::with_corners", "_", ("?tl", "?br")))
        ok = bool(wc)
        det = ""
        for n, m in wc:
            tl_calls = [x[1].split("::")[-1] for x in walk(m["?tl"]) if x[0] == "call" and x[1].split("::")[-1].startswith("component_")]
            br_calls = [x[1].split("::")[-1] for x in walk(m["?br"]) if x[0] == "call" and x[1].split("::")[-1].startswith("component_")]
            det = "top-left via %s, bottom-right via %s" % (sorted(set(tl_calls)), sorted(set(br_calls)))
            ok = ok and set(tl_calls) == {tl_op} and set(br_calls) == {br_op}
        rep.check(ok, "R16.4", "Rectangle::" + nm, "Rectangle::%s must build its top-left corner with %s and its bottom-right corner with %s of the operands' corners; found %s" % (nm, tl_op, br_op, det or show(ro, maxd=5)),
                  at=f.span, fn=f.path)
    try:
        intersection_cases(prog, rep, inter)
    except Exception as e:
        import traceback; traceback.print_exc()
        rep.fail("R16.8", "engine", "order-type analysis crashed: %r" % (e,), status="undecided")
    from rules import c16_tables
    c16_tables.run(prog, rep)
    from rules import axis
    axis.run_for(ctx.program("default"), rep, 'R16.6', ['core/src/primitives/rectangle', 'core/src/geometry', 'src/primitives/rectangle/mod.rs', 'src/geometry'], 'rectangle and geometry operations treat the axes independently')



def intersection_cases(prog, rep, inter):
    """R16.8 for two non-empty rectangles `intersection` takes the corner-building exit exactly when their column ranges
    and their row ranges overlap, and the empty exit otherwise.  The decision touches the eight corner coordinates only
    through comparisons, so it is decided by exhaustive case analysis over their order types (mirq.orders, D5): four
    x ranks and four y ranks, 100 x 100 admissible cases (top_left <= bottom_right on each axis)."""
    from mirq.orders import OrderEval, Undecided, Sc, assignments
    from mirq.paths import Paths, Unsupported
    from mirq.origin import show
    P_ = Paths(prog, inline=lambda g: prog.is_new(g))
    try:
        summs = P_.of(inter)
    except Unsupported as e:
        rep.fail("R16.8", "intersection", "cannot summarise: %s" % e, status="undecided", at=inter.span, fn=inter.path)
        return

    def is_br(t, who):
        t = strip_refs(t)
        return t[0] == "call" and t[1].endswith("Rectangle::bottom_right") and len(t[3]) == 1 and strip_refs(t[3][0])[0] == "param" and strip_refs(t[3][0])[2] == who
    both = []
    for sm in summs:
        v = {}
        for fc in sm.facts:
            if fc[0] == "variant":
                for who in ("self", "other"):
                    if is_br(fc[1], who):
                        v[who] = tuple(fc[2])
        if v.get("self") == ("Some",) and v.get("other") == ("Some",):
            both.append(sm)
    if not both:
        rep.fail("R16.8", "intersection", "no path of Rectangle::intersection is conditioned on both bottom_right() being Some", status="undecided", at=inter.span, fn=inter.path)
        return
    cur = {}

    def leaf(t):
        # self.top_left.{x,y}, payload(self.bottom_right()).{x,y} and the same for other
        if t[0] == "field" and isinstance(t[2], int) and t[2] in (0, 1):
            b = strip_refs(t[1])
            if b[0] == "field" and b[2] == 0 and strip_refs(b[1])[0] == "param":
                return cur.get((strip_refs(b[1])[2], "tl", t[2]))
            if b[0] == "payload":
                for who in ("self", "other"):
                    if is_br(b[1], who):
                        return cur.get((who, "br", t[2]))
        return None
    E = OrderEval(prog, leaf=leaf)
    ncase = 0
    bad = None
    try:
        axis_cases = [(a, b, c, d) for a, b, c, d in assignments(4) if a <= b and c <= d]
        for xa in axis_cases:
            for ya in axis_cases:
                cur.clear()
                for ax, dom, (a, b, c, d) in ((0, "x", xa), (1, "y", ya)):
                    cur[("self", "tl", ax)], cur[("self", "br", ax)] = Sc(dom, a), Sc(dom, b)
                    cur[("other", "tl", ax)], cur[("other", "br", ax)] = Sc(dom, c), Sc(dom, d)
                hit = [sm for sm in both if all(fc[0] == "variant" or E.fact(fc, {}, 0) for fc in sm.facts)]
                kinds = set()
                for sm in hit:
                    r = strip_refs(sm.ret)
                    names = {x[1].split("::")[-1] for x in walk(r) if x[0] == "call"}
                    kinds.add("corners" if "with_corners" in names or ({"component_max", "component_min"} <= names) else "empty" if names & {"zero", "default"} or "Size::zero" in show(r) else "other:" + show(r, maxd=3))
                want = "corners" if (xa[0] <= xa[3] and xa[2] <= xa[1]) and (ya[0] <= ya[3] and ya[2] <= ya[1]) else "empty"
                ncase += 1
                if kinds != {want}:
                    bad = "columns self %d..=%d other %d..=%d, rows self %d..=%d other %d..=%d (ranks): takes the %s exit, the common points need the %s exit" % (xa + ya + (sorted(kinds) or ["no"], want))
                    raise StopIteration
    except StopIteration:
        pass
    except Undecided as e:
        rep.fail("R16.8", "intersection", "the overlap decision is not a pure comparison of the corner coordinates: %s" % e, status="undecided", at=inter.span, fn=inter.path)
        return
    rep.analysed["R16.8:order-type cases"] = ncase
    rep.check(bad is None, "R16.8", "intersection", "Rectangle::intersection of non-empty rectangles: %s" % bad, at=inter.span, fn=inter.path,
              detail={"cases": ncase, "functions": sorted(E.fns_seen)})
