"""Shared pack: image draw wiring (R01.5) and the polyline's translate handling (R01.2) for properties that depend on
them without claiming the rest of C01 (C07: translated images and polylines must land where their offset says)."""
from rules import c01


def run(ctx, rep):
    prog = ctx.program("default")
    c01.polyline(prog, rep)
    c01.image_paths(prog, rep)
